"""Scratch-copy variants for the self-test.  Each: id, prop, file, old, new, expect (rule id) or kind='twin'."""
VARIANTS = []


def M(id, prop, file, old, new, expect, **kw):
    VARIANTS.append(dict(id=id, prop=prop, file=file, old=old, new=new, expect=expect, kind="mutant", **kw))


def T(id, prop, file, old, new, **kw):
    VARIANTS.append(dict(id=id, prop=prop, file=file, old=old, new=new, expect=None, kind="twin", **kw))


LL = "_lowlevel.py"
L311 = "_lowlevel_cpython_311.py"
L310 = "_lowlevel_cpython_310.py"

# ---------------------------------------------------------------- C01: VER / LAY
M("ver1-yieldfrom-311", "C01", LL, '    is_async = False\n    if sys.version_info < (3, 11):\n        if code[offs] == op["YIELD_FROM"]',
  '    is_async = False\n    if sys.version_info < (3, 12):\n        if code[offs] == op["YIELD_FROM"]', "VER-1")
M("ver1-dup-top-311", "C01", LL, "    elif sys.version_info < (3, 11):\n        # 3.9 and 3.10: either WITH_EXCEPT_START",
  "    elif sys.version_info < (3, 12):\n        # 3.9 and 3.10: either WITH_EXCEPT_START", "VER-1")
M("ver1-precall-312", "C01", LL, "        if sys.version_info < (3, 12):\n            # 3.11 has PRECALL",
  "        if sys.version_info < (3, 13):\n            # 3.11 has PRECALL", "VER-1")
M("ver1-38-arm-39", "C01", LL, "    if sys.version_info < (3, 9):\n        # 3.8: they all use WITH_CLEANUP_START",
  "    if sys.version_info < (3, 10):\n        # 3.8: they all use WITH_CLEANUP_START", "VER-1")
M("ver2-dispatch-312", "C01", LL, "        if sys.version_info < (3, 11):\n            from ._lowlevel_cpython_310 import inspect_frame",
  "        if sys.version_info < (3, 12):\n            from ._lowlevel_cpython_310 import inspect_frame", "VER-2")
M("ver2-dispatch-310", "C01", LL, "        if sys.version_info < (3, 11):\n            from ._lowlevel_cpython_310 import inspect_frame",
  "        if sys.version_info < (3, 10):\n            from ._lowlevel_cpython_310 import inspect_frame", "VER-2")
M("ver3-parse-table-312", "C01", LL, "if sys.version_info >= (3, 11):\n\n    def _parse_varint", "if sys.version_info >= (3, 12):\n\n    def _parse_varint", "VER-3")
M("ver3-start-to-handler", "C01", LL, "    if sys.version_info >= (3, 11):\n        start_to_handler = {", "    if sys.version_info >= (3, 12):\n        start_to_handler = {", "VER-3")
M("ver3-exceptiongroup-310", "C01", "_extract.py", "if sys.version_info < (3, 11):\n    from exceptiongroup import ExceptionGroup",
  "if sys.version_info < (3, 10):\n    from exceptiongroup import ExceptionGroup", "VER-3")
M("ver3-exceptiongroup-312", "C01", "_extract.py", "if sys.version_info < (3, 11):\n    from exceptiongroup import ExceptionGroup",
  "if sys.version_info < (3, 12):\n    from exceptiongroup import ExceptionGroup", "VER-3")
M("ver0-match-stmt", "C01", "_glue.py", "def format_funcname(func: object) -> str:\n    try:", "def format_funcname(func: object) -> str:\n    match func:\n        case 1:\n            pass\n    try:", "VER-0")
M("opc4-typo", "C01", LL, 'insn.opname in (\n            "BEFORE_WITH",\n            "BEFORE_ASYNC_WITH",', 'insn.opname in (\n            "BEFORE_WITH",\n            "BEFORE_ASYNC_WIHT",', "OPC-4")
M("lay311-312-list-for-311", "C01", L311, "    _fields_: List[Tuple[str, Type[\"ctypes._CData\"]]] = []\n    if sys.version_info >= (3, 12):",
  "    _fields_: List[Tuple[str, Type[\"ctypes._CData\"]]] = []\n    if sys.version_info >= (3, 11):", "LAY-311")
M("lay311-alpha-block-widened", "C01", L311, 'if (3, 12) <= sys.version_info < (3, 12, 0, "alpha", 6):', 'if (3, 12) <= sys.version_info < (3, 13, 0, "alpha", 6):', "LAY-311")
M("lay311-swap-311-fields", "C01", L311, '            ("f_code", ctypes.c_size_t),  # PyCodeObject*\n            ("frame_obj", ctypes.c_size_t),  # PyFrameObject*\n            ("previous",',
  '            ("frame_obj", ctypes.c_size_t),  # PyFrameObject*\n            ("f_code", ctypes.c_size_t),  # PyCodeObject*\n            ("previous",', "LAY-311")
M("lay311-stacktop-width", "C01", L311, '            ("stacktop", ctypes.c_int),  # offset of TOS from localsplus, or -1\n            ("yield_offset"', '            ("stacktop", ctypes.c_size_t),  # offset of TOS from localsplus, or -1\n            ("yield_offset"', "LAY-311")
M("lay311-owner-const", "C01", L311, "FRAME_OWNED_BY_FRAME_OBJECT = 2", "FRAME_OWNED_BY_FRAME_OBJECT = 3", "LAY-311")
M("lay311-frameobject-order", "C01", L311, '        ("f_back", ctypes.c_size_t),  # PyFrameObject*, may be null\n        ("f_frame", ctypes.POINTER(InterpreterFrame)),',
  '        ("f_frame", ctypes.POINTER(InterpreterFrame)),\n        ("f_back", ctypes.c_size_t),  # PyFrameObject*, may be null', "LAY-311")
M("lay310-version-boundary", "C01", L310, "    if sys.version_info < (3, 10):\n        # PyObject**, points within self", "    if sys.version_info < (3, 11):\n        # PyObject**, points within self", "LAY-310")
M("lay310-maxblocks", "C01", L310, "blockstack_offset = localsplus_offset - 20 * ctypes.sizeof(PyTryBlock)", "blockstack_offset = localsplus_offset - 21 * ctypes.sizeof(PyTryBlock)", "LAY-310")
M("lay310-iblock-offset", "C01", L310, "blockstack_offset - 8)", "blockstack_offset - 4)", "LAY-310")
M("lay310-offset-mult", "C01", L310, "offset_mult = 2 if sys.version_info >= (3, 10) else 1", "offset_mult = 2 if sys.version_info >= (3, 9) else 1", "LAY-310")
M("lay310-tryblock-order", "C01", L310, '            ("b_handler", ctypes.c_int),\n', '            ("b_handlerx", ctypes.c_int),\n', "LAY-310", accept_analysis_error=True)
T("twin-ver-reformat", "C01", LL, "    if sys.version_info < (3, 11):\n        if code[offs] == op[\"YIELD_FROM\"]", "    if not sys.version_info >= (3, 11):\n        if code[offs] == op[\"YIELD_FROM\"]")
T("twin-lay311-comment", "C01", L311, '("f_code", ctypes.c_size_t),  # PyCodeObject*\n            ("previous", ctypes.c_size_t),  # _PyInterpreterFrame*', '("f_code", ctypes.c_void_p),\n            ("previous", ctypes.c_void_p),')
