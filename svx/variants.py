"""Scratch-copy variants for the self-test.  Each: id, prop, file, old, new, expect (rule id) or kind='twin'."""
VARIANTS = []


def M(id, prop, file, old, new, expect, **kw):
    VARIANTS.append(dict(id=id, prop=prop, file=file, old=old, new=new, expect=expect, kind="mutant", **kw))


def T(id, prop, file, old, new, **kw):
    VARIANTS.append(dict(id=id, prop=prop, file=file, old=old, new=new, expect=None, kind="twin", **kw))


LL = "_lowlevel.py"
L311 = "_lowlevel_cpython_311.py"
L310 = "_lowlevel_cpython_310.py"

# ---------------------------------------------------------------- C01: VER / LAY
M("ver1-yieldfrom-311", "C01", LL, '    is_async = False\n    if sys.version_info < (3, 11):\n        if code[offs] == op["YIELD_FROM"]',
  '    is_async = False\n    if sys.version_info < (3, 12):\n        if code[offs] == op["YIELD_FROM"]', "VER-1")
M("ver1-dup-top-311", "C01", LL, "    elif sys.version_info < (3, 11):\n        # 3.9 and 3.10: either WITH_EXCEPT_START",
  "    elif sys.version_info < (3, 12):\n        # 3.9 and 3.10: either WITH_EXCEPT_START", "VER-1")
M("ver1-precall-312", "C01", LL, "        if sys.version_info < (3, 12):\n            # 3.11 has PRECALL",
  "        if sys.version_info < (3, 13):\n            # 3.11 has PRECALL", "VER-1")
M("ver1-38-arm-39", "C01", LL, "    if sys.version_info < (3, 9):\n        # 3.8: they all use WITH_CLEANUP_START",
  "    if sys.version_info < (3, 10):\n        # 3.8: they all use WITH_CLEANUP_START", "VER-1")
M("ver2-dispatch-312", "C01", LL, "        if sys.version_info < (3, 11):\n            from ._lowlevel_cpython_310 import inspect_frame",
  "        if sys.version_info < (3, 12):\n            from ._lowlevel_cpython_310 import inspect_frame", "VER-2")
M("ver2-dispatch-310", "C01", LL, "        if sys.version_info < (3, 11):\n            from ._lowlevel_cpython_310 import inspect_frame",
  "        if sys.version_info < (3, 10):\n            from ._lowlevel_cpython_310 import inspect_frame", "VER-2")
M("ver3-parse-table-312", "C01", LL, "if sys.version_info >= (3, 11):\n\n    def _parse_varint", "if sys.version_info >= (3, 12):\n\n    def _parse_varint", "VER-3")
M("ver3-start-to-handler", "C01", LL, "    if sys.version_info >= (3, 11):\n        start_to_handler = {", "    if sys.version_info >= (3, 12):\n        start_to_handler = {", "VER-3")
M("ver3-exceptiongroup-310", "C01", "_extract.py", "if sys.version_info < (3, 11):\n    from exceptiongroup import ExceptionGroup",
  "if sys.version_info < (3, 10):\n    from exceptiongroup import ExceptionGroup", "VER-3")
M("ver3-exceptiongroup-312", "C01", "_extract.py", "if sys.version_info < (3, 11):\n    from exceptiongroup import ExceptionGroup",
  "if sys.version_info < (3, 12):\n    from exceptiongroup import ExceptionGroup", "VER-3")
M("ver0-match-stmt", "C01", "_glue.py", "def format_funcname(func: object) -> str:\n    try:", "def format_funcname(func: object) -> str:\n    match func:\n        case 1:\n            pass\n    try:", "VER-0")
M("opc4-typo", "C01", LL, 'insn.opname in (\n            "BEFORE_WITH",\n            "BEFORE_ASYNC_WITH",', 'insn.opname in (\n            "BEFORE_WITH",\n            "BEFORE_ASYNC_WIHT",', "OPC-4")
M("lay311-312-list-for-311", "C01", L311, "    _fields_: List[Tuple[str, Type[\"ctypes._CData\"]]] = []\n    if sys.version_info >= (3, 12):",
  "    _fields_: List[Tuple[str, Type[\"ctypes._CData\"]]] = []\n    if sys.version_info >= (3, 11):", "LAY-311")
M("lay311-alpha-block-widened", "C01", L311, 'if (3, 12) <= sys.version_info < (3, 12, 0, "alpha", 6):', 'if (3, 12) <= sys.version_info < (3, 13, 0, "alpha", 6):', "LAY-311")
M("lay311-swap-311-fields", "C01", L311, '            ("f_code", ctypes.c_size_t),  # PyCodeObject*\n            ("frame_obj", ctypes.c_size_t),  # PyFrameObject*\n            ("previous",',
  '            ("frame_obj", ctypes.c_size_t),  # PyFrameObject*\n            ("f_code", ctypes.c_size_t),  # PyCodeObject*\n            ("previous",', "LAY-311")
M("lay311-stacktop-width", "C01", L311, '            ("stacktop", ctypes.c_int),  # offset of TOS from localsplus, or -1\n            ("yield_offset"', '            ("stacktop", ctypes.c_size_t),  # offset of TOS from localsplus, or -1\n            ("yield_offset"', "LAY-311")
M("lay311-owner-const", "C01", L311, "FRAME_OWNED_BY_FRAME_OBJECT = 2", "FRAME_OWNED_BY_FRAME_OBJECT = 3", "LAY-311")
M("lay311-frameobject-order", "C01", L311, '        ("f_back", ctypes.c_size_t),  # PyFrameObject*, may be null\n        ("f_frame", ctypes.POINTER(InterpreterFrame)),',
  '        ("f_frame", ctypes.POINTER(InterpreterFrame)),\n        ("f_back", ctypes.c_size_t),  # PyFrameObject*, may be null', "LAY-311")
M("lay310-version-boundary", "C01", L310, "    if sys.version_info < (3, 10):\n        # PyObject**, points within self", "    if sys.version_info < (3, 11):\n        # PyObject**, points within self", "LAY-310")
M("lay310-maxblocks", "C01", L310, "blockstack_offset = localsplus_offset - 20 * ctypes.sizeof(PyTryBlock)", "blockstack_offset = localsplus_offset - 21 * ctypes.sizeof(PyTryBlock)", "LAY-310")
M("lay310-iblock-offset", "C01", L310, "blockstack_offset - 8)", "blockstack_offset - 4)", "LAY-310")
M("lay310-offset-mult", "C01", L310, "offset_mult = 2 if sys.version_info >= (3, 10) else 1", "offset_mult = 2 if sys.version_info >= (3, 9) else 1", "LAY-310")
M("lay310-tryblock-order", "C01", L310, '            ("b_handler", ctypes.c_int),\n', '            ("b_handlerx", ctypes.c_int),\n', "LAY-310", accept_analysis_error=True)
T("twin-ver-reformat", "C01", LL, "    if sys.version_info < (3, 11):\n        if code[offs] == op[\"YIELD_FROM\"]", "    if not sys.version_info >= (3, 11):\n        if code[offs] == op[\"YIELD_FROM\"]")
T("twin-lay311-comment", "C01", L311, '("f_code", ctypes.c_size_t),  # PyCodeObject*\n            ("previous", ctypes.c_size_t),  # _PyInterpreterFrame*', '("f_code", ctypes.c_void_p),\n            ("previous", ctypes.c_void_p),')

# ---------------------------------------------------------------- C01 (cont.): OPC-3, OPC-3b, INT, EXI-1, JOIN-1
M("opc3-async-base-6", "C01", LL, "skip_insns = 7 if is_async else 1", "skip_insns = 6 if is_async else 1", "OPC-3")
M("opc3-sync-base-2", "C01", LL, "skip_insns = 7 if is_async else 1", "skip_insns = 7 if is_async else 2", "OPC-3")
M("opc3-endsend-boundary", "C01", LL, 'if sys.version_info >= (3, 12, 0, "beta", 1):', 'if sys.version_info >= (3, 13, 0, "beta", 1):', "OPC-3")
M("opc3-39-idx2", "C01", LL, "store_to = describe_assignment_target(insns, idx + 1)", "store_to = describe_assignment_target(insns, idx + 2)", "OPC-3")
M("opc3b-nop-deleted", "C01", LL, '            if insns[idx + skip_insns].opname == "NOP":\n', '            if insns[idx + skip_insns].opname == "NOP_":\n', ["OPC-3b", "OPC-4"])
M("opc3b-nop-312-only", "C01", LL, '            if insns[idx + skip_insns].opname == "NOP":', '            if sys.version_info >= (3, 12) and insns[idx + skip_insns].opname == "NOP":', "OPC-3b")
M("opc3b-cleanup-throw-313", "C01", LL, '                    sys.version_info >= (3, 12)\n                    and insns[idx + skip_insns].opname == "CLEANUP_THROW"',
  '                    sys.version_info >= (3, 13)\n                    and insns[idx + skip_insns].opname == "CLEANUP_THROW"', "OPC-3b")
M("opc3b-extarg-sync-only", "C01", LL, 'while is_async and insns[idx + skip_insns - 5].opname == "EXTENDED_ARG":', 'while not is_async and insns[idx + skip_insns - 5].opname == "EXTENDED_ARG":', "OPC-3b")
M("int-311-lt", "C01", L311, "            if start <= lasti_before <= end:", "            if start <= lasti_before < end:", "INT")
M("int-311-walk-lt", "C01", L311, "        if start <= current <= end:", "        if start < current <= end:", "INT")
M("int-producer-exclusive", "C01", LL, "end = start + length - 2  # Present as inclusive, not exclusive", "end = start + length", "INT")
M("exi1-insert-front", "C01", LL, "        ret.append(replace(with_block_info[exiting.cleanup_offset], is_exiting=True))", "        ret.insert(0, replace(with_block_info[exiting.cleanup_offset], is_exiting=True))", ["EXI-1", "JOIN-1"])
M("exi1-referents-before", "C01", LL, "    exiting = currently_exiting_context(frame)\n    if exiting is not None:\n        ret.append(Context(obj=None, is_async=exiting.is_async, is_exiting=True))\n    return ret",
  "    exiting = currently_exiting_context(frame)\n    if exiting is not None:\n        ret.append(Context(obj=None, is_async=exiting.is_async, is_exiting=True))\n    ret.reverse()\n    return ret", "EXI-1")
M("join1-level-off", "C01", LL, "obj=frame_details.stack[block.level - 1].__self__,", "obj=frame_details.stack[block.level].__self__,", "JOIN-1")
M("join1-reversed", "C01", LL, "block for block in frame_details.blocks if block.handler in with_block_info", "block for block in reversed(frame_details.blocks) if block.handler in with_block_info", "JOIN-1")
M("join1-exiting-unconditional", "C01", LL, "    if exiting is not None:\n        ret.append(replace(with_block_info", "    if exiting:\n        ret.append(replace(with_block_info", "JOIN-1")

# ---------------------------------------------------------------- C02: OPC-1, EXI-2
M("f1-reverted", "C02", LL, '''        else:
            # If the frame is running (not suspended), lasti might rest
            # on an inline CACHE entry of the SEND (3.12+)
            while code[offs] == op["CACHE"] and offs >= 2:
                offs -= 2
''', "", "OPC-1")
M("opc1-call-loop-deleted", "C02", LL, '        while offs and code[offs] == op["CACHE"]:\n            offs -= 2\n        if code[offs : offs + 2] != bytes([op["CALL"], 2]):',
  '        if code[offs : offs + 2] != bytes([op["CALL"], 2]):', "OPC-1")
M("opc1-precall-loop-deleted", "C02", LL, '            while offs > 4 and code[offs] == op["CACHE"]:\n                offs -= 2\n', '', "OPC-1")
M("opc1-yield-path-loop-deleted", "C02", LL, '            # SEND can have a CACHE after it in 3.12\n            while code[offs] == op["CACHE"] and offs >= 2:\n                offs -= 2\n', '', "OPC-1")
M("opc1-loop-or", "C02", LL, '        else:\n            # If the frame is running (not suspended), lasti might rest\n            # on an inline CACHE entry of the SEND (3.12+)\n            while code[offs] == op["CACHE"] and offs >= 2:',
  '        else:\n            # If the frame is running (not suspended), lasti might rest\n            # on an inline CACHE entry of the SEND (3.12+)\n            while code[offs] != op["CACHE"] and offs >= 2:', "OPC-1")
M("exi2-obj-first", "C02", LL, "            ret[-1].obj = args.locals[args.args[0]]", "            ret[0].obj = args.locals[args.args[0]]", "EXI-2")
M("exi2-test-first", "C02", LL, "    if ret and ret[-1].is_exiting and next_inner is not None:", "    if ret and ret[0].is_exiting and next_inner is not None:", "EXI-2")
M("exi2-arg-last", "C02", LL, "            ret[-1].obj = args.locals[args.args[0]]", "            ret[-1].obj = args.locals[args.args[-1]]", "EXI-2")
M("exi2-format-first", "C02", "_types.py", "        if not (self.contexts and self.contexts[-1].is_exiting):\n            linetext = self.linetext", "        if not (self.contexts and self.contexts[0].is_exiting):\n            linetext = self.linetext", "EXI-2")
T("twin-opc1-helper", "C02", LL, '''        else:
            # If the frame is running (not suspended), lasti might rest
            # on an inline CACHE entry of the SEND (3.12+)
            while code[offs] == op["CACHE"] and offs >= 2:
                offs -= 2
''', '''        else:
            def skip_caches() -> None:
                nonlocal offs
                while code[offs] == op["CACHE"] and offs >= 2:
                    offs -= 2
            skip_caches()
''')
T("twin-opc1-unconditional", "C02", LL, '''            is_async = True
        else:
            # If the frame is running (not suspended), lasti might rest
            # on an inline CACHE entry of the SEND (3.12+)
            while code[offs] == op["CACHE"] and offs >= 2:
                offs -= 2
''', '''            is_async = True
        while code[offs] == op["CACHE"] and offs >= 2:
            offs -= 2
''')

# ---------------------------------------------------------------- C08: OPC-2, LINE-1, FALL-1
M("n1-reverted", "C08", LL, 'elif insn.opname in ("PRECALL", "CACHE", "PUSH_NULL"):', 'elif insn.opname in ("PRECALL", "CACHE"):', "OPC-2")
M("opc2-load-fast-check", "C08", LL, '                "LOAD_FAST_CHECK",\n', '', "OPC-2")
M("opc2-unpack-ex", "C08", LL, 'elif insn.opname == "UNPACK_EX":', 'elif insn.opname == "UNPACK_EX_":', "OPC-2")
M("opc2-call-39", "C08", LL, 'elif insn.opname in ("CALL_FUNCTION", "CALL_METHOD", "CALL"):', 'elif insn.opname in ("CALL_FUNCTION", "CALL"):', "OPC-2")
M("opc2-store-attr-raises", "C08", LL, '''            elif insn.opname == "LOAD_CONST":
                stack.append(insn.argrepr)''', '''            elif insn.opname == "LOAD_CONST":
                raise ValueError("no")''', "OPC-2")
M("line1-after", "C08", LL, "        if insn.starts_line is not None:\n            current_line = insn.starts_line\n        if insn.opname in (\"SETUP_WITH\"", "        if insn.opname in (\"SETUP_WITH\"", "LINE-1")
M("line1-start-line-none", "C08", LL, "                varname=store_to,\n                start_line=current_line,\n            )\n        elif", "                varname=store_to,\n                start_line=insn.offset,\n            )\n        elif", "LINE-1")
M("fall1-overwrites", "C08", LL, "        if info.obj is not None and info.varname is None:", "        if info.obj is not None:", "FALL-1")
M("fall1-by-eq", "C08", LL, "ret[idx] = replace(info, varname=locals_by_id.get(id(info.obj)))", "ret[idx] = replace(info, varname=locals_by_id.get(info.obj))", "FALL-1")
M("c08-opc3-async-base", "C08", LL, "skip_insns = 7 if is_async else 1", "skip_insns = 8 if is_async else 1", "OPC-3")
