"""Scratch-copy variants for the self-test.  Each: id, prop, file, old, new, expect (rule id) or kind='twin'."""
VARIANTS = []


def M(id, prop, file, old, new, expect, **kw):
    VARIANTS.append(dict(id=id, prop=prop, file=file, old=old, new=new, expect=expect, kind="mutant", **kw))


def T(id, prop, file, old, new, **kw):
    VARIANTS.append(dict(id=id, prop=prop, file=file, old=old, new=new, expect=None, kind="twin", **kw))


LL = "_lowlevel.py"
L311 = "_lowlevel_cpython_311.py"
L310 = "_lowlevel_cpython_310.py"

# ---------------------------------------------------------------- C01: VER / LAY
M("ver1-yieldfrom-311", "C01", LL, '    is_async = False\n    if sys.version_info < (3, 11):\n        if code[offs] == op["YIELD_FROM"]',
  '    is_async = False\n    if sys.version_info < (3, 12):\n        if code[offs] == op["YIELD_FROM"]', "VER-1")
M("ver1-dup-top-311", "C01", LL, "    elif sys.version_info < (3, 11):\n        # 3.9 and 3.10: either WITH_EXCEPT_START",
  "    elif sys.version_info < (3, 12):\n        # 3.9 and 3.10: either WITH_EXCEPT_START", "VER-1")
M("ver1-precall-312", "C01", LL, "        if sys.version_info < (3, 12):\n            # 3.11 has PRECALL",
  "        if sys.version_info < (3, 13):\n            # 3.11 has PRECALL", "VER-1")
M("ver1-38-arm-39", "C01", LL, "    if sys.version_info < (3, 9):\n        # 3.8: they all use WITH_CLEANUP_START",
  "    if sys.version_info < (3, 10):\n        # 3.8: they all use WITH_CLEANUP_START", "VER-1")
M("ver2-dispatch-312", "C01", LL, "        if sys.version_info < (3, 11):\n            from ._lowlevel_cpython_310 import inspect_frame",
  "        if sys.version_info < (3, 12):\n            from ._lowlevel_cpython_310 import inspect_frame", "VER-2")
M("ver2-dispatch-310", "C01", LL, "        if sys.version_info < (3, 11):\n            from ._lowlevel_cpython_310 import inspect_frame",
  "        if sys.version_info < (3, 10):\n            from ._lowlevel_cpython_310 import inspect_frame", "VER-2")
M("ver3-parse-table-312", "C01", LL, "if sys.version_info >= (3, 11):\n\n    def _parse_varint", "if sys.version_info >= (3, 12):\n\n    def _parse_varint", "VER-3")
M("ver3-start-to-handler", "C01", LL, "    if sys.version_info >= (3, 11):\n        start_to_handler = {", "    if sys.version_info >= (3, 12):\n        start_to_handler = {", "VER-3")
M("ver3-exceptiongroup-310", "C01", "_extract.py", "if sys.version_info < (3, 11):\n    from exceptiongroup import ExceptionGroup",
  "if sys.version_info < (3, 10):\n    from exceptiongroup import ExceptionGroup", "VER-3")
M("ver3-exceptiongroup-312", "C01", "_extract.py", "if sys.version_info < (3, 11):\n    from exceptiongroup import ExceptionGroup",
  "if sys.version_info < (3, 12):\n    from exceptiongroup import ExceptionGroup", "VER-3")
M("ver0-match-stmt", "C01", "_glue.py", "def format_funcname(func: object) -> str:\n    try:", "def format_funcname(func: object) -> str:\n    match func:\n        case 1:\n            pass\n    try:", "VER-0")
M("opc4-typo", "C01", LL, 'insn.opname in (\n            "BEFORE_WITH",\n            "BEFORE_ASYNC_WITH",', 'insn.opname in (\n            "BEFORE_WITH",\n            "BEFORE_ASYNC_WIHT",', "OPC-4")
M("lay311-312-list-for-311", "C01", L311, "    _fields_: List[Tuple[str, Type[\"ctypes._CData\"]]] = []\n    if sys.version_info >= (3, 12):",
  "    _fields_: List[Tuple[str, Type[\"ctypes._CData\"]]] = []\n    if sys.version_info >= (3, 11):", "LAY-311")
M("lay311-alpha-block-widened", "C01", L311, 'if (3, 12) <= sys.version_info < (3, 12, 0, "alpha", 6):', 'if (3, 12) <= sys.version_info < (3, 13, 0, "alpha", 6):', "LAY-311")
M("lay311-swap-311-fields", "C01", L311, '            ("f_code", ctypes.c_size_t),  # PyCodeObject*\n            ("frame_obj", ctypes.c_size_t),  # PyFrameObject*\n            ("previous",',
  '            ("frame_obj", ctypes.c_size_t),  # PyFrameObject*\n            ("f_code", ctypes.c_size_t),  # PyCodeObject*\n            ("previous",', "LAY-311")
M("lay311-stacktop-width", "C01", L311, '            ("stacktop", ctypes.c_int),  # offset of TOS from localsplus, or -1\n            ("yield_offset"', '            ("stacktop", ctypes.c_size_t),  # offset of TOS from localsplus, or -1\n            ("yield_offset"', "LAY-311")
M("lay311-owner-const", "C01", L311, "FRAME_OWNED_BY_FRAME_OBJECT = 2", "FRAME_OWNED_BY_FRAME_OBJECT = 3", "LAY-311")
M("lay311-frameobject-order", "C01", L311, '        ("f_back", ctypes.c_size_t),  # PyFrameObject*, may be null\n        ("f_frame", ctypes.POINTER(InterpreterFrame)),',
  '        ("f_frame", ctypes.POINTER(InterpreterFrame)),\n        ("f_back", ctypes.c_size_t),  # PyFrameObject*, may be null', "LAY-311")
M("lay310-version-boundary", "C01", L310, "    if sys.version_info < (3, 10):\n        # PyObject**, points within self", "    if sys.version_info < (3, 11):\n        # PyObject**, points within self", "LAY-310")
M("lay310-maxblocks", "C01", L310, "blockstack_offset = localsplus_offset - 20 * ctypes.sizeof(PyTryBlock)", "blockstack_offset = localsplus_offset - 21 * ctypes.sizeof(PyTryBlock)", "LAY-310")
M("lay310-iblock-offset", "C01", L310, "blockstack_offset - 8)", "blockstack_offset - 4)", "LAY-310")
M("lay310-offset-mult", "C01", L310, "offset_mult = 2 if sys.version_info >= (3, 10) else 1", "offset_mult = 2 if sys.version_info >= (3, 9) else 1", "LAY-310")
M("lay310-tryblock-order", "C01", L310, '            ("b_handler", ctypes.c_int),\n', '            ("b_handlerx", ctypes.c_int),\n', "LAY-310", accept_analysis_error=True)
T("twin-ver-reformat", "C01", LL, "    if sys.version_info < (3, 11):\n        if code[offs] == op[\"YIELD_FROM\"]", "    if not sys.version_info >= (3, 11):\n        if code[offs] == op[\"YIELD_FROM\"]")
T("twin-lay311-comment", "C01", L311, '("f_code", ctypes.c_size_t),  # PyCodeObject*\n            ("previous", ctypes.c_size_t),  # _PyInterpreterFrame*', '("f_code", ctypes.c_void_p),\n            ("previous", ctypes.c_void_p),')

# ---------------------------------------------------------------- C01 (cont.): OPC-3, OPC-3b, INT, EXI-1, JOIN-1
M("opc3-async-base-6", "C01", LL, "skip_insns = 7 if is_async else 1", "skip_insns = 6 if is_async else 1", "OPC-3")
M("opc3-sync-base-2", "C01", LL, "skip_insns = 7 if is_async else 1", "skip_insns = 7 if is_async else 2", "OPC-3")
M("opc3-endsend-boundary", "C01", LL, 'if sys.version_info >= (3, 12, 0, "beta", 1):', 'if sys.version_info >= (3, 13, 0, "beta", 1):', "OPC-3")
M("opc3-39-idx2", "C01", LL, "store_to = describe_assignment_target(insns, idx + 1)", "store_to = describe_assignment_target(insns, idx + 2)", "OPC-3")
M("opc3b-nop-deleted", "C01", LL, '            if insns[idx + skip_insns].opname == "NOP":\n', '            if insns[idx + skip_insns].opname == "NOP_":\n', ["OPC-3b", "OPC-4"])
M("opc3b-nop-312-only", "C01", LL, '            if insns[idx + skip_insns].opname == "NOP":', '            if sys.version_info >= (3, 12) and insns[idx + skip_insns].opname == "NOP":', "OPC-3b")
M("opc3b-cleanup-throw-313", "C01", LL, '                    sys.version_info >= (3, 12)\n                    and insns[idx + skip_insns].opname == "CLEANUP_THROW"',
  '                    sys.version_info >= (3, 13)\n                    and insns[idx + skip_insns].opname == "CLEANUP_THROW"', "OPC-3b")
M("opc3b-extarg-sync-only", "C01", LL, 'while is_async and insns[idx + skip_insns - 5].opname == "EXTENDED_ARG":', 'while not is_async and insns[idx + skip_insns - 5].opname == "EXTENDED_ARG":', "OPC-3b")
M("int-311-lt", "C01", L311, "            if start <= lasti_before <= end:", "            if start <= lasti_before < end:", "INT")
M("int-311-walk-lt", "C01", L311, "        if start <= current <= end:", "        if start < current <= end:", "INT")
M("int-producer-exclusive", "C01", LL, "end = start + length - 2  # Present as inclusive, not exclusive", "end = start + length", "INT")
M("exi1-insert-front", "C01", LL, "        ret.append(replace(with_block_info[exiting.cleanup_offset], is_exiting=True))", "        ret.insert(0, replace(with_block_info[exiting.cleanup_offset], is_exiting=True))", ["EXI-1", "JOIN-1"])
M("exi1-referents-before", "C01", LL, "    exiting = currently_exiting_context(frame)\n    if exiting is not None:\n        ret.append(Context(obj=None, is_async=exiting.is_async, is_exiting=True))\n    return ret",
  "    exiting = currently_exiting_context(frame)\n    if exiting is not None:\n        ret.append(Context(obj=None, is_async=exiting.is_async, is_exiting=True))\n    ret.reverse()\n    return ret", "EXI-1")
M("join1-level-off", "C01", LL, "obj=frame_details.stack[block.level - 1].__self__,", "obj=frame_details.stack[block.level].__self__,", "JOIN-1")
M("join1-reversed", "C01", LL, "block for block in frame_details.blocks if block.handler in with_block_info", "block for block in reversed(frame_details.blocks) if block.handler in with_block_info", "JOIN-1")
# `if exiting:` is the same test as `if exiting is not None:` (ExitingContext is a plain dataclass): a twin, not a mutant (it was listed as a mutant until round 5)
T("join1-twin-exiting-truthiness", "C01", LL, "    if exiting is not None:\n        ret.append(replace(with_block_info", "    if exiting:\n        ret.append(replace(with_block_info")
M("join1-exiting-unconditional", "C01", LL, "    if exiting is not None:\n        ret.append(replace(with_block_info", "    if True:\n        ret.append(replace(with_block_info", ["JOIN-1", "DEF-1", "CONT-7"], accept_analysis_error=True)

# ---------------------------------------------------------------- C02: OPC-1, EXI-2
M("f1-reverted", "C02", LL, '''        else:
            # If the frame is running (not suspended), lasti might rest
            # on an inline CACHE entry of the SEND (3.12+)
            while code[offs] == op["CACHE"] and offs >= 2:
                offs -= 2
''', "", "OPC-1")
M("opc1-call-loop-deleted", "C02", LL, '        while offs and code[offs] == op["CACHE"]:\n            offs -= 2\n        if code[offs : offs + 2] != bytes([op["CALL"], 2]):',
  '        if code[offs : offs + 2] != bytes([op["CALL"], 2]):', "OPC-1")
M("opc1-precall-loop-deleted", "C02", LL, '            while offs > 4 and code[offs] == op["CACHE"]:\n                offs -= 2\n', '', "OPC-1")
M("opc1-yield-path-loop-deleted", "C02", LL, '            # SEND can have a CACHE after it in 3.12\n            while code[offs] == op["CACHE"] and offs >= 2:\n                offs -= 2\n', '', "OPC-1")
M("opc1-loop-or", "C02", LL, '        else:\n            # If the frame is running (not suspended), lasti might rest\n            # on an inline CACHE entry of the SEND (3.12+)\n            while code[offs] == op["CACHE"] and offs >= 2:',
  '        else:\n            # If the frame is running (not suspended), lasti might rest\n            # on an inline CACHE entry of the SEND (3.12+)\n            while code[offs] != op["CACHE"] and offs >= 2:', "OPC-1")
M("exi2-obj-first", "C02", LL, "            ret[-1].obj = args.locals[args.args[0]]", "            ret[0].obj = args.locals[args.args[0]]", "EXI-2")
M("exi2-test-first", "C02", LL, "    if ret and ret[-1].is_exiting and next_inner is not None:", "    if ret and ret[0].is_exiting and next_inner is not None:", "EXI-2")
M("exi2-arg-last", "C02", LL, "            ret[-1].obj = args.locals[args.args[0]]", "            ret[-1].obj = args.locals[args.args[-1]]", "EXI-2")
M("exi2-format-first", "C02", "_types.py", "        if not (self.contexts and self.contexts[-1].is_exiting):\n            linetext = self.linetext", "        if not (self.contexts and self.contexts[0].is_exiting):\n            linetext = self.linetext", "EXI-2")
T("twin-opc1-helper", "C02", LL, '''        else:
            # If the frame is running (not suspended), lasti might rest
            # on an inline CACHE entry of the SEND (3.12+)
            while code[offs] == op["CACHE"] and offs >= 2:
                offs -= 2
''', '''        else:
            def skip_caches() -> None:
                nonlocal offs
                while code[offs] == op["CACHE"] and offs >= 2:
                    offs -= 2
            skip_caches()
''')
T("twin-opc1-unconditional", "C02", LL, '''            is_async = True
        else:
            # If the frame is running (not suspended), lasti might rest
            # on an inline CACHE entry of the SEND (3.12+)
            while code[offs] == op["CACHE"] and offs >= 2:
                offs -= 2
''', '''            is_async = True
        while code[offs] == op["CACHE"] and offs >= 2:
            offs -= 2
''')

# ---------------------------------------------------------------- C08: OPC-2, LINE-1, FALL-1
M("n1-reverted", "C08", LL, 'elif insn.opname in ("PRECALL", "CACHE", "PUSH_NULL"):', 'elif insn.opname in ("PRECALL", "CACHE"):', "OPC-2")
M("opc2-load-fast-check", "C08", LL, '                "LOAD_FAST_CHECK",\n', '', "OPC-2")
M("opc2-unpack-ex", "C08", LL, 'elif insn.opname == "UNPACK_EX":', 'elif insn.opname == "UNPACK_EX_":', "OPC-2")
M("opc2-call-39", "C08", LL, 'elif insn.opname in ("CALL_FUNCTION", "CALL_METHOD", "CALL"):', 'elif insn.opname in ("CALL_FUNCTION", "CALL"):', "OPC-2")
M("opc2-store-attr-raises", "C08", LL, '''            elif insn.opname == "LOAD_CONST":
                stack.append(insn.argrepr)''', '''            elif insn.opname == "LOAD_CONST":
                raise ValueError("no")''', "OPC-2")
M("line1-after", "C08", LL, "        if insn.starts_line is not None:\n            current_line = insn.starts_line\n        if insn.opname in (\"SETUP_WITH\"", "        if insn.opname in (\"SETUP_WITH\"", "LINE-1")
M("line1-start-line-none", "C08", LL, "                varname=store_to,\n                start_line=current_line,\n            )\n        elif", "                varname=store_to,\n                start_line=insn.offset,\n            )\n        elif", "LINE-1")
M("fall1-overwrites", "C08", LL, "        if info.obj is not None and info.varname is None:", "        if info.obj is not None:", "FALL-1")
M("fall1-by-eq", "C08", LL, "ret[idx] = replace(info, varname=locals_by_id.get(id(info.obj)))", "ret[idx] = replace(info, varname=locals_by_id.get(info.obj))", "FALL-1")
M("c08-opc3-async-base", "C08", LL, "skip_insns = 7 if is_async else 1", "skip_insns = 8 if is_async else 1", "OPC-3")

EX = "_extract.py"
CU = "_customization.py"
GL = "_glue.py"
# ---------------------------------------------------------------- C05
M("cont1-unwrap-narrow", "C05", EX, "            except Exception as ex:\n                unwrapped = None\n                save_errors.append(ex)", "            except RuntimeError as ex:\n                unwrapped = None\n                save_errors.append(ex)", "CONT-1")
M("cont1-next-narrow", "C05", EX, "                    except Exception as ex:\n                        save_errors.append(ex)\n                        break", "                    except ValueError as ex:\n                        save_errors.append(ex)\n                        break", "CONT-1")
M("cont1-contexts-narrow", "C05", EX, "            except Exception as ex:  # pragma: no cover\n                save_errors.append(ex)", "            except RuntimeError as ex:  # pragma: no cover\n                save_errors.append(ex)", "CONT-1")
M("cont1-fill-narrow", "C05", EX, "                    except Exception as ex:\n                        save_errors.append(ex)\n\n", "                    except RuntimeError as ex:\n                        save_errors.append(ex)\n\n", "CONT-1")
M("cont1-elaborate-narrow", "C05", EX, "        except Exception as ex:\n            save_errors.append(ex)\n            frame.hide = False", "        except RuntimeError as ex:\n            save_errors.append(ex)\n            frame.hide = False", "CONT-1")
M("cont1-elaborate-unguarded", "C05", EX, "        try:\n            replacement = elaborate_frame(frame, next_inner)\n        except Exception as ex:\n            save_errors.append(ex)\n            frame.hide = False\n            replacement = PRUNE\n",
  "        replacement = elaborate_frame(frame, next_inner)\n", "CONT-1")
M("cont1-handler-reraises", "C05", EX, "                    except Exception as ex:\n                        save_errors.append(ex)\n\n", "                    except Exception as ex:\n                        save_errors.append(ex)\n                        raise\n\n", "CONT-1")
M("cont1-handler-breaks-main", "C05", EX, "            except Exception as ex:  # pragma: no cover\n                save_errors.append(ex)\n", "            except Exception as ex:  # pragma: no cover\n                save_errors.append(ex)\n                break\n", "CONT-1")
M("cont2-append-deleted", "C05", EX, "            except Exception as ex:\n                unwrapped = None\n                save_errors.append(ex)", "            except Exception as ex:\n                unwrapped = None", "CONT-2")
M("cont2-elab-append-deleted", "C05", EX, "        except Exception as ex:\n            save_errors.append(ex)\n            frame.hide = False", "        except Exception as ex:\n            frame.hide = False", "CONT-2")
M("f6-reverted", "C05", EX, "            if to_unwrap:\n                to_unwrap.popleft()", "            to_unwrap.popleft()", "CONT-3")
M("cont3-leaf-guard-deleted", "C05", EX, "        if not to_elaborate:\n            break\n", "", "CONT-3")
M("cont3-next-inner-unguarded", "C05", EX, "next_inner = to_elaborate[0][0] if to_elaborate else None", "next_inner = to_elaborate[0][0]", "CONT-3")
M("cont3-items-unguarded", "C05", EX, "if not items or items[-1] is not next_inner:", "if items[-1] is not next_inner:", ["CONT-3"])
M("cont3-errors-unguarded", "C05", EX, "error = errors[0] if errors else None", "error = errors[0]", ["CONT-3", "CONT-5"])
M("cont4-hide-deleted", "C05", EX, "            save_errors.append(ex)\n            frame.hide = False\n", "            save_errors.append(ex)\n", "CONT-4")
M("cont4-prune-deleted", "C05", EX, "            frame.hide = False\n            replacement = PRUNE\n", "            frame.hide = False\n", ["CONT-4", "DEF-1"])
M("cont4-continue-before-yield", "C05", EX, "            frame.hide = False\n            replacement = PRUNE\n", "            frame.hide = False\n            replacement = PRUNE\n            continue\n", "CONT-4")
M("cont5-group-threshold", "C05", EX, "            if len(errors) > 1:\n                error = ExceptionGroup(", "            if len(errors) > 2:\n                error = ExceptionGroup(", "CONT-5")
M("cont5-error-dropped", "C05", EX, "                leaf=ex.value,\n                error=error,\n", "                leaf=ex.value,\n", "CONT-5")
M("def1-module-fn-none", "C05", GL, "    except Exception:  # module disappeared, doesn't have a dict, etc\n        module_fn = None\n", "    except Exception:  # module disappeared, doesn't have a dict, etc\n        pass\n", "DEF-1")
M("def1-unwrapped-none", "C05", EX, "            except Exception as ex:\n                unwrapped = None\n                save_errors.append(ex)", "            except Exception as ex:\n                save_errors.append(ex)", "DEF-1")
T("twin-cont-tuple-exception", "C05", EX, "            except Exception as ex:\n                unwrapped = None\n                save_errors.append(ex)", "            except (Exception,) as ex:\n                unwrapped = None\n                save_errors.append(ex)")
T("twin-cont-baseexception", "C05", EX, "        except Exception as ex:\n            save_errors.append(ex)\n            frame.hide = False", "        except (RuntimeError, Exception) as ex:\n            save_errors.append(ex)\n            frame.hide = False")
T("twin-cont3-len-guard", "C05", EX, "            if to_unwrap:\n                to_unwrap.popleft()", "            if len(to_unwrap) > 0:\n                to_unwrap.popleft()")
T("twin-cont-rename", "C05", EX, "                    except Exception as ex:\n                        save_errors.append(ex)\n\n", "                    except Exception as exc2:\n                        save_errors.append(exc2)\n\n")

# ---------------------------------------------------------------- C10
M("eng1-inc-deleted", "C10", EX, "                loops_since_progress += 1\n", "", "ENG-1")
M("eng1-raise-outside-try", "C10", EX, '''                loops_since_progress += 1
                if loops_since_progress > 100:
                    raise RuntimeError(
                        f"{current!r} has been unwrapped more than 100 times "
                        f"without reaching something irreducible; probably an "
                        f"infinite loop? (next result is {unwrapped!r})"
                    )
            except Exception as ex:
                unwrapped = None
                save_errors.append(ex)
''', '''                loops_since_progress += 1
            except Exception as ex:
                unwrapped = None
                save_errors.append(ex)
            if loops_since_progress > 100:
                raise RuntimeError("probably an infinite loop")
''', ["ENG-1"])
M("eng1-bound-1000", "C10", EX, "if loops_since_progress > 100:", "if loops_since_progress > 100000:", "ENG-1")
M("eng1-reset-frame-deleted", "C10", EX, "            if isinstance(current, Frame):\n                loops_since_progress = 0\n", "            if isinstance(current, Frame):\n", "ENG-1")
M("eng1-outer-reset-deleted", "C10", EX, "        loops_since_progress = 0\n        while to_unwrap and (", "        while to_unwrap and (", ["ENG-1", "DEF-1"], accept_analysis_error=True)
M("eng2-none-continue", "C10", EX, "        if replacement is None:\n            continue\n", "        if replacement is None:\n            replacement = ()\n", "ENG-2")
M("eng2-prune-gt", "C10", EX, "while to_unwrap and to_unwrap[0][2] >= depth:", "while to_unwrap and to_unwrap[0][2] > depth:", "ENG-2")
M("eng2-cond-and", "C10", EX, "if not items or items[-1] is not next_inner:", "if not items and items[-1] is not next_inner:", ["ENG-2", "CONT-3"])
M("eng2-cond-first", "C10", EX, "if not items or items[-1] is not next_inner:", "if not items or items[0] is not next_inner:", "ENG-2", accept_analysis_error=True)
M("eng2-insert-no-pop", "C10", EX, "            if to_unwrap:\n                to_unwrap.popleft()\n", "            pass\n", "ENG-2")
M("eng2-requeue-popleft", "C10", EX, "to_unwrap.appendleft((None, *to_elaborate.pop()))", "to_unwrap.appendleft((None, *to_elaborate.popleft()))", ["ENG-2", "CONT-3"])
M("eng2-push-forward", "C10", EX, "        for item in reversed(items):\n            to_unwrap.appendleft((better_origin(item, None), item, depth))", "        for item in items:\n            to_unwrap.appendleft((better_origin(item, None), item, depth))", "ENG-2")
M("eng2-push-depth", "C10", EX, "to_unwrap.appendleft((better_origin(item, None), item, depth))", "to_unwrap.appendleft((better_origin(item, None), item, depth + 1))", "ENG-2")
M("yf1-no-wrap", "C10", CU, "        return FrameIterator(fn(*args, **kwargs))", "        return fn(*args, **kwargs)", "YF-1")
M("yf1-prune-none", "C10", CU, "PRUNE = ()", "PRUNE = (None,)", "YF-1")
M("yf1-iter-any", "C10", EX, "            if isinstance(unwrapped, FrameIterator):", "            if hasattr(unwrapped, '__next__'):", "YF-1")
T("twin-eng2-demorgan", "C10", EX, "if not items or items[-1] is not next_inner:", "if not (items and items[-1] is next_inner):")

# ---------------------------------------------------------------- C11
M("ctx1-order", "C11", EX, "        elaborate_context(context.obj, context)\n        inner_mgr = unwrap_context(context.obj, context)", "        inner_mgr = unwrap_context(context.obj, context)\n        elaborate_context(context.obj, context)", "CTX-1")
M("ctx2-children-deleted", "C11", EX, "        context.inner_stack = None\n        context.children = ()\n", "        context.inner_stack = None\n", "CTX-2")
M("ctx2-inner-stack-deleted", "C11", EX, "        context.inner_stack = None\n        context.children = ()\n", "        context.children = ()\n", "CTX-2")
M("ctx3-prune-break-deleted", "C11", EX, "            context.hide = True\n            break\n", "            context.hide = True\n", "CTX-3")
M("ctx3-prune-hide-deleted", "C11", EX, "        if inner_mgr == PRUNE:\n            context.hide = True\n            break", "        if inner_mgr == PRUNE:\n            break", "CTX-3")
M("ctx3-bound", "C11", EX, "    for _ in range(100):\n        if TYPE_CHECKING:", "    for _ in range(1000000):\n        if TYPE_CHECKING:", "CTX-3")
M("ctx3-else-no-raise", "C11", EX, '''        inner_mgr = unwrap_context(context.obj, context)  # type: ignore
        raise RuntimeError(
            f"{context.obj!r} has been unwrapped more than 100 times "
            f"without reaching something irreducible; probably an "
            f"infinite loop? (next result is {inner_mgr!r})"
        )''', "        pass", "CTX-3")
M("ctx4-defaults-flipped", "C11", EX, "with current_options.push(with_contexts=True, recurse_child_tasks=False):\n            fill_context(context)", "with current_options.push(with_contexts=True, recurse_child_tasks=True):\n            fill_context(context)", "CTX-4")
M("ctx4-no-return", "C11", EX, "            fill_context(context)\n        return\n", "            fill_context(context)\n", "CTX-4")
M("ctx5-last-frame", "C11", GL, "                        context.inner_stack.frames[0], context", "                        context.inner_stack.frames[-1], context", "CTX-5")
M("ctx5-no-registry-test", "C11", GL, "        if mgr_code in unwrap_context_generator.registry:", "        if mgr_code is not None:", "CTX-5")
M("ctx5-unwrap-reg-dropped", "C11", GL, "    @unwrap_context.register(GCMBase)\n    def unwrap_generatorbased_contextmanager", "    def unwrap_generatorbased_contextmanager", "CTX-5")

# ---------------------------------------------------------------- C13
M("opt1-plain-class", "C13", EX, "class ExtractOptions(threading.local):", "class ExtractOptions:", "OPT-1")
M("opt2-no-finally", "C13", EX, "        try:\n            yield\n        finally:\n            (self.with_contexts, self.recurse_child_tasks) = prev", "        yield\n        (self.with_contexts, self.recurse_child_tasks) = prev", "OPT-2")
M("opt2-restore-swapped", "C13", EX, "            (self.with_contexts, self.recurse_child_tasks) = prev", "            (self.recurse_child_tasks, self.with_contexts) = prev", "OPT-2")
M("opt2-save-after-write", "C13", EX, "        prev = (self.with_contexts, self.recurse_child_tasks)\n        self.with_contexts = with_contexts\n", "        self.with_contexts = with_contexts\n        prev = (self.with_contexts, self.recurse_child_tasks)\n", "OPT-2")
M("opt2-write-swapped", "C13", EX, "        self.recurse_child_tasks = recurse_child_tasks\n        try:", "        self.recurse_child_tasks = with_contexts\n        try:", "OPT-2")
M("opt3-extra-writer", "C13", EX, "    if for_task and not current_options.recurse_child_tasks:\n        return Stack(root=stackitem, frames=[])", "    if for_task and not current_options.recurse_child_tasks:\n        current_options.with_contexts = False\n        return Stack(root=stackitem, frames=[])", "OPT-3")
M("opt4-extract-const", "C13", EX, "    with current_options.push(\n        with_contexts=with_contexts, recurse_child_tasks=recurse_child_tasks\n    ):\n        return extract_child(stackitem, for_task=False)", "    with current_options.push(\n        with_contexts=with_contexts, recurse_child_tasks=False\n    ):\n        return extract_child(stackitem, for_task=False)", "OPT-4")
M("opt4-since-drops", "C13", EX, "        StackSlice(outer=outer_frame),\n        with_contexts=with_contexts,\n        recurse_child_tasks=recurse_child_tasks,", "        StackSlice(outer=outer_frame),\n        with_contexts=with_contexts,", "OPT-4")
M("opt4-until-swapped", "C13", EX, 'opts = {"with_contexts": with_contexts, "recurse_child_tasks": recurse_child_tasks}', 'opts = {"with_contexts": recurse_child_tasks, "recurse_child_tasks": with_contexts}', "OPT-4")
M("opt4-default-flip", "C13", EX, "def extract_outermost(\n    stackitem: StackItem,\n    *,\n    with_contexts: bool = True,", "def extract_outermost(\n    stackitem: StackItem,\n    *,\n    with_contexts: bool = False,", "OPT-4")
M("opt5-guard-deleted", "C13", EX, '''    if current_options.recurse_child_tasks is None:
        raise RuntimeError(
            "extract_child() may only be called from within a customization "
            "hook invoked by extract()"
        )
''', "", ["OPT-5", "OPT-6"])
M("opt6-stub-or", "C13", EX, "    if for_task and not current_options.recurse_child_tasks:", "    if for_task or not current_options.recurse_child_tasks:", "OPT-6")
M("opt6-stub-no-root", "C13", EX, "        return Stack(root=stackitem, frames=[])", "        return Stack(root=None, frames=[])", "OPT-6")
M("opt7-unconditional", "C13", EX, "        if current_options.with_contexts:\n            next_pyframe", "        if True:\n            next_pyframe", "OPT-7")
T("twin-opt6-demorgan", "C13", EX, "    if for_task and not current_options.recurse_child_tasks:", "    if not (not for_task or current_options.recurse_child_tasks):")

# ---------------------------------------------------------------- C16
M("ori1-not-first", "C16", EX, "            return next(extract_iter(stackitem, errors))", "            it = extract_iter(stackitem, errors)\n            next(it)\n            return next(it)", "ORI-1")
M("ori2-return-none", "C16", EX, "            if errors:\n                raise errors[0]\n            else:", "            if errors:\n                return None  # type: ignore\n            else:", "ORI-2")
M("ori2-generic-error", "C16", EX, "            if errors:\n                raise errors[0]\n            else:", "            if False:\n                raise errors[0]\n            else:", "ORI-2", accept_analysis_error=True)
M("ori3-filter-deleted", "C16", EX, '''                if not isinstance(
                    origin,
                    (
                        types.CoroutineType,
                        types.GeneratorType,
                        types.AsyncGeneratorType,
                    ),
                ):
                    origin = None
''', "", "ORI-3")
M("ori3-better-origin-no-fallback", "C16", EX, "    except TypeError:\n        return fallback", "    except TypeError:\n        return candidate", "ORI-3")

# ---------------------------------------------------------------- C17
import os as _os
_D = _os.path.join(_os.path.dirname(_os.path.abspath(__file__)), "data")
_AFTER = open(_os.path.join(_D, "glue_block_after_n2.txt")).read()
_BEFORE = open(_os.path.join(_D, "glue_block_before_n2.txt")).read()
M("n2-reverted", "C17", GL, _AFTER, _BEFORE, "GLUE-8")
M("glue1-pending-get", "C17", GL, "    builtin_fn = builtin_glue_pending.pop(module_name, None)", "    builtin_fn = builtin_glue_pending.get(module_name, None)", "GLUE-1")
M("glue1-module-get", "C17", GL, '        module_fn = sys.modules[module_name].__dict__.pop(\n            "_stackscope_install_glue_", None\n        )', '        module_fn = sys.modules[module_name].__dict__.get(\n            "_stackscope_install_glue_", None\n        )', "GLUE-1")
M("glue2-builtin-first", "C17", GL, "        if module_fn is not None:\n            module_fn()\n        elif builtin_fn is not None:\n            builtin_fn()", "        if builtin_fn is not None:\n            builtin_fn()\n        elif module_fn is not None:\n            module_fn()", "GLUE-2")
M("glue2-both", "C17", GL, "        if module_fn is not None:\n            module_fn()\n        elif builtin_fn is not None:\n            builtin_fn()", "        if module_fn is not None:\n            module_fn()\n        if builtin_fn is not None:\n            builtin_fn()", "GLUE-2")
M("glue3-decorate-no-lock", "C17", GL, "            with glue_lock:\n                install_glue_for_module(needs_module)", "            if True:\n                install_glue_for_module(needs_module)", "GLUE-3")
M("glue3-loop-outside-lock", "C17", GL, "    with glue_lock:\n        module_names = tuple(sys.modules)\n        for module_name in module_names:\n            install_glue_for_module(module_name)",
  "    with glue_lock:\n        module_names = tuple(sys.modules)\n    if True:\n        for module_name in module_names:\n            install_glue_for_module(module_name)", ["GLUE-3", "GLUE-5"])
M("glue4-narrow", "C17", GL, "    except Exception as exc:\n        kind = \"module-provided\"", "    except ImportError as exc:\n        kind = \"module-provided\"", "GLUE-4")
M("glue4-reraise", "C17", GL, "            RuntimeWarning,\n        )\n\n\ndef add_glue_as_needed", "            RuntimeWarning,\n        )\n        raise\n\n\ndef add_glue_as_needed", "GLUE-4")
M("glue4-loop-break", "C17", GL, "        for module_name in module_names:\n            install_glue_for_module(module_name)\n", "        for module_name in module_names:\n            install_glue_for_module(module_name)\n            if module_name == 'trio':\n                break\n", "GLUE-4")
M("glue5-cache-before-loop", "C17", GL, "        module_names = tuple(sys.modules)\n        for module_name in module_names:\n            install_glue_for_module(module_name)\n        # Only update the length cache if we visited every module (rather\n        # than bailing out with an exception)\n        _sys_modules_len_cache[0] = len(module_names)",
  "        module_names = tuple(sys.modules)\n        _sys_modules_len_cache[0] = len(module_names)\n        for module_name in module_names:\n            install_glue_for_module(module_name)", "GLUE-5")
M("glue5-cache-fresh-len", "C17", GL, "        _sys_modules_len_cache[0] = len(module_names)", "        _sys_modules_len_cache[0] = len(sys.modules)", "GLUE-5")
M("glue5-cache-outside-lock", "C17", GL, "        # Only update the length cache if we visited every module (rather\n        # than bailing out with an exception)\n        _sys_modules_len_cache[0] = len(module_names)", "    _sys_modules_len_cache[0] = len(module_names)", "GLUE-5")
M("glue6-not-imported", "C17", GL, "            module is not None\n            and \"sphinx\" not in sys.modules", "            module is None\n            and \"sphinx\" not in sys.modules", "GLUE-6")
M("glue6-or-sphinx", "C17", GL, "            module is not None\n            and \"sphinx\" not in sys.modules", "            module is not None\n            or \"sphinx\" not in sys.modules", "GLUE-6")
M("glue6-never-pending", "C17", GL, "        builtin_glue_pending[needs_module] = fn\n        module = sys.modules.get(needs_module)", "        module = sys.modules.get(needs_module)", "GLUE-6")
T("twin-glue6-demorgan", "C17", GL, "        if (\n            module is not None\n            and \"sphinx\" not in sys.modules", "        if not (module is None or \"sphinx\" in sys.modules) and (\n            True")
T("twin-glue7-fixed", "C17", GL, "    if len(sys.modules) == _sys_modules_len_cache[0]:\n        return\n", "")

# ---------------------------------------------------------------- C12
CD = "_code_dispatch.py"
M("reg1-plain-dict", "C12", CD, "registry = IdentityDict[types.CodeType, Callable[Concatenate[T, P], R]]()", "registry: dict = {}", "REG-1")
M("reg2-getitem-key", "C12", CD, "        return self._data[id(key)][1]", "        return self._data[key][1]", "REG-2")
M("reg2-setdefault-proj", "C12", CD, "return self._data.setdefault(id(key), (key, default))[1]", "return self._data.setdefault(id(key), (key, default))[0]", "REG-2")
M("reg2-store-drops-key", "C12", CD, "        self._data[id(key)] = key, value", "        self._data[id(key)] = None, value", "REG-2")
M("reg2-pop-hash", "C12", CD, "            return self._data.pop(id(key))[1]", "            return self._data.pop(hash(key))[1]", "REG-2")
M("reg3-partial-continue", "C12", CD, "            thing = thing.func\n            continue\n", "            thing = thing.func\n            break\n", "REG-3")
M("reg3-method-continue", "C12", CD, "            thing = thing.__func__\n            continue\n", "            thing = thing.__func__\n", "REG-3")
M("reg3-staticmethod-dropped", "C12", CD, "(types.MethodType, classmethod, staticmethod)", "(types.MethodType, classmethod)", "REG-3")
M("reg3-wrapped-dropped", "C12", CD, '        if hasattr(thing, "__wrapped__"):\n            thing = inspect.unwrap(cast(types.FunctionType, thing))\n            continue\n', "", "REG-3")
M("reg3-nested-first-code", "C12", CD, "if isinstance(const, types.CodeType) and const.co_name == name:", "if isinstance(const, types.CodeType):", "REG-3")
M("reg4-first-wins", "C12", CD, "            registry[actual_code] = func\n", "            registry.setdefault(actual_code, func)\n", "REG-4")
M("reg4-key-raw", "C12", CD, "            actual_code = get_code(code, *nested_names)", "            actual_code = get_code(code)", "REG-4")
M("reg4-dispatch-broad", "C12", CD, "            except KeyError:\n                return default_impl", "            except Exception:\n                return default_impl", "REG-4")
M("reg6-dispatch-dropped", "C12", CD, "        wrapper.dispatch = dispatch  # type: ignore\n", "", "REG-6")
M("f3-reverted-partial", "C12", CU, "customize, hide=hide, hide_line=hide_line, prune=prune, elaborate=elaborate", "customize, hide=hide, prune=prune, elaborate=elaborate", "REG-5")
M("f3-reverted-effect", "C12", CU, "        if hide_line:\n            frame.hide_line = True\n", "", "REG-5")
M("reg5-prune-dead", "C12", CU, "        return PRUNE if prune else None", "        return None", "REG-5")
M("reg5-hide-wrong-field", "C12", CU, "        if hide:\n            frame.hide = True", "        if hide:\n            frame.hide_line = True", "REG-5")
M("reg5-elaborate-swallowed", "C12", CU, "            if replacement is not None:  # pragma: no branch\n                return replacement\n", "", "REG-5")

# ---------------------------------------------------------------- C06
M("esc1-frame-cache", "C06", L311, "def inspect_frame(frame: FrameType) -> FrameDetails:\n    assert sys.implementation.name", "_cache: dict = {}\n\n\ndef inspect_frame(frame: FrameType) -> FrameDetails:\n    _cache[id(frame)] = frame\n    assert sys.implementation.name", "ESC-1")
M("esc1-context-cache", "C06", LL, "    with_block_info = analyze_with_blocks(frame.f_code)\n    frame_details = inspect_frame(frame)", "    with_block_info = analyze_with_blocks(frame.f_code)\n    frame_details = inspect_frame(frame)\n    _last_details.append(frame_details)", "ESC-1",
  extra=[("_can_use_trickery: Optional[bool] = None\n", "_can_use_trickery: Optional[bool] = None\n_last_details: list = []\n")])
M("esc1-lru-cache", "C06", LL, "def analyze_with_blocks(code: types.CodeType) -> Dict[int, Context]:", "import functools\n\n\n@functools.lru_cache(maxsize=None)\ndef contexts_cached(frame: types.FrameType) -> List[Context]:\n    return _contexts_active_by_trickery(frame)\n\n\ndef analyze_with_blocks(code: types.CodeType) -> Dict[int, Context]:", "ESC-1")
M("esc1-global-last", "C06", EX, "    errors: List[Exception] = []\n    it = extract_iter(stackitem, errors)\n    frames = []", "    global _last_item\n    _last_item = stackitem\n    errors: List[Exception] = []\n    it = extract_iter(stackitem, errors)\n    frames = []", "ESC-1")
M("esc1-hook-closure-cache", "C06", GL, "    @unwrap_stackitem.register(lowlevel.Task)\n    def unwrap_task(task: lowlevel.Task) -> Any:\n        return task.coro", "    seen_tasks: List[Any] = []\n\n    @unwrap_stackitem.register(lowlevel.Task)\n    def unwrap_task(task: lowlevel.Task) -> Any:\n        seen_tasks.append(task)\n        return task.coro", "ESC-1")
M("esc2-close-target", "C06", GL, "        if gen.gi_running:\n            return StackSlice(outer=gen.gi_frame)", "        if gen.gi_running:\n            return StackSlice(outer=gen.gi_frame)\n        if gen.gi_frame is None:\n            gen.close()", "ESC-2")
M("esc2-next-unguarded", "C06", EX, "            if isinstance(unwrapped, FrameIterator):\n                it = unwrapped", "            if hasattr(unwrapped, '__next__'):\n                it = unwrapped", "ESC-2")
M("esc2-iterate-any", "C06", EX, "            if isinstance(unwrapped, collections.abc.Sequence):\n                rev_items = reversed(unwrapped)", "            if isinstance(unwrapped, collections.abc.Iterable):\n                rev_items = reversed(list(unwrapped))", "ESC-2", accept_analysis_error=True)
M("esc3-aclose-deleted", "C06", GL, "    try:\n        # Clean up the asyncgen so it doesn't confuse any finalization hooks\n        agen.aclose().send(None)  # type: ignore\n    except (StopIteration, StopAsyncIteration):\n        pass\n", "", "ESC-3")
M("esc3-coro-close-deleted", "C06", GL, "    coro_wrapper_type = type(coro.__await__())\n    coro.close()\n", "    coro_wrapper_type = type(coro.__await__())\n", "ESC-3")
M("asend1-memo-by-id", "C03", GL, "        for referent in gc.get_referents(aw):\n            if hasattr(referent, \"ag_frame\"):  # pragma: no branch\n                return referent\n",
  "        if id(aw) in _agen_memo:\n            return _agen_memo[id(aw)]\n        for referent in gc.get_referents(aw):\n            if hasattr(referent, \"ag_frame\"):  # pragma: no branch\n                _agen_memo[id(aw)] = referent\n                return referent\n",
  ["ASEND-1"], accept_analysis_error=True, extra=[("glue_lock = threading.Lock()\n", "glue_lock = threading.Lock()\n_agen_memo: dict = {}\n")])
M("esc3-asend-close-deleted", "C06", GL, "    asend_coro.close()\n", "", "ESC-3")
M("null1-no-handler", "C06", L311, "                    try:\n                        # Read the PyObject* from memory and take a reference to it,\n                        # in one atomic operation\n                        obj = stack_ptr[i]\n                    except ValueError:\n                        # ctypes raises this if a PyObject* is NULL. We'll record\n                        # those as None.\n                        obj = None\n",
  "                    obj = stack_ptr[i]\n", "NULL-1")
M("null1-310-unguarded", "C06", L310, "None if address == 0 else ctypes.cast(address, ctypes.py_object).value", "ctypes.cast(address, ctypes.py_object).value", "NULL-1")
T("twin-esc1-code-cache", "C06", LL, "def analyze_with_blocks(code: types.CodeType) -> Dict[int, Context]:", "_seen_codes: dict = {}\n\n\ndef note_code(frame: types.FrameType) -> None:\n    _seen_codes[id(frame.f_code)] = frame.f_code\n\n\ndef analyze_with_blocks(code: types.CodeType) -> Dict[int, Context]:")
T("twin-esc1-counter", "C06", EX, "    errors: List[Exception] = []\n    it = extract_iter(stackitem, errors)\n    frames = []", "    global _n_extractions\n    _n_extractions = 1\n    errors: List[Exception] = []\n    it = extract_iter(stackitem, errors)\n    frames = []")

# ---------------------------------------------------------------- C07
M("snap1-read-before-loop", "C07", L311, "    from ._lowlevel import _parse_exception_table\n", "    from ._lowlevel import _parse_exception_table\n    owner_early = frame_raw.f_frame.contents.owner\n", "SNAP-1")
M("snap3-loop-recheck-deleted", "C07", L311, "                    # pinned on the thread stack if it was before, because\n                    # finishing execution would change lasti.\n                    assert frame.f_lasti == lasti_before\n", "                    # pinned on the thread stack if it was before, because\n                    # finishing execution would change lasti.\n", "SNAP-3")
M("snap3-final-recheck-deleted", "C07", L311, "                    details.stack.append(obj)\n\n            assert frame.f_lasti == lasti_before\n", "                    details.stack.append(obj)\n", "SNAP-3")
M("snap3-recheck-wrong-token", "C07", L311, "                    # finishing execution would change lasti.\n                    assert frame.f_lasti == lasti_before\n", "                    # finishing execution would change lasti.\n                    assert frame.f_lasti >= 0\n", "SNAP-3")
M("snap4-handler-disabled", "C07", L311, "        except AssertionError:\n            if frame.f_lasti == lasti_before:\n                raise\n", "        except KeyError:\n            if frame.f_lasti == lasti_before:\n                raise\n", "SNAP-4")
M("snap4-continue-deleted", "C07", L311, "            # otherwise this was probably a concurrent modification, try again\n            continue\n", "            # otherwise this was probably a concurrent modification, try again\n", "SNAP-4")
M("snap5-else-accepts", "C07", L311, '''    else:
        raise RuntimeError(
            "Could not obtain a consistent stack snapshot. Probably this frame "
            "is running in another thread and is too complex for us to scan the "
            "stack before we get preempted."
        )
''', "    else:\n        lasti = frame.f_lasti\n", "SNAP-5")
M("snap5-unbounded", "C07", L311, "    for _ in range(10):\n        lasti_before = frame.f_lasti", "    for _ in iter(int, 1):\n        lasti_before = frame.f_lasti", "SNAP-5", accept_analysis_error=True)
M("snap2-sample-after", "C07", L311, "        lasti_before = frame.f_lasti\n        for start, end, _, depth, _ in _parse_exception_table(co):", "        for start, end, _, depth, _ in _parse_exception_table(co):", ["SNAP-2"], accept_analysis_error=True)
M("thr1-was-alive-dropped", "C07", GL, "if inner_frame is None or not thread.is_alive() or not was_alive:", "if inner_frame is None or not thread.is_alive():", "THR-1")
M("thr1-alive-after-dropped", "C07", GL, "if inner_frame is None or not thread.is_alive() or not was_alive:", "if inner_frame is None or not was_alive:", "THR-1")
M("thr1-none-dropped", "C07", GL, "if inner_frame is None or not thread.is_alive() or not was_alive:", "if not thread.is_alive() or not was_alive:", "THR-1")
M("thr1-and", "C07", GL, "if inner_frame is None or not thread.is_alive() or not was_alive:", "if inner_frame is None or not thread.is_alive() and not was_alive:", "THR-1")
M("thr1-sample-order", "C07", GL, "        was_alive = thread.is_alive()\n        inner_frame = sys._current_frames().get(thread.ident)  # type: ignore\n", "        inner_frame = sys._current_frames().get(thread.ident)  # type: ignore\n        was_alive = thread.is_alive()\n", "THR-1")
T("twin-thr1-demorgan", "C07", GL, "if inner_frame is None or not thread.is_alive() or not was_alive:", "if not (inner_frame is not None and thread.is_alive() and was_alive):")
T("twin-snap3-first-recheck-deleted", "C07", L311, "                ctypes.addressof(iframe_raw) + stack_start_offset\n            )\n            assert frame.f_lasti == lasti_before\n", "                ctypes.addressof(iframe_raw) + stack_start_offset\n            )\n")

TY = "_types.py"
# ---------------------------------------------------------------- C04
M("slc1-inner-dropped", "C04", GL, "        if inner_frame is None and outer_frame is not None:\n            del frames[spec.limit :]", "        if outer_frame is not None:\n            del frames[spec.limit :]", "SLC-1")
M("slc1-outer-dropped", "C04", GL, "        if inner_frame is None and outer_frame is not None:\n            del frames[spec.limit :]", "        if inner_frame is None:\n            del frames[spec.limit :]", "SLC-1")
M("slc1-or", "C04", GL, "        if inner_frame is None and outer_frame is not None:\n            del frames[spec.limit :]", "        if inner_frame is None or outer_frame is not None:\n            del frames[spec.limit :]", "SLC-1")
M("slc1-branches-swapped", "C04", GL, "            del frames[spec.limit :]\n        else:\n            del frames[: -spec.limit]", "            del frames[: -spec.limit]\n        else:\n            del frames[spec.limit :]", "SLC-1")
M("slc1-guard-none", "C04", GL, "    if spec.limit is not None and len(frames) > spec.limit:", "    if spec.limit is not None or len(frames) > spec.limit:", "SLC-1")
M("slc2-since-inner", "C04", EX, "        StackSlice(outer=outer_frame),\n", "        StackSlice(inner=outer_frame),\n", "SLC-2")
M("slc2-until-outer", "C04", EX, "        return extract(StackSlice(inner=inner_frame, limit=limit), **opts)", "        return extract(StackSlice(outer=inner_frame, limit=limit), **opts)", "SLC-2")
M("slc2-until-limit-dropped", "C04", EX, "        return extract(StackSlice(inner=inner_frame, limit=limit), **opts)", "        return extract(StackSlice(inner=inner_frame), **opts)", "SLC-2")
M("slc2-until-swapped", "C04", EX, "        return extract(StackSlice(outer=outer_frame, inner=inner_frame), **opts)", "        return extract(StackSlice(outer=inner_frame, inner=outer_frame), **opts)", "SLC-2")
M("slc2-positional", "C04", GL, "        return StackSlice(inner=inner_frame)\n\n    # Don't show thread bootstrap", "        return StackSlice(inner_frame)\n\n    # Don't show thread bootstrap", "SLC-2")
M("slc3-is-mine-tests", "C04", GL, '        return name.startswith("stackscope.") and not name.startswith(\n            "stackscope._tests."\n        )', '        return name.startswith("stackscope.")', "SLC-3")
M("slc3-is-mine-prefix", "C04", GL, '        return name.startswith("stackscope.") and not name.startswith(', '        return name.startswith("stackscope") and not name.startswith(', "SLC-3")
M("slc3-singledispatch-dropped", "C04", GL, '        is_mine(caller.f_globals.get("__name__", ""))\n        or caller.f_code is functools_singledispatch_wrapper\n', '        is_mine(caller.f_globals.get("__name__", ""))\n', "SLC-3")
M("slc4-gen-inner", "C04", GL, "            return StackSlice(outer=gen.gi_frame)", "            return StackSlice(inner=gen.gi_frame)", "SLC-4")
M("slc4-agen-await-dropped", "C04", GL, "        if agen.ag_running and agen.ag_await is None:", "        if agen.ag_running:", "SLC-4")
M("slc4-coro-order", "C04", GL, "        return (coro.cr_frame, coro.cr_await)", "        return (coro.cr_await, coro.cr_frame)", "SLC-4")
T("twin-slc1-demorgan", "C04", GL, "        if inner_frame is None and outer_frame is not None:\n            del frames[spec.limit :]\n        else:\n            del frames[: -spec.limit]",
  "        if inner_frame is not None or outer_frame is None:\n            del frames[: -spec.limit]\n        else:\n            del frames[spec.limit :]")

# ---------------------------------------------------------------- C09
M("gcm1-always", "C09", GL, "        if not context.is_exiting:\n            context.inner_stack = _extract.extract_child(mgr.gen, for_task=False)", "        if True:\n            context.inner_stack = _extract.extract_child(mgr.gen, for_task=False)", "GCM-1")
M("gcm1-inverted", "C09", GL, "        if not context.is_exiting:\n            context.inner_stack = _extract.extract_child(mgr.gen, for_task=False)", "        if context.is_exiting:\n            context.inner_stack = _extract.extract_child(mgr.gen, for_task=False)", "GCM-1")
M("gcm1-backport-always", "C09", GL, "        if not context.is_exiting:\n            context.inner_stack = _extract.extract_child(mgr._agen, for_task=False)", "        if True:\n            context.inner_stack = _extract.extract_child(mgr._agen, for_task=False)", "GCM-1")
M("gcm1-for-task", "C09", GL, "context.inner_stack = _extract.extract_child(mgr.gen, for_task=False)", "context.inner_stack = _extract.extract_child(mgr.gen, for_task=True)", "GCM-1")
M("ctx8-polarity", "C09", GL, "                is_async=not is_sync,", "                is_async=is_sync,", "CTX-8")
M("ctx8-await-tag", "C09", GL, '                    tag = "" if is_sync else "await "', '                    tag = "await " if is_sync else ""', "CTX-8")
M("ctx6-pair-mixed", "C09", GL, '                    method = "enter_context" if is_sync else "enter_async_context"', '                    method = "enter_context" if is_sync else "push_async_exit"', "CTX-6")
M("ctx6-pair-swapped", "C09", GL, '                method = "callback" if is_sync else "push_async_callback"', '                method = "push_async_callback" if is_sync else "callback"', "CTX-6")
M("ctx6-wrapper-name", "C09", GL, 'and getattr(callback, "__name__", None) == "_exit_wrapper"', 'and getattr(callback, "__name__", None) == "_exit_wrap"', "CTX-6")
M("ctx6-freevars", "C09", GL, 'and set(callback.__code__.co_freevars) >= {"args", "kwds"}', 'and set(callback.__code__.co_freevars) >= {"args", "kwargs"}', "CTX-6", accept_analysis_error=True)
M("ctx6-tuple-order", "C09", GL, "        for idx, (is_sync, callback) in enumerate(callbacks):", "        for idx, (callback, is_sync) in enumerate(callbacks):", "CTX-6")
M("ctx6-private-attr", "C09", GL, "list(stack._exit_callbacks)", "list(stack._callbacks)", "CTX-6", accept_analysis_error=True)
M("ctx6-cells-swapped", "C09", GL, "                            callback.__closure__[args_idx].cell_contents,\n                            callback.__closure__[kwds_idx].cell_contents,", "                            callback.__closure__[kwds_idx].cell_contents,\n                            callback.__closure__[args_idx].cell_contents,", "CTX-6")
M("ctx6-exit-names", "C09", GL, 'or callback.__func__.__name__ in ("__exit__", "__aexit__")', 'or callback.__func__.__name__ in ("__exit__",)', "CTX-6")
M("ctx7-reversed", "C09", GL, "list(stack._exit_callbacks)", "list(reversed(stack._exit_callbacks))", "CTX-7", accept_analysis_error=True)
M("ctx7-no-fill", "C09", GL, "            _extract.fill_context(child_context)\n", "", "CTX-7")
M("ctx7-children-in-loop", "C09", GL, "            children.append(child_context)\n\n        context.children = children", "            children.append(child_context)\n            context.children = children", "CTX-7")

# ---------------------------------------------------------------- C18
M("fmt1-marker-3wide", "C18", TY, 'start_frame = "+ " if opts.ascii_only else "╠ "', 'start_frame = "+  " if opts.ascii_only else "╠ "', "FMT-1")
M("fmt1-ascii-nonascii", "C18", TY, 'continue_frame = "| " if opts.ascii_only else "║ "', 'continue_frame = "│ " if opts.ascii_only else "║ "', "FMT-1")
M("fmt1-duplicate", "C18", TY, 'start_leaf = "+ " if opts.ascii_only else "╚ "', 'start_leaf = "+ " if opts.ascii_only else "╠ "', "FMT-1")
M("fmt1-inverted", "C18", TY, 'start_code = "` " if opts.ascii_only else "└ "', 'start_code = "└ " if opts.ascii_only else "` "', "FMT-1")
M("fmt1-map-not-function", "C18", TY, 'start_child = ". " if opts.ascii_only else "─ "', 'start_child = "- " if opts.ascii_only else "─ "', "FMT-1")
M("fmt1-indicator-mismatch", "C18", TY, 'child_context_indicator = ". " if opts.ascii_only else "─ "', 'child_context_indicator = ". " if opts.ascii_only else "━ "', "FMT-1")
M("fmt2-stack-flipped", "C18", TY, "            if frame.hide and not opts.show_hidden_frames:\n                continue", "            if frame.hide and opts.show_hidden_frames:\n                continue", "FMT-2")
M("fmt2-context-always", "C18", TY, "        if self.hide and not opts.show_hidden_frames:\n            return []", "        if self.hide:\n            return []", "FMT-2")
M("fmt2-context-deleted", "C18", TY, "        if self.hide and not opts.show_hidden_frames:\n            return []\n", "", "FMT-2")
M("fmt3-stack-append-deleted", "C18", TY, "                marker = start_frame if idx == 0 else continue_frame\n                lines.append(marker + line)", "                marker = start_frame if idx == 0 else continue_frame", "FMT-3")
M("fmt3-frame-branch-dropped", "C18", TY, "                    elif line.startswith(child_context_indicator):\n                        lines.append(start_child_context + line)\n                    else:\n                        lines.append(continue_context + line)", "                    elif line.startswith(child_context_indicator):\n                        lines.append(start_child_context + line)", "FMT-3")
M("fmt3-context-append-deleted", "C18", TY, "                marker = start_child if idx == 0 else continue_child\n                lines.append(marker + line)", "                marker = start_child if idx == 0 else continue_child\n                if idx:\n                    lines.append(marker + line)", "FMT-3")
M("fmt3-inner-stack-header-kept", "C18", TY, "lines.extend(self.inner_stack._format(opts)[1:])", "lines.extend(self.inner_stack._format(opts))", "FMT-3")
M("fmt5-leaf-no-newline", "C18", TY, '            lines.append(f"{start_leaf}{self.leaf!r}\\n")', '            lines.append(f"{start_leaf}{self.leaf!r}")', "FMT-5")
M("fmt5-code-no-newline", "C18", TY, '                lines.append(start_code + linetext + "\\n")', '                lines.append(start_code + linetext)', "FMT-5")
M("fmt7-option-crossed", "C18", TY, "                show_contexts=show_contexts,\n                show_hidden_frames=show_hidden_frames,\n            )\n        )", "                show_contexts=show_hidden_frames,\n                show_hidden_frames=show_contexts,\n            )\n        )", "FMT-7")
M("fmt7-show-contexts-ignored", "C18", TY, "        if opts.show_contexts:\n            for context in self.contexts:", "        if True:\n            for context in self.contexts:", "FMT-7")
M("fmt7-str", "C18", TY, '        return "".join(self.format())', '        return "\\n".join(self.format())', "FMT-7")

# ---------------------------------------------------------------- C19
M("fmt2-summaries-flipped", "C19", TY, "            if frame.hide and not show_hidden_frames:\n                continue", "            if frame.hide or not show_hidden_frames:\n                continue", "FMT-2")
M("fmt2-ctx-summaries-deleted", "C19", TY, "        if self.hide and not show_hidden_frames:\n            return\n", "", "FMT-2")
M("fmt4-summary-first", "C19", TY, "        if not (self.contexts and self.contexts[-1].is_exiting):\n            yield self.as_stdlib_summary", "        if not (self.contexts and self.contexts[0].is_exiting):\n            yield self.as_stdlib_summary", ["FMT-4", "FMT-13"], accept_analysis_error=True)
M("fmt4-summary-always", "C19", TY, "        if not (self.contexts and self.contexts[-1].is_exiting):\n            yield self.as_stdlib_summary", "        if not (self.contexts or self.contexts[-1].is_exiting):\n            yield self.as_stdlib_summary", "FMT-13")
M("fmt6-locals-raw", "C19", TY, "                name: repr(value) for name, value in self.pyframe.f_locals.items()", "                name: value for name, value in self.pyframe.f_locals.items()", "FMT-6")
M("fmt6-ctx-locals-obj", "C19", TY, 'save_locals = {"<context manager>": self.description or repr(self.obj)}', 'save_locals = {"<context manager>": self.obj}', "FMT-6")
M("fmt6-frame-arg", "C19", TY, "        return traceback.FrameSummary(\n            self.filename,\n            self.lineno,\n            self.funcname,\n            locals=save_locals,\n        )", "        return traceback.FrameSummary(\n            self.filename,\n            self.lineno,\n            self.funcname,\n            locals=save_locals,\n            lookup_line=False,\n            line=self.pyframe,  # type: ignore\n        )", "FMT-6")
M("fmt6-arg-order", "C19", TY, "            self.filename,\n            self.lineno,\n            self.funcname,\n            locals=save_locals,", "            self.filename,\n            self.funcname,\n            self.lineno,\n            locals=save_locals,", "FMT-6")
M("fmt8-flat-always-summary", "C19", TY, "        if self.frames:\n            lines.extend(self.as_stdlib_summary(show_contexts=show_contexts).format())", "        lines.extend(self.as_stdlib_summary(show_contexts=show_contexts).format())", "FMT-8")
M("fmt8-flat-contexts-dropped", "C19", TY, "lines.extend(self.as_stdlib_summary(show_contexts=show_contexts).format())", "lines.extend(self.as_stdlib_summary().format())", ["FMT-8", "FMT-9"])
M("fmt9-positional-swapped", "C19", TY, "            self._frame_summaries(show_contexts, show_hidden_frames, capture_locals)", "            self._frame_summaries(show_hidden_frames, show_contexts, capture_locals)", "FMT-9")
M("fmt9-capture-dropped", "C19", TY, "                yield frame.as_stdlib_summary(capture_locals=capture_locals)", "                yield frame.as_stdlib_summary()", "FMT-9")
M("fmt9-hidden-const", "C19", TY, "                    show_hidden_frames=show_hidden_frames, capture_locals=capture_locals\n                )", "                    show_hidden_frames=False, capture_locals=capture_locals\n                )", "FMT-9")
M("fmt9-ctx-positional-swapped", "C19", TY, "            yield from context._frame_summaries(\n                self, show_hidden_frames, capture_locals\n            )", "            yield from context._frame_summaries(\n                self, capture_locals, show_hidden_frames\n            )", "FMT-9")

# ---------------------------------------------------------------- C20
M("cont7-narrow", "C20", LL, "        except Exception as ex:\n            warnings.warn(\n                \"Inspection trickery failed on frame", "        except AssertionError as ex:\n            warnings.warn(\n                \"Inspection trickery failed on frame", "CONT-7")
M("cont7-reraise", "C20", LL, "            traceback.print_exc()\n            ret = _contexts_active_by_referents(frame, origin)\n    else:", "            traceback.print_exc()\n            ret = _contexts_active_by_referents(frame, origin)\n            raise\n    else:", "CONT-7")
M("cont7-no-fallback", "C20", LL, "            traceback.print_exc()\n            ret = _contexts_active_by_referents(frame, origin)\n    else:", "            traceback.print_exc()\n    else:", "CONT-7")
M("cont7-origin-dropped", "C20", LL, "            traceback.print_exc()\n            ret = _contexts_active_by_referents(frame, origin)\n    else:", "            traceback.print_exc()\n            ret = _contexts_active_by_referents(frame, None)\n    else:", "CONT-7")
M("mode0-thread-local", "C20", LL, "_can_use_trickery: Optional[bool] = None\n", "_can_use_trickery: Optional[bool] = True\n", "MODE-0")
M("mode1-no-lock", "C20", LL, "    global _can_use_trickery\n    with _trickery_lock:\n        _can_use_trickery = enabled", "    global _can_use_trickery\n    if True:\n        _can_use_trickery = enabled", "MODE-1")
M("mode2-bool", "C20", LL, "        _can_use_trickery = enabled\n", "        _can_use_trickery = bool(enabled)\n", "MODE-2")
M("mode2-fast-path-inverted", "C20", LL, "    global _can_use_trickery\n    if _can_use_trickery is not None:\n        return _can_use_trickery\n    with _trickery_lock:", "    global _can_use_trickery\n    if _can_use_trickery:\n        return _can_use_trickery\n    with _trickery_lock:", "MODE-2")
M("mode2-no-retest", "C20", LL, "        if _can_use_trickery is not None:  # pragma: no cover\n            return _can_use_trickery\n", "", "MODE-2")
M("mode3-no-store", "C20", LL, "                traceback.print_exc()\n                _can_use_trickery = False\n", "                traceback.print_exc()\n", "MODE-3")
M("mode1-extra-writer", "C20", LL, "    ret: List[Context] = []\n    if _check_trickery_available():", "    global _can_use_trickery\n    ret: List[Context] = []\n    if _check_trickery_available():", "MODE-1",
  extra=[("            traceback.print_exc()\n            ret = _contexts_active_by_referents(frame, origin)\n    else:", "            traceback.print_exc()\n            _can_use_trickery = False\n            ret = _contexts_active_by_referents(frame, origin)\n    else:")])
M("ref1-async-inverted", "C20", LL, 'is_async="a" in referent.__func__.__name__,', 'is_async="e" in referent.__func__.__name__,', "REF-1")
M("ref1-obj-func", "C20", LL, "                    obj=referent.__self__,", "                    obj=referent.__func__,", "REF-1")
M("ref1-root-312", "C20", LL, "    if sys.version_info >= (3, 11) and isinstance(\n        origin, (types.GeneratorType", "    if sys.version_info >= (3, 12) and isinstance(\n        origin, (types.GeneratorType", "REF-1")
M("ref1-root-always", "C20", LL, "    if sys.version_info >= (3, 11) and isinstance(\n        origin, (types.GeneratorType", "    if sys.version_info >= (3, 9) and isinstance(\n        origin, (types.GeneratorType", "REF-1")
M("ref1-exit-only", "C20", LL, '        if isinstance(referent, types.MethodType) and referent.__func__.__name__ in (\n            "__exit__",\n            "__aexit__",\n        ):', '        if isinstance(referent, types.MethodType) and referent.__func__.__name__ in (\n            "__exit__",\n        ):', "REF-1")
M("c20-exi1-prepend", "C20", LL, "        ret.append(Context(obj=None, is_async=exiting.is_async, is_exiting=True))", "        ret.insert(0, Context(obj=None, is_async=exiting.is_async, is_exiting=True))", "EXI-1")


# ---------------------------------------------------------------- independently written changes (patches)
import glob as _glob
import json as _json
_V = _os.path.dirname(_os.path.dirname(_os.path.abspath(__file__)))
# behaviour-preserving edits written by sub-agents that knew nothing of the checker: must never be reported as violations
from .props import PROPS as _PROPS
for _d in sorted(_glob.glob(_os.path.join(_V, "twins", "*", "patch.diff"))):
    _id = _os.path.basename(_os.path.dirname(_d))
    for _p in sorted(_PROPS):
        VARIANTS.append(dict(id=f"twin/{_id}", prop=_p, patch=_d, expect=None, kind="twin"))
# property-breaking changes written by sub-agents: must be reported by the checks recorded in their meta.json
for _m in sorted(_glob.glob(_os.path.join(_V, "seeded", "*", "meta.json"))):
    _meta = _json.load(open(_m))
    for _p, _v in _meta["detected_by"].items():
        if _p in _PROPS:
            VARIANTS.append(dict(id=f"seeded/{_meta['id']}", prop=_p, patch=_os.path.join(_os.path.dirname(_m), "patch.diff"), expect=_v["rules"], kind="mutant"))

# ---------------------------------------------------------------- after the mutation sweep
M("int-negated", "C02", L311, "            if start <= lasti_before <= end:\n                handler_depth = depth", "            if not (start <= lasti_before <= end):\n                handler_depth = depth", "INT")
M("snap7-default-1", "C07", L311, "        else:\n            handler_depth = 0\n", "        else:\n            handler_depth = 1\n", "SNAP-7")
M("snap7-minus", "C07", L311, "stack_top_offset = stack_start_offset + wordsize * handler_depth", "stack_top_offset = stack_start_offset - wordsize * handler_depth", "SNAP-7")
M("snap6-stack-reset-deleted", "C07", L311, "            details.stack = []\n            if frame_owner", "            if frame_owner", "SNAP-6")
M("cont1-frameiter-no-break", "C05", EX, "                    except Exception as ex:\n                        save_errors.append(ex)\n                        break", "                    except Exception as ex:\n                        save_errors.append(ex)", "CONT-1")
M("opc7-39-store-deleted", "C08", LL, "            cleanup_offset = insn.argval\n            with_block_info[cleanup_offset] = Context(\n                obj=None,\n                is_async=(insn.opname == \"SETUP_ASYNC_WITH\"),\n                varname=store_to,\n                start_line=current_line,\n            )",
  "            cleanup_offset = insn.argval", "LINE-1")
M("line1-is-async-noteq", "C08", LL, 'is_async=(insn.opname == "SETUP_ASYNC_WITH"),', 'is_async=(insn.opname != "SETUP_ASYNC_WITH"),', "LINE-1")
M("opc3b-nop-plus-2", "C08", LL, "                # as x:' covers multiple lines\n                skip_insns += 1", "                # as x:' covers multiple lines\n                skip_insns += 2", "OPC-3b")
M("opc3b-nop-minus", "C01", LL, "                # This can show up on 3.11 if the expr in 'async with <expr>\n                # as x:' covers multiple lines\n                skip_insns += 1", "                # This can show up on 3.11 if the expr in 'async with <expr>\n                # as x:' covers multiple lines\n                skip_insns -= 1", "OPC-3b")
M("opc2b-else-raise-deleted", "C08", LL, '            else:\n                raise ValueError(f"{insn.opname} in assignment target not supported")', '            else:\n                pass', "OPC-2b")
M("opc2b-depth-raise-deleted", "C08", LL, '            raise ValueError("Assignment occurred at unsupported stack depth")', '            pass', "OPC-2b")
M("opc2b-except-narrow", "C08", LL, "    except (ValueError, IndexError):\n        return None", "    except ValueError:\n        return None", "OPC-2b")
M("reg5-hide-line-default", "C12", CU, "    target: Any = None,\n    *inner_names: str,\n    hide: bool = False,\n    hide_line: bool = False,", "    target: Any = None,\n    *inner_names: str,\n    hide: bool = False,\n    hide_line: bool = True,", "REG-5")
M("reg4-register-returns-none", "C12", CD, "            registry[actual_code] = func\n            return func", "            registry[actual_code] = func", "REG-4")
M("reg4-trailing-first", "C12", CD, "                func = cast(Callable[..., Any], nested_names[-1])\n                nested_names = nested_names[:-1]", "                func = cast(Callable[..., Any], nested_names[-1])\n                nested_names = nested_names[:-2]", "REG-4")

# ---------------------------------------------------------------- OPC-6 (exit-call templates)
M("opc6-window-guard-9", "C02", LL, "        if offs < 8 or code[offs - 6 : offs + 2 : 2] != bytes(", "        if offs < 9 or code[offs - 6 : offs + 2 : 2] != bytes(", "OPC-6")
M("opc6-window-lower", "C02", LL, "        if offs < 8 or code[offs - 6 : offs + 2 : 2] != bytes(", "        if offs < 8 or code[offs - 5 : offs + 2 : 2] != bytes(", ["OPC-6"], accept_analysis_error=True)
M("opc6-window-opcodes", "C02", LL, '[op["LOAD_CONST"], op["DUP_TOP"], op["DUP_TOP"], op["CALL_FUNCTION"]]', '[op["LOAD_CONST"], op["DUP_TOP"], op["CALL_FUNCTION"]]', "OPC-6")
M("opc6-step-back-7", "C02", LL, "        # Backtrack from CALL_FUNCTION to the preceding POP_BLOCK\n        offs -= 8", "        # Backtrack from CALL_FUNCTION to the preceding POP_BLOCK\n        offs -= 6", "OPC-6")
M("opc6-rot-two-dropped", "C02", LL, '        while offs and code[offs] == op["EXTENDED_ARG"]:\n            offs -= 2\n        if offs and code[offs] == op["ROT_TWO"]:\n            offs -= 2\n    else:', '        while offs and code[offs] == op["EXTENDED_ARG"]:\n            offs -= 2\n    else:', "OPC-6")
M("opc6-range-2", "C02", LL, "        for _ in range(3):\n            if not backtrack_over_load_none():", "        for _ in range(2):\n            if not backtrack_over_load_none():", "OPC-6")
M("opc6-call-arg-3", "C02", LL, 'if code[offs : offs + 2] != bytes([op["CALL"], 2]):', 'if code[offs : offs + 2] != bytes([op["CALL"], 3]):', "OPC-6")
M("opc6-get-awaitable-arg", "C02", LL, "sys.version_info >= (3, 11) and code[offs + 1] != 2", "sys.version_info >= (3, 11) and code[offs + 1] != 1", "OPC-6")
M("opc6-get-awaitable-310", "C02", LL, "sys.version_info >= (3, 11) and code[offs + 1] != 2", "sys.version_info >= (3, 10) and code[offs + 1] != 2", "OPC-6")
M("opc6-swap-dropped", "C02", LL, 'end == offs - 2 and code[offs] in (op["SWAP"], op["NOP"])', 'end == offs - 2 and code[offs] in (op["NOP"],)', ["OPC-6"], accept_analysis_error=True)
M("opc8-fallthrough", "C01", LL, "            todo.append((offs + 2, stack))", "            todo.append((offs + 4, stack))", "OPC-8", accept_analysis_error=True)
M("opc8-jmul-39", "C01", LL, "    jmul = 2 if sys.version_info >= (3, 10) else 1", "    jmul = 2 if sys.version_info >= (3, 9) else 1", "OPC-8")
M("opc8-extarg-shift", "C01", LL, "            arg = (arg << 8) | code[offs + 1]", "            arg = (arg << 4) | code[offs + 1]", "OPC-8")

# ---------------------------------------------------------------- after sweep r2 (C18 / C19 / C12)
M("fmt10-stack-marker-swapped", "C18", TY, "                marker = start_frame if idx == 0 else continue_frame", "                marker = start_frame if idx != 0 else continue_frame", "FMT-10")
M("fmt10-context-first-continue", "C18", TY, "                    if idx == 0:\n                        lines.append(start_context + line)", "                    if idx == 0:\n                        lines.append(continue_context + line)", "FMT-10")
M("fmt11-leaf-inverted", "C18", TY, "        if self.leaf is not None:\n            lines.append(f\"{start_leaf}{self.leaf!r}\\n\")", "        if self.leaf is None:\n            lines.append(f\"{start_leaf}{self.leaf!r}\\n\")", "FMT-11")
M("fmt11-error-dropped", "C18", TY, "        if self.error is not None:\n            lines.extend(self._format_error())\n        return lines\n\n    def format_flat", "        return lines\n\n    def format_flat", "FMT-11")
M("fmt11-error-lines-lost", "C18", TY, "                for subline in line.splitlines(True):\n                    yield \"  \" + subline", "                pass", "FMT-11")
M("fmt12-no-yield-plain", "C19", TY, "            else:\n                yield frame.as_stdlib_summary(capture_locals=capture_locals)", "            else:\n                pass", "FMT-13")
M("fmt12-capture-inverted", "C19", TY, "        if capture_locals:\n            save_locals = {\n                name: repr(value)", "        if not capture_locals:\n            save_locals = {\n                name: repr(value)", "FMT-12")
M("fmt12-flat-default", "C19", TY, "    def format_flat(self, *, show_contexts: bool = False) -> List[str]:", "    def format_flat(self, *, show_contexts: bool = True) -> List[str]:", "FMT-12")
M("fmt4-exiting-operand-dropped", "C19", TY, "        if not (self.contexts and self.contexts[-1].is_exiting):\n            yield self.as_stdlib_summary", "        if not self.contexts:\n            yield self.as_stdlib_summary", "FMT-13")
M("reg5-hide-line-inverted", "C12", CU, "        if hide_line:\n            frame.hide_line = True", "        if not hide_line:\n            frame.hide_line = True", "REG-5")

# ---------------------------------------------------------------- FORM-1 / FORM-2 (ctypes arithmetic)
M("form1-310-valuestack-plus", "C07", L310, "stack_start_offset = frame_raw.f_valuestack - id(frame)", "stack_start_offset = frame_raw.f_valuestack + id(frame)", "FORM-1")
M("form1-310-localsplus-plus", "C07", L310, "    localsplus_offset = stack_start_offset - wordsize * (", "    localsplus_offset = stack_start_offset + wordsize * (", "FORM-1")
M("form1-310-cells-minus", "C07", L310, "co.co_nlocals + len(co.co_cellvars) + len(co.co_freevars)", "co.co_nlocals + len(co.co_cellvars) - len(co.co_freevars)", "FORM-1")
M("form1-310-stacktop", "C07", L310, "        stack_top_offset = frame_raw.f_stacktop - id(frame)", "        stack_top_offset = frame_raw.f_stacktop + id(frame)", "FORM-1")
M("form1-310-blockend", "C07", L310, "    blockstack_end_offset = blockstack_offset + (", "    blockstack_end_offset = blockstack_offset - (", "FORM-1")
M("form1-310-stackdepth", "C07", L310, "return cast(int, self.f_valuestack + (self.f_stackdepth * wordsize))", "return cast(int, self.f_valuestack - (self.f_stackdepth * wordsize))", "FORM-1")
M("form1-311-end", "C07", L311, "    end_offset = stack_start_offset + wordsize * co.co_stacksize", "    end_offset = stack_start_offset - wordsize * co.co_stacksize", "FORM-1")
M("form1-311-stacktop", "C07", L311, "                stack_top_offset = localsplus_offset + wordsize * stacktop_copy", "                stack_top_offset = stack_start_offset + wordsize * stacktop_copy", ["FORM-1"], accept_analysis_error=True)
M("form1-311-stacklen", "C07", L311, "stack_len = (stack_top_offset - stack_start_offset) // wordsize", "stack_len = (stack_top_offset + stack_start_offset) // wordsize", "FORM-1")
M("form2-310-walk-le", "C07", L310, "    while blockstack_offset < blockstack_end_offset:", "    while blockstack_offset <= blockstack_end_offset:", "FORM-2")
M("form2-310-no-step", "C07", L310, "        blockstack_offset += ctypes.sizeof(PyTryBlock)\n", "", "FORM-2")
M("form2-310-handler-unscaled", "C07", L310, "                    handler=block.b_handler * offset_mult,", "                    handler=block.b_handler,", "FORM-2")
M("form2-310-no-truncation", "C07", L310, "        del stack[stack_validity_limit:]\n", "", "FORM-2")
M("form2-310-limit-min", "C07", L310, "stack_validity_limit = max(blk.level for blk in details.blocks)", "stack_validity_limit = min(blk.level for blk in details.blocks)", "FORM-2")
M("form2-310-limit-default-1", "C07", L310, "            stack_validity_limit = 0\n", "            stack_validity_limit = 1\n", "FORM-2")
T("twin-form1-commuted", "C07", L311, "    end_offset = stack_start_offset + wordsize * co.co_stacksize", "    end_offset = co.co_stacksize * wordsize + stack_start_offset")

# ---------------------------------------------------------------- VER-5
M("ver5-co-qualname", "C01", TY, "        return self.pyframe.f_code.co_name\n", "        return self.pyframe.f_code.co_qualname\n", "VER-5")
M("ver5-gi-suspended", "C01", GL, "        if gen.gi_running:\n            return StackSlice(outer=gen.gi_frame)", "        if not gen.gi_suspended:\n            return StackSlice(outer=gen.gi_frame)", ["VER-5"])
M("ver5-positions", "C01", LL, "        if insn.starts_line is not None:\n            current_line = insn.starts_line", "        if insn.positions is not None and insn.starts_line is not None:\n            current_line = insn.starts_line", "VER-5")

# ---------------------------------------------------------------- SIG-1
M("sig1-glue-hook-one-param", "C11", GL, "    def unwrap_greenback_async_context(manager: Any, context: Context) -> Any:\n        return manager._cm", "    def unwrap_greenback_async_context(manager: Any) -> Any:\n        return manager._cm", "SIG-1")
M("sig1-engine-call-one-arg", "C10", EX, "            replacement = elaborate_frame(frame, next_inner)", "            replacement = elaborate_frame(frame)", ["SIG-1"], accept_analysis_error=True)
M("sig1-contextvars-hook", "C10", GL, "    @unwrap_stackitem.register(ANextIter)\n    def unwrap_async_generator_backport_next_iter(aw: Any) -> Any:", "    @unwrap_stackitem.register(ANextIter)\n    def unwrap_async_generator_backport_next_iter(aw: Any, ctx: Any) -> Any:", "SIG-1")

# ---------------------------------------------------------------- FMT-13 emission tables
M("fmt13-own-before-contexts", "C19", TY,
  "        for context in self.contexts:\n            yield from context._frame_summaries(\n                self, show_hidden_frames, capture_locals\n            )\n",
  "        if not (self.contexts and self.contexts[-1].is_exiting):\n            yield self.as_stdlib_summary(capture_locals=capture_locals)\n        for context in self.contexts:\n            yield from context._frame_summaries(\n                self, show_hidden_frames, capture_locals\n            )\n        return\n", "FMT-13")
M("fmt13-exiting-any-context", "C02", TY, "        if not (self.contexts and self.contexts[-1].is_exiting):\n            yield self.as_stdlib_summary(", "        if not (self.contexts and self.contexts[0].is_exiting):\n            yield self.as_stdlib_summary(", "EXI-2")
M("fmt13-hidden-kills-rest", "C19", TY, "        for frame in self.frames:\n            if frame.hide and not show_hidden_frames:\n                continue\n            if show_contexts:", "        for frame in self.frames:\n            if frame.hide and not show_hidden_frames:\n                return\n            if show_contexts:", ["FMT-13"], accept_analysis_error=True)
M("fmt13-inner-stack-after-children", "C19", TY,
  "        if self.inner_stack is not None:\n            yield from self.inner_stack._frame_summaries(\n                show_contexts=True,\n                show_hidden_frames=show_hidden_frames,\n                capture_locals=capture_locals,\n            )\n        for subctx in self.children:\n            if isinstance(subctx, Context):\n                yield from subctx._frame_summaries(\n                    parent,\n                    show_hidden_frames,\n                    capture_locals,\n                    \"# \" + (subctx.description or repr(subctx)),\n                )\n",
  "        for subctx in self.children:\n            if isinstance(subctx, Context):\n                yield from subctx._frame_summaries(\n                    parent,\n                    show_hidden_frames,\n                    capture_locals,\n                    \"# \" + (subctx.description or repr(subctx)),\n                )\n        if self.inner_stack is not None:\n            yield from self.inner_stack._frame_summaries(\n                show_contexts=True,\n                show_hidden_frames=show_hidden_frames,\n                capture_locals=capture_locals,\n            )\n", "FMT-13")
M("fmt13-inner-stack-no-contexts", "C19", TY, "            yield from self.inner_stack._frame_summaries(\n                show_contexts=True,", "            yield from self.inner_stack._frame_summaries(\n                show_contexts=False,", "FMT-13")
M("fmt13-hidden-context-keeps-going", "C19", TY, "        if self.hide and not show_hidden_frames:\n            return\n        if capture_locals:\n            save_locals = {\"<context manager>\"", "        if self.hide and show_hidden_frames:\n            return\n        if capture_locals:\n            save_locals = {\"<context manager>\"", "FMT-13")
M("fmt13-child-parent-wrong", "C19", TY, "                yield from subctx._frame_summaries(\n                    parent,\n                    show_hidden_frames,", "                yield from subctx._frame_summaries(\n                    parent,\n                    True,", "FMT-13")
M("fmt13-only-when-capture", "C19", TY, "        if not (self.contexts and self.contexts[-1].is_exiting):\n            yield self.as_stdlib_summary(capture_locals=capture_locals)", "        if not (self.contexts and self.contexts[-1].is_exiting) or capture_locals:\n            yield self.as_stdlib_summary(capture_locals=capture_locals)", "FMT-13")
T("fmt13-twin-len", "C19", TY, "        if not (self.contexts and self.contexts[-1].is_exiting):\n            yield self.as_stdlib_summary(", "        if len(self.contexts) == 0 or not self.contexts[-1].is_exiting:\n            yield self.as_stdlib_summary(")
T("fmt13-twin-local", "C19", TY, "        if not (self.contexts and self.contexts[-1].is_exiting):\n            yield self.as_stdlib_summary(", "        exiting = self.contexts and self.contexts[-1].is_exiting\n        if not exiting:\n            yield self.as_stdlib_summary(")
T("fmt13-twin-early-return", "C19", TY, "        if not (self.contexts and self.contexts[-1].is_exiting):\n            yield self.as_stdlib_summary(capture_locals=capture_locals)", "        if self.contexts and self.contexts[-1].is_exiting:\n            return\n        yield self.as_stdlib_summary(capture_locals=capture_locals)")
T("fmt13-twin-guarded-loop", "C19", TY, "        for context in self.contexts:\n            yield from context._frame_summaries(\n                self, show_hidden_frames, capture_locals\n            )\n", "        if self.contexts:\n            for context in self.contexts:\n                yield from context._frame_summaries(\n                    self, show_hidden_frames, capture_locals\n                )\n")
T("fmt13-twin-not-hidden-nest", "C19", TY, "            if frame.hide and not show_hidden_frames:\n                continue\n            if show_contexts:\n                yield from frame.as_stdlib_summary_with_contexts(\n                    show_hidden_frames=show_hidden_frames, capture_locals=capture_locals\n                )\n            else:\n                yield frame.as_stdlib_summary(capture_locals=capture_locals)",
  "            if show_hidden_frames or not frame.hide:\n                if not show_contexts:\n                    yield frame.as_stdlib_summary(capture_locals=capture_locals)\n                else:\n                    yield from frame.as_stdlib_summary_with_contexts(\n                        show_hidden_frames=show_hidden_frames, capture_locals=capture_locals\n                    )")
T("fmt13-twin-entry-local", "C19", TY, "            else:\n                yield frame.as_stdlib_summary(capture_locals=capture_locals)", "            else:\n                entry = frame.as_stdlib_summary(capture_locals=capture_locals)\n                yield entry")

# ---------------------------------------------------------------- GLUE-9 / GLUE-10
M("glue9-outermost-without-glue", "C17", EX, "    assert current_options.with_contexts is not None\n    _glue.add_glue_as_needed()\n", "    assert current_options.with_contexts is not None\n", ["GLUE-9"], accept_analysis_error=True)
T("glue9-twin-callers-install", "C17", EX, "    assert current_options.with_contexts is not None\n    _glue.add_glue_as_needed()\n", "    assert current_options.with_contexts is not None\n", extra=[("    it = extract_iter(stackitem, errors)", "    _glue.add_glue_as_needed()\n    it = extract_iter(stackitem, errors)"), ("            return next(extract_iter(stackitem, errors))", "            _glue.add_glue_as_needed()\n            return next(extract_iter(stackitem, errors))")])
M("glue1-conditional-pending-pop", "C17", GL, "    builtin_fn = builtin_glue_pending.pop(module_name, None)\n    try:\n        module_fn = sys.modules", "    try:\n        module_fn = sys.modules",
  ["GLUE-1"], accept_analysis_error=True, extra=[("        if module_fn is not None:\n            module_fn()\n        elif builtin_fn is not None:\n            builtin_fn()", "        glue_fn = module_fn or builtin_glue_pending.pop(module_name, None)\n        if glue_fn is not None:\n            glue_fn()")])
M("glue10-name-memo", "C17", GL, "        for module_name in module_names:\n            install_glue_for_module(module_name)\n", "        for module_name in module_names:\n            if module_name in _seen_names:\n                continue\n            _seen_names.add(module_name)\n            install_glue_for_module(module_name)\n", "GLUE-10", extra=[("glue_lock = threading.Lock()\n", "glue_lock = threading.Lock()\n_seen_names: set = set()\n")])

# ---------------------------------------------------------------- ENG-5 / normaliser
M("eng5-yield-before-elaborate", "C16", EX, "            replacement = PRUNE\n\n        yield frame\n", "            replacement = PRUNE\n", ["ENG-5"], accept_analysis_error=True, extra=[("        # Elaborate the frame, see if we should redirect our attention\n", "        yield frame\n        # Elaborate the frame, see if we should redirect our attention\n")])

# ---------------------------------------------------------------- NAME-1 / JOIN-1 loop form
M("name1-exit-by-name", "C01", LL, "    ret = [\n        replace(\n            with_block_info[block.handler],\n            obj=frame_details.stack[block.level - 1].__self__,  # type: ignore\n        )\n        for block in with_blocks\n    ]\n",
  "    ret = []\n    for block in with_blocks:\n        meth = frame_details.stack[block.level - 1]\n        if meth.__name__ not in (\"__exit__\", \"__aexit__\"):\n            raise RuntimeError(\"not an exit method\")\n        ret.append(replace(with_block_info[block.handler], obj=meth.__self__))\n", "NAME-1")
T("join1-twin-loop-form", "C01", LL, "    ret = [\n        replace(\n            with_block_info[block.handler],\n            obj=frame_details.stack[block.level - 1].__self__,  # type: ignore\n        )\n        for block in with_blocks\n    ]\n",
  "    ret = []\n    for block in with_blocks:\n        meth = frame_details.stack[block.level - 1]\n        ret.append(replace(with_block_info[block.handler], obj=meth.__self__))\n")
M("join1-loop-wrong-slot", "C01", LL, "    ret = [\n        replace(\n            with_block_info[block.handler],\n            obj=frame_details.stack[block.level - 1].__self__,  # type: ignore\n        )\n        for block in with_blocks\n    ]\n",
  "    ret = []\n    for block in with_blocks:\n        meth = frame_details.stack[block.level]\n        ret.append(replace(with_block_info[block.handler], obj=meth.__self__))\n", "JOIN-1")

# ---------------------------------------------------------------- MODE-4
M("mode4-provisional-false", "C02", LL, "        _can_use_trickery = sys.implementation.name == \"cpython\" or (", "        _can_use_trickery = False\n        _supported = sys.implementation.name == \"cpython\" or (", ["MODE-4"], accept_analysis_error=True,
  extra=[("        if _can_use_trickery:\n            from contextlib import contextmanager", "        if _supported:\n            from contextlib import contextmanager"), ("                traceback.print_exc()\n                _can_use_trickery = False\n", "                traceback.print_exc()\n            else:\n                _can_use_trickery = True\n")])

# ---------------------------------------------------------------- SLC-6
M("slc6-walk-ends-at-dead-greenlet", "C04", GL, "        while greenlet is not None:\n            while current is not None:\n                this_thread_frames.append(current)\n                current = current.f_back\n            greenlet = greenlet.parent\n            if greenlet is not None:\n                current = greenlet.gr_frame\n",
  "        while current is not None:\n            this_thread_frames.append(current)\n            current = current.f_back\n            if current is None and greenlet.parent is not None:\n                greenlet = greenlet.parent\n                current = greenlet.gr_frame\n", "SLC-6")

# ---------------------------------------------------------------- GLOB-1
_GC_OLD = "    with_block_info = analyze_with_blocks(frame.f_code)\n    frame_details = inspect_frame(frame)\n"
M("glob1-gc-paused-no-finally", "C06", LL, _GC_OLD, "    with_block_info = analyze_with_blocks(frame.f_code)\n    gc.disable()\n    frame_details = inspect_frame(frame)\n    gc.enable()\n", "GLOB-1")
T("glob1-twin-gc-paused-finally", "C06", LL, _GC_OLD, "    with_block_info = analyze_with_blocks(frame.f_code)\n    _was = gc.isenabled()\n    gc.disable()\n    try:\n        frame_details = inspect_frame(frame)\n    finally:\n        if _was:\n            gc.enable()\n", accept_analysis_error=True)

# ---------------------------------------------------------------- OPC-9
M("opc9-unpack-ex-swapped", "C08", LL, "                before = [next_target() for _ in range(insn.argval & 0xFF)]\n                rest = next_target()\n                after = [next_target() for _ in range(insn.argval >> 8)]", "                before = [next_target() for _ in range(insn.argval >> 8)]\n                rest = next_target()\n                after = [next_target() for _ in range(insn.argval & 0xFF)]", "OPC-9")
T("opc9-twin-mod-div", "C08", LL, "                before = [next_target() for _ in range(insn.argval & 0xFF)]\n                rest = next_target()\n                after = [next_target() for _ in range(insn.argval >> 8)]", "                n_after, n_before = divmod(insn.argval, 256)\n                before = [next_target() for _ in range(n_before)]\n                rest = next_target()\n                after = [next_target() for _ in range(n_after)]")

# ---------------------------------------------------------------- OPC-10
M("opc10-push-before-queue", "C08", LL, "        if code[offs] in dis.hasjrel:\n            todo.append((offs + 2 + arg * jmul, stack[:]))\n", "        if code[offs] in dis.hasjrel and code[offs] in (op[\"SETUP_FINALLY\"], op[\"SETUP_WITH\"], op[\"SETUP_ASYNC_WITH\"]):\n            stack.append(offs + 2 + arg * jmul)\n        if code[offs] in dis.hasjrel:\n            todo.append((offs + 2 + arg * jmul, stack[:]))\n", ["OPC-10"], accept_analysis_error=True)

# ---------------------------------------------------------------- TRUTH-1
M("truth1-elaborate-or-prune", "C10", "_customization.py", "            replacement = elaborate(frame, next_inner)\n            if replacement is not None:  # pragma: no branch\n                return replacement\n        return PRUNE if prune else None", "            return elaborate(frame, next_inner) or (PRUNE if prune else None)\n        return PRUNE if prune else None", "TRUTH-1")
M("truth1-engine-if-replacement", "C10", EX, "        if replacement is None:\n            continue\n", "        if not replacement and replacement != ():\n            continue\n", ["TRUTH-1"], accept_analysis_error=True)

# ---------------------------------------------------------------- REG-8
M("reg8-register-only-if-options", "C12", "_customization.py", "    @elaborate_frame.register(target, *inner_names)\n    def customize_it(frame: Frame, next_inner: object) -> Any:", "    if not (hide or hide_line or prune or elaborate):\n        return target\n\n    @elaborate_frame.register(target, *inner_names)\n    def customize_it(frame: Frame, next_inner: object) -> Any:", "REG-8")

# ---------------------------------------------------------------- FMT-14 / FMT-15
M("fmt15-leaf-marker-unconditional", "C18", TY, "        start_leaf = \"+ \" if opts.ascii_only else \"╚ \"\n", "        start_leaf = \"╚ \"\n", ["FMT-15", "FMT-1"])
M("fmt14-memo-without-hidden", "C18", TY, "    def _format(self, opts: FormatOptions) -> List[str]:\n        start_context = \". \" if opts.ascii_only else \"├ \"\n", "    def _format(self, opts: FormatOptions) -> List[str]:\n        self.__dict__.setdefault(\"_memo\", {})\n        self._memo[(opts.ascii_only, opts.show_contexts)] = True\n        start_context = \". \" if opts.ascii_only else \"├ \"\n", "FMT-14")

# ---------------------------------------------------------------- TRIO / GRN / ENG-6 (C03, C14, C15)
M("trio1-children-filtered", "C14", GL, "            for child_task in context.obj.child_tasks\n        ]", "            for child_task in context.obj.child_tasks\n            if child_task.coro is not None\n        ]", "TRIO-1")
M("trio1-children-not-for-task", "C14", GL, "            _extract.extract_child(child_task, for_task=True)\n            for child_task in context.obj.child_tasks", "            _extract.extract_child(child_task, for_task=False)\n            for child_task in context.obj.child_tasks", "TRIO-1")
M("trio2-runner-strict", "C14", GL, "                        runner := value.get(\"runner\")", "                        runner := value[\"runner\"]", "TRIO-2")
M("grn1-dead-check-after-foreign", "C15", GL, "            if not glet:  # dead or not started\n                return []\n            # otherwise a None frame means it's running\n            if glet is not greenlet_getcurrent():\n                raise RuntimeError(\n                    \"Can't dump the stack of a greenlet running in another thread\"\n                )\n",
  "            if glet is not greenlet_getcurrent():\n                raise RuntimeError(\n                    \"Can't dump the stack of a greenlet running in another thread\"\n                )\n            if not glet:  # dead or not started\n                return []\n", "GRN-1")
M("grn1-no-foreign-check", "C15", GL, "            if glet is not greenlet_getcurrent():\n                raise RuntimeError(\n                    \"Can't dump the stack of a greenlet running in another thread\"\n                )\n", "", "GRN-1")
T("grn1-twin-early-return", "C15", GL, "        inner_frame = glet.gr_frame\n        outer_frame = None\n        if inner_frame is None:\n            if not glet:  # dead or not started\n                return []\n", "        inner_frame = glet.gr_frame\n        outer_frame = None\n        if inner_frame is None:\n            if bool(glet) is False:  # dead or not started\n                return []\n", accept_analysis_error=True)
M("eng6-contexts-block-continues", "C03", EX, "            except Exception as ex:  # pragma: no cover\n                save_errors.append(ex)\n            else:\n                for context in frame.contexts:", "            except Exception as ex:  # pragma: no cover\n                save_errors.append(ex)\n                continue\n            else:\n                for context in frame.contexts:", ["ENG-6"], accept_analysis_error=True)
M("slc4-c03-order-swapped", "C03", GL, "        return (gen.gi_frame, gen.gi_yieldfrom)", "        return (gen.gi_yieldfrom, gen.gi_frame)", "SLC-4")

# ---------------------------------------------------------------- FMT-18
M("fmt18-child-indicator-negated", "C18", "_types.py", "                    elif line.startswith(child_context_indicator):", "                    elif not line.startswith(child_context_indicator):", "FMT-18")
M("fmt18-heading-last-line", "C18", "_types.py", "                    sublines[0] = f\"{child.root!r}\\n\"", "                    sublines[-1] = f\"{child.root!r}\\n\"", "FMT-18")

# ---------------------------------------------------------------- OPC-3c
M("opc3c-extended-arg-any-with", "C08", LL, "            while is_async and insns[idx + skip_insns - 5].opname == \"EXTENDED_ARG\":", "            while insns[idx + skip_insns - 5].opname == \"EXTENDED_ARG\":", "OPC-3c")
M("opc3c-extended-arg-wrong-place", "C08", LL, "            while is_async and insns[idx + skip_insns - 5].opname == \"EXTENDED_ARG\":", "            while is_async and insns[idx + skip_insns - 4].opname == \"EXTENDED_ARG\":", ["OPC-3c", "OPC-3b"], accept_analysis_error=True)
M("opc3c-cleanup-throw-not-skipped", "C08", LL, "                    and insns[idx + skip_insns].opname == \"CLEANUP_THROW\"", "                    and insns[idx + skip_insns].opname == \"CLEANUP_THROW_\"", ["OPC-3c", "OPC-3b", "VER-1"], accept_analysis_error=True)

# ---------------------------------------------------------------- SNAP-8
M("snap8-no-upper-bound", "C07", "_lowlevel_cpython_311.py", "                assert stack_start_offset <= stack_top_offset <= end_offset\n", "                assert stack_start_offset <= stack_top_offset\n", "SNAP-8")
M("snap8-bound-deleted", "C07", "_lowlevel_cpython_311.py", "                assert stack_start_offset <= stack_top_offset <= end_offset\n", "                pass\n", "SNAP-8")
T("snap8-twin-split-bound", "C07", "_lowlevel_cpython_311.py", "                assert stack_start_offset <= stack_top_offset <= end_offset\n", "                assert stack_start_offset <= stack_top_offset\n                assert end_offset >= stack_top_offset\n")

# ---------------------------------------------------------------- WF-1 / WF-2 (code the 3.12 suite never imports)
L310 = "_lowlevel_cpython_310.py"
M("wf2-310-no-return", "C01", L310, "    details.stack = [object_from_id_map.get(value) for value in stack]\n\n    return details\n", "    details.stack = [object_from_id_map.get(value) for value in stack]\n", "WF-2")
M("wf1-310-details-unbound", "C01", L310, "    details = FrameDetails()\n", "", "WF-1")
M("wf1-310-co-unbound", "C01", L310, "    co = frame.f_code\n", "", "WF-1")
M("wf1-lowlevel-helper-renamed", "C02", LL, "def _parse_exception_table(", "def _parse_exception_table_(", ["WF-1", "VER-3"], accept_analysis_error=True)
M("wf3-310-finallyblock-keyword", "C01", L310, "                FrameDetails.FinallyBlock(\n                    handler=block.b_handler * offset_mult,", "                FrameDetails.FinallyBlock(\n                    handler_offset=block.b_handler * offset_mult,", ["WF-3", "FORM-1", "FORM-2"], accept_analysis_error=True)
M("wf3-lowlevel-describe-extra-arg", "C08", LL, "            store_to = describe_assignment_target(insns, idx + 1)\n", "            store_to = describe_assignment_target(insns, idx + 1, insn)\n", ["WF-3", "OPC-3"], accept_analysis_error=True)
M("wf3-extract-missing-arg", "C05", EX, "    it = extract_iter(stackitem, errors)\n", "    it = extract_iter(stackitem)\n", ["WF-3"], accept_analysis_error=True)

# ---------------------------------------------------------------- OPC-6 (3.9 / 3.10 backward walk: code the 3.12 suite never enters)
M("opc6-no-step-back", "C02", LL, "        # Backtrack from CALL_FUNCTION to the preceding POP_BLOCK\n        offs -= 8\n", "        # Backtrack from CALL_FUNCTION to the preceding POP_BLOCK\n", "OPC-6")
M("opc6-extended-arg-skip-inverted", "C02", LL, "        offs -= 8\n        while offs and code[offs] == op[\"EXTENDED_ARG\"]:", "        offs -= 8\n        while offs and code[offs] != op[\"EXTENDED_ARG\"]:", "OPC-6")
M("opc6-rot-two-skip-step", "C02", LL, "        if offs and code[offs] == op[\"ROT_TWO\"]:\n            offs -= 2\n    else:", "        if offs and code[offs] == op[\"ROT_TWO\"]:\n            offs -= 3\n    else:", "OPC-6")

# ---------------------------------------------------------------- OPC-13
M("opc13-310-test-inverted", "C02", LL, "        if code[offs] == op[\"WITH_EXCEPT_START\"]:\n            return ExitingContext(is_async=is_async, cleanup_offset=offs)\n        if offs < 8", "        if code[offs] != op[\"WITH_EXCEPT_START\"]:\n            return ExitingContext(is_async=is_async, cleanup_offset=offs)\n        if offs < 8", "OPC-13")
M("opc13-310-no-return", "C02", LL, "        if code[offs] == op[\"WITH_EXCEPT_START\"]:\n            return ExitingContext(is_async=is_async, cleanup_offset=offs)\n        if offs < 8", "        if code[offs] == op[\"WITH_EXCEPT_START\"]:\n            pass\n        if offs < 8", "OPC-13")
M("opc13-311-no-push-exc-info-step", "C02", LL, "            offs -= 2  # back up to PUSH_EXC_INFO\n", "", "OPC-13")

# ---------------------------------------------------------------- OPC-12 (block walk of 3.9 / 3.10)
M("opc12-seen-inverted", "C02", LL, "        if offs in seen:\n            continue\n", "        if offs not in seen:\n            continue\n", "OPC-12")
M("opc12-seen-not-marked", "C02", LL, "        seen.add(offs)\n", "", ["OPC-12"])
M("opc12-jabs-not-queued", "C02", LL, "            todo.append((arg * jmul, stack[:]))\n", "            pass\n", ["OPC-12", "OPC-8"], accept_analysis_error=True)
M("opc12-jrel-target-minus", "C02", LL, "            todo.append((offs + 2 + arg * jmul, stack[:]))\n", "            todo.append((offs + 2 - arg * jmul, stack[:]))\n", ["OPC-12", "OPC-8"])
M("opc12-jrel-stack-aliased", "C02", LL, "            todo.append((offs + 2 + arg * jmul, stack[:]))\n", "            todo.append((offs + 2 + arg * jmul, stack))\n", ["OPC-12"])
M("opc12-push-wrong-address", "C02", LL, "                stack.append(offs + 2 + arg * jmul)\n", "                stack.append(offs + arg * jmul)\n", ["OPC-12", "OPC-8"])
M("opc12-popblock-inverted", "C02", LL, "        if code[offs] == op[\"POP_BLOCK\"]:\n            if offs == pop_block_offs:", "        if code[offs] != op[\"POP_BLOCK\"]:\n            if offs == pop_block_offs:", ["OPC-12", "OPC-5"])
M("opc12-target-inverted", "C02", LL, "            if offs == pop_block_offs:\n", "            if offs != pop_block_offs:\n", ["OPC-12"])
M("opc12-outermost-handler", "C02", LL, "                return ExitingContext(is_async=is_async, cleanup_offset=stack[-1])\n", "                return ExitingContext(is_async=is_async, cleanup_offset=stack[0])\n", ["OPC-12"])
M("opc12-no-pop", "C02", LL, "                return ExitingContext(is_async=is_async, cleanup_offset=stack[-1])\n            stack.pop()\n", "                return ExitingContext(is_async=is_async, cleanup_offset=stack[-1])\n", ["OPC-12"])
M("opc12-no-fallthrough", "C02", LL, "            todo.append((offs + 2, stack))\n", "            pass\n", ["OPC-12"])
M("opc12-fallthrough-after-uncond", "C02", LL, "        if code[offs] not in (\n            op[\"JUMP_FORWARD\"],", "        if code[offs] in (\n            op[\"JUMP_FORWARD\"],", ["OPC-12"])
M("opc12-arg-wrong-byte", "C02", LL, "        arg = code[offs + 1]\n        while code[offs] == op[\"EXTENDED_ARG\"]:", "        arg = code[offs + 2]\n        while code[offs] == op[\"EXTENDED_ARG\"]:", ["OPC-12"])
T("opc12-twin-copy-method", "C02", LL, "            todo.append((offs + 2 + arg * jmul, stack[:]))\n", "            todo.append((offs + 2 + arg * jmul, stack.copy()))\n")
T("opc12-twin-target-local", "C02", LL, "            todo.append((offs + 2 + arg * jmul, stack[:]))\n", "            rel_target = arg * jmul + 2 + offs\n            todo.append((rel_target, list(stack)))\n")
T("opc12-twin-fallthrough-copy", "C02", LL, "            todo.append((offs + 2, stack))\n", "            todo.append((2 + offs, stack[:]))\n")

# ---------------------------------------------------------------- OPC-14
M("opc14-next-not-checked", "C02", LL, "        if code[offs] == op[\"YIELD_FROM\"] or (\n            offs + 2 < len(code) and code[offs + 2] == op[\"YIELD_FROM\"]\n        ):", "        if code[offs] == op[\"YIELD_FROM\"]:", ["OPC-14", "OPC-5"], accept_analysis_error=True)
M("opc14-is-async-false", "C02", LL, "            # Async calls have lasti pointing at YIELD_FROM or LOAD_CONST\n            is_async = True\n", "            # Async calls have lasti pointing at YIELD_FROM or LOAD_CONST\n            is_async = False\n", ["OPC-14"])
M("opc14-step-inverted", "C02", LL, "            if code[offs] == op[\"YIELD_FROM\"]:\n                # If lasti points", "            if code[offs] != op[\"YIELD_FROM\"]:\n                # If lasti points", ["OPC-14", "OPC-5"])

# ---------------------------------------------------------------- RUN-1 (3.9 / 3.10 reader)
M("run1-stacktop-test-inverted", "C07", L310, "    if frame_raw.f_stacktop == 0:\n        # Frames that are currently executing have a NULL stacktop", "    if frame_raw.f_stacktop != 0:\n        # Frames that are currently executing have a NULL stacktop", "RUN-1")
M("run1-materialise-inverted", "C07", L310, "    if frame_raw.f_stacktop == 0:\n        if details.blocks:", "    if frame_raw.f_stacktop != 0:\n        if details.blocks:", "RUN-1")
M("run1-max-when-empty", "C07", L310, "        if details.blocks:\n            stack_validity_limit = max(", "        if not details.blocks:\n            stack_validity_limit = max(", ["RUN-1", "FORM-2"])
M("run1-unbounded-top", "C07", L310, "        assert stack_start_offset <= stack_top_offset <= end_offset\n", "        assert stack_start_offset <= stack_top_offset\n", "RUN-1")


# ---------------------------------------------------------------- ENG-8 / ESC-4 / REG-9 / SLC-1 yield clause (round 7 follow-ups)
M("eng8-next-inner-last", "C10", EX, "        next_inner = to_elaborate[0][0] if to_elaborate else None\n", "        next_inner = to_elaborate[-1][0] if to_elaborate else None\n", "ENG-8")
M("eng8-next-inner-only-frames", "C10", EX, "        next_inner = to_elaborate[0][0] if to_elaborate else None\n",
  "        next_inner = to_elaborate[0][0] if to_elaborate and isinstance(to_elaborate[0][0], Frame) else None\n", "ENG-8")
T("eng8-twin-explicit-if", "C10", EX, "        next_inner = to_elaborate[0][0] if to_elaborate else None\n",
  "        next_inner = None\n        if len(to_elaborate) > 0:\n            next_inner, _ = to_elaborate[0]\n")
M("grn3-await-always-coro", "C15", "_glue.py", "            # await_ that's not suspended at greenlet.switch() requires\n            # no special handling\n            return None\n",
  "            # await_ that's not suspended at greenlet.switch() requires\n            # no special handling\n            pass\n", "GRN-3")
M("grn3-switch-eq", "C15", "_glue.py", "            and next_inner.pyframe.f_code.co_name != \"switch\"\n", "            and next_inner.pyframe.f_code.co_name == \"switch\"\n", "GRN-3")
T("grn3-twin-nested-ifs", "C15", "_glue.py", "        if (\n            isinstance(next_inner, Frame)\n            and next_inner.pyframe.f_code.co_name != \"switch\"\n        ):\n",
  "        suspended_in_switch = not isinstance(next_inner, Frame) or next_inner.pyframe.f_code.co_name == \"switch\"\n        if not suspended_in_switch:\n")
M("grn4-shim-prefers-orig-coro", "C15", "_glue.py", "        if gr_frame is not None:  # pragma: no branch\n", "        if gr_frame is not None and orig_coro is None:  # pragma: no branch\n", "GRN-4")
M("grn4-trampoline-not-hidden-when-inner", "C15", "_glue.py", "        def elaborate_trampoline(frame: Frame, next_inner: object) -> object:\n            frame.hide = True\n            if isinstance(next_inner, Frame):\n",
  "        def elaborate_trampoline(frame: Frame, next_inner: object) -> object:\n            frame.hide = not isinstance(next_inner, Frame)\n            if isinstance(next_inner, Frame):\n", "GRN-4")
T("grn4-twin-shim-early-returns", "C15", "_glue.py", "        if gr_frame is not None:  # pragma: no branch\n            # Yep; switch to walking the greenlet stack, since orig_coro\n            # will look \"running\" but it's not on any thread's stack.\n            return child_greenlet\n        elif orig_coro is not None:  # pragma: no cover\n",
  "        if gr_frame is not None:  # pragma: no branch\n            return child_greenlet\n        if orig_coro is not None:  # pragma: no cover\n")
