"""Recorder: obligations, findings, known findings, evidence, exit codes."""
from __future__ import annotations

import ast
import hashlib
import json
import os
import time
from typing import Any, Dict, List, Optional

from .model import AnalysisError, Mod, norm

VERIF = os.path.dirname(os.path.dirname(os.path.abspath(__file__)))
KNOWN = os.path.join(VERIF, "known_findings.json")


class Finding:
    def __init__(self, rule: str, where: str, qualname: str, construct: str, message: str):
        self.rule = rule
        self.where = where
        self.qualname = qualname
        self.construct = construct
        self.message = message

    def key(self) -> Dict[str, str]:
        return {"rule": self.rule, "qualname": self.qualname, "construct": self.construct}

    def as_dict(self) -> Dict[str, str]:
        d = self.key()
        d.update(where=self.where, message=self.message)
        return d

    def text(self) -> str:
        return f"{self.where}: [{self.rule}] {self.qualname}: {self.message} :: {self.construct}"


class Recorder:
    """Collects what a property check analysed and what it found."""

    def __init__(self, prop: str):
        self.prop = prop
        self.obligations: List[Dict[str, Any]] = []
        self.findings: List[Finding] = []
        self.rules_run: List[str] = []
        self.functions: set = set()
        self.modules: set = set()
        self.notes: List[str] = []
        self.counts: Dict[str, int] = {}
        self.selfcheck: List[str] = []
        self.errors: List[str] = []

    # an obligation that was discharged
    def ok(self, rule: str, instance: str, detail: str = "") -> None:
        self.obligations.append({"rule": rule, "instance": instance, "ok": True, "detail": detail})
        self.counts[rule] = self.counts.get(rule, 0) + 1

    def fail(self, rule: str, mod: Mod, node: Optional[ast.AST], message: str,
             qualname: Optional[str] = None, construct: Optional[str] = None) -> None:
        if qualname is None:
            qualname = f"{mod.name}." + (mod.qualname_of(node) if node is not None else "")
        if construct is None:
            construct = norm(node) if node is not None else ""
        if len(construct) > 300:
            construct = construct[:300] + "..."
        where = mod.where(node) if node is not None else f"stackscope/{mod.name}.py"
        self.findings.append(Finding(rule, where, qualname, construct, message))
        self.obligations.append({"rule": rule, "instance": f"{qualname}: {construct[:120]}", "ok": False, "detail": message})
        self.counts[rule] = self.counts.get(rule, 0) + 1

    def saw(self, mod: Mod, qualname: str = "") -> None:
        self.modules.add(mod.name)
        if qualname:
            self.functions.add(f"{mod.name}.{qualname}")

    def expect_min(self, rule: str, n: int) -> None:
        """fail closed: a rule matching fewer instances than were confirmed by hand
        on the reference tree must not pass vacuously"""
        got = self.counts.get(rule, 0)
        if got < n:
            raise AnalysisError(
                f"rule {rule} matched {got} instance(s), fewer than the {n} confirmed by hand: "
                "the code it anchors on changed shape; the rule cannot decide"
            )

    def positive_example(self, rule: str, fired: bool) -> None:
        """every zero-expected rule carries an embedded example that must fire"""
        if not fired:
            raise AnalysisError(f"rule {rule}: embedded positive example did not fire (checker broken)")
        self.selfcheck.append(rule)

    def undecided(self, rule: str, msg: str) -> None:
        """the rule met a shape it cannot interpret: neither a pass nor a violation (exit 2 unless
        something else is a violation); never used when there is positive evidence of a violation"""
        self.errors.append(f"{rule}: cannot decide: {msg}")

    def note(self, s: str) -> None:
        self.notes.append(s)


def load_known() -> List[Dict[str, Any]]:
    if not os.path.exists(KNOWN):
        return []
    with open(KNOWN) as f:
        return json.load(f).get("findings", [])


def match_known(prop: str, f: Finding, known: List[Dict[str, Any]]) -> Optional[Dict[str, Any]]:
    for k in known:
        if k.get("status") != "open":
            continue  # 'fixed' entries suppress nothing
        if k.get("property") != prop and prop not in k.get("also_properties", []):
            continue
        if k["rule"] == f.rule and k["qualname"] == f.qualname and k["construct"] == f.construct:
            return k
    return None


def digest_files(paths: List[str]) -> str:
    h = hashlib.sha256()
    for p in sorted(paths):
        with open(p, "rb") as fh:
            h.update(p.encode())
            h.update(fh.read())
    return h.hexdigest()[:16]


def finish(rec: Recorder, tier: str, t0: float, explanation: str, assumptions: List[str],
           extra: Dict[str, Any], evidence_dir: str, write_evidence: bool = True) -> int:
    known = load_known()
    new: List[Finding] = []
    listed: List[Finding] = []
    for f in rec.findings:
        k = match_known(rec.prop, f, known)
        if k is not None:
            listed.append(f)
            print(f"KNOWN-FINDING: property={rec.prop} {k.get('id', '')} {k['what']} [{f.rule} at {f.where}]")
        else:
            new.append(f)
    obligations = len(rec.obligations)
    discharged = sum(1 for o in rec.obligations if o["ok"])
    samples = [f"{o['rule']}: {o['instance']}" + (f" -- {o['detail']}" if o["detail"] else "")
               for o in rec.obligations[:60]]
    cov: Dict[str, Any] = {
        "explanation": explanation,
        "obligations": obligations,
        "discharged": discharged,
        "rules": sorted(set(o["rule"] for o in rec.obligations)),
        "rule_instance_counts": rec.counts,
        "functions_analysed": sorted(rec.functions),
        "modules_analysed": sorted(rec.modules),
        "positive_examples_fired": rec.selfcheck,
        "samples": samples,
        "known_findings_matched": [f.as_dict() for f in listed],
        "new_findings": [f.as_dict() for f in new],
        "notes": rec.notes,
        "exhaustive": True,
    }
    cov.update(extra)
    ev = {
        "property_id": rec.prop,
        "tier": tier,
        "seed": int(os.environ.get("VERIF_SEED", "0") or 0),
        "level": "other",
        "coverage": cov,
        "assumptions": assumptions,
        "wall_s": round(time.time() - t0, 3),
        "violations": len(new),
    }
    if write_evidence:
        os.makedirs(evidence_dir, exist_ok=True)
        with open(os.path.join(evidence_dir, f"{rec.prop}.json"), "w") as fh:
            json.dump(ev, fh, indent=1, sort_keys=True)
            fh.write("\n")
    print(f"[{rec.prop}] tier={tier} rules={len(cov['rules'])} obligations={obligations} "
          f"discharged={discharged} known={len(listed)} new={len(new)} wall={ev['wall_s']}s")
    if new:
        vdir = os.path.join(evidence_dir, "violations")
        by_rule: Dict[str, List[Finding]] = {}
        for f in new:
            by_rule.setdefault(f.rule, []).append(f)
        for rule, fs in by_rule.items():
            path = os.path.join(vdir, f"{rec.prop}.{rule}.json")
            if write_evidence:
                os.makedirs(vdir, exist_ok=True)
                with open(path, "w") as fh:
                    json.dump({"property": rec.prop, "rule": rule,
                               "findings": [f.as_dict() for f in fs]}, fh, indent=1)
            for f in fs:
                print("  " + f.text())
            print(f"VIOLATION property={rec.prop} replay={path}")
        return 1
    return 0
