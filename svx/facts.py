"""Engine FACTS: the other side of every reader/writer rule.

Facts are derived from artefacts that are NOT stackscope: the CPython
interpreters under /root/.pyenv/versions (opcode tables, builtins, compiler
output for a generated corpus: compile + dis only), their C headers, their
contextlib.py.  A snapshot is committed under /verif/facts/facts.json;
quick reads it, thorough re-derives and insists on equality.
"""
from __future__ import annotations

import ast
import json
import os
import re
import subprocess
from typing import Any, Dict, List, Tuple

from .model import AnalysisError

VERIF = os.path.dirname(os.path.dirname(os.path.abspath(__file__)))
SNAPSHOT = os.path.join(VERIF, "facts", "facts.json")
PYENV = "/root/.pyenv/versions"
SUPPORTED = {"3.9": "3.9.18", "3.10": "3.10.13", "3.11": "3.11.7", "3.12": "3.12.1"}
PROBE = os.path.join(os.path.dirname(os.path.abspath(__file__)), "facts_probe.py")


# ------------------------------------------------------------------ C headers
SIZES = {
    "int": (4, 4), "char": (1, 1), "bool": (1, 1), "signed char": (1, 1),
    "uint16_t": (2, 2), "unsigned short": (2, 2), "PyFrameState": (1, 1),
}


def _strip_comments(text: str) -> str:
    text = re.sub(r"/\*.*?\*/", "", text, flags=re.S)
    text = re.sub(r"//[^\n]*", "", text)
    return text


def _struct_body(text: str, opener: str) -> str:
    i = text.find(opener)
    if i < 0:
        raise AnalysisError(f"C header: '{opener}' not found")
    j = text.index("{", i)
    depth = 0
    for k in range(j, len(text)):
        if text[k] == "{":
            depth += 1
        elif text[k] == "}":
            depth -= 1
            if depth == 0:
                return text[j + 1:k]
    raise AnalysisError("C header: unbalanced braces")


def parse_struct(text: str, opener: str, macros: Dict[str, int], structs: Dict[str, Tuple[int, int]]) -> List[Dict[str, Any]]:
    """-> list of {name, ctype, cls, size, align, offset} with LP64 rules"""
    body = _strip_comments(_struct_body(text, opener))
    fields: List[Dict[str, Any]] = []
    for raw in body.split(";"):
        decl = " ".join(raw.split())
        if not decl:
            continue
        if decl == "PyObject_HEAD" or decl.startswith("PyObject_HEAD "):
            rest = decl[len("PyObject_HEAD"):].strip()
            fields.append({"name": "ob_refcnt", "ctype": "Py_ssize_t", "cls": "word", "size": 8, "align": 8})
            fields.append({"name": "ob_type", "ctype": "PyTypeObject *", "cls": "word", "size": 8, "align": 8})
            if not rest:
                continue
            decl = rest
        if decl.startswith("PyObject_VAR_HEAD"):
            rest = decl[len("PyObject_VAR_HEAD"):].strip()
            fields.append({"name": "ob_refcnt", "ctype": "Py_ssize_t", "cls": "word", "size": 8, "align": 8})
            fields.append({"name": "ob_type", "ctype": "PyTypeObject *", "cls": "word", "size": 8, "align": 8})
            fields.append({"name": "ob_size", "ctype": "Py_ssize_t", "cls": "word", "size": 8, "align": 8})
            if not rest:
                continue
            decl = rest
        m = re.match(r"^(.*?)([A-Za-z_][A-Za-z_0-9]*)\s*(\[\s*([A-Za-z_0-9]+)\s*\])?$", decl)
        if not m:
            raise AnalysisError(f"C header: cannot parse declaration '{decl}'")
        ctype, name, _, arr = m.group(1).strip(), m.group(2), m.group(3), m.group(4)
        count = 1
        if arr is not None:
            count = int(arr) if arr.isdigit() else macros.get(arr, None)
            if count is None:
                raise AnalysisError(f"C header: unknown array bound {arr}")
        if "*" in ctype:
            size, align, cls = 8, 8, "word"
        else:
            base = ctype.replace("struct ", "").strip()
            if base in SIZES:
                size, align = SIZES[base]
                cls = {4: "int", 1: "byte", 2: "u16"}[size]
            elif base in structs:
                size, align = structs[base]
                cls = "struct"
            else:
                raise AnalysisError(f"C header: unknown type '{ctype}' for field {name}")
        fields.append({"name": name, "ctype": ctype, "cls": cls, "size": size * count, "align": align, "count": count})
    off = 0
    for f in fields:
        a = f["align"]
        off = (off + a - 1) // a * a
        f["offset"] = off
        off += f["size"]
    return fields


def header_facts() -> Dict[str, Any]:
    out: Dict[str, Any] = {}
    for short in ("3.11", "3.12"):
        full = SUPPORTED[short]
        p = f"{PYENV}/{full}/include/python{short}/internal/pycore_frame.h"
        text = open(p).read()
        iframe = parse_struct(text, "typedef struct _PyInterpreterFrame", {}, {})
        fobj = parse_struct(text, "struct _frame {", {}, {})
        enum_body = _strip_comments(_struct_body(text, "enum _frameowner"))
        enum = {}
        for part in enum_body.split(","):
            part = part.strip()
            if part:
                k, v = part.split("=")
                enum[k.strip()] = int(v)
        out[short] = {"header": p, "iframe": iframe, "frameobject": fobj, "frameowner": enum}
    for short in ("3.9", "3.10"):
        full = SUPPORTED[short]
        inc = f"{PYENV}/{full}/include/python{short}"
        ftext = open(f"{inc}/cpython/frameobject.h").read()
        ctext = open(f"{inc}/cpython/code.h").read()
        otext = open(f"{inc}/opcode.h").read()
        m = re.search(r"#define\s+CO_MAXBLOCKS\s+(\d+)", ctext)
        m2 = re.search(r"#define\s+EXCEPT_HANDLER\s+(\d+)", otext)
        if not m or not m2:
            raise AnalysisError("C header: CO_MAXBLOCKS / EXCEPT_HANDLER not found")
        macros = {"CO_MAXBLOCKS": int(m.group(1))}
        tb = parse_struct(ftext, "typedef struct {", {}, {})
        if [f["name"] for f in tb] != ["b_type", "b_handler", "b_level"]:
            # make sure we parsed PyTryBlock and not something else
            raise AnalysisError(f"C header {short}: first anonymous struct is not PyTryBlock: {tb}")
        tb_size = tb[-1]["offset"] + tb[-1]["size"]
        fobj = parse_struct(ftext, "struct _frame {", macros, {"PyTryBlock": (tb_size, 4)})
        out[short] = {"header": f"{inc}/cpython/frameobject.h", "frameobject": fobj, "PyTryBlock": tb,
                      "CO_MAXBLOCKS": macros["CO_MAXBLOCKS"], "EXCEPT_HANDLER": int(m2.group(1))}
    return out


# ------------------------------------------------------------------ contextlib
def contextlib_facts() -> Dict[str, Any]:
    out: Dict[str, Any] = {}
    for short, full in SUPPORTED.items():
        p = f"{PYENV}/{full}/lib/python{short}/contextlib.py"
        tree = ast.parse(open(p).read())
        classes = {n.name: n for n in tree.body if isinstance(n, ast.ClassDef)}
        f: Dict[str, Any] = {"path": p}
        need = ["_GeneratorContextManagerBase", "_BaseExitStack", "ExitStack", "AsyncExitStack"]
        for c in need:
            if c not in classes:
                raise AnalysisError(f"{p}: class {c} missing")
        def methods(c: str) -> Dict[str, ast.AST]:
            return {n.name: n for n in classes[c].body if isinstance(n, (ast.FunctionDef, ast.AsyncFunctionDef))}
        f["exitstack_methods"] = sorted(set(methods("_BaseExitStack")) | set(methods("ExitStack")))
        f["asyncexitstack_methods"] = sorted(set(methods("AsyncExitStack")))
        f["bases"] = {c: [ast.unparse(b) for b in classes[c].bases] for c in need}
        # attributes of GCM base set in __init__
        attrs = set()
        for n in ast.walk(methods("_GeneratorContextManagerBase")["__init__"]):
            if isinstance(n, ast.Attribute) and isinstance(n.ctx, ast.Store) and isinstance(n.value, ast.Name) and n.value.id == "self":
                attrs.add(n.attr)
        f["gcm_attrs"] = sorted(attrs)
        # exit-stack storage
        stores = set()
        for n in ast.walk(methods("_BaseExitStack")["__init__"]):
            if isinstance(n, ast.Attribute) and isinstance(n.ctx, ast.Store):
                stores.add(n.attr)
        f["exitstack_init_attrs"] = sorted(stores)
        # element order pushed onto _exit_callbacks
        order = None
        for n in ast.walk(methods("_BaseExitStack")["_push_exit_callback"]):
            if isinstance(n, ast.Call) and isinstance(n.func, ast.Attribute) and n.func.attr == "append" \
                    and ast.unparse(n.func.value) == "self._exit_callbacks":
                order = [ast.unparse(e) for e in n.args[0].elts]
        f["callback_tuple_order"] = order
        # callback wrappers: name of the inner function and its free variables
        wrappers = {}
        for cname, mname in (("_BaseExitStack", "_create_cb_wrapper"), ("AsyncExitStack", "_create_async_cb_wrapper")):
            m = methods(cname)[mname]
            inner = [n for n in m.body if isinstance(n, (ast.FunctionDef, ast.AsyncFunctionDef))]
            if len(inner) != 1:
                raise AnalysisError(f"{p}: {mname} shape changed")
            params = {a.arg for a in inner[0].args.args}
            outer_params = {a.arg for a in m.args.posonlyargs + m.args.args}
            if m.args.vararg:
                outer_params.add(m.args.vararg.arg)
            if m.args.kwarg:
                outer_params.add(m.args.kwarg.arg)
            free = sorted({n.id for n in ast.walk(inner[0]) if isinstance(n, ast.Name) and n.id in outer_params and n.id not in params})
            wrappers[mname] = {"inner_name": inner[0].name, "freevars": free, "is_async": isinstance(inner[0], ast.AsyncFunctionDef)}
        f["cb_wrappers"] = wrappers
        # methods that set __wrapped__ on the wrapper
        setters = []
        for cname in ("_BaseExitStack", "AsyncExitStack"):
            for mname, m in methods(cname).items():
                for n in ast.walk(m):
                    if isinstance(n, ast.Attribute) and n.attr == "__wrapped__" and isinstance(n.ctx, ast.Store):
                        setters.append(mname)
        f["wrapped_setters"] = sorted(setters)
        # exit wrappers are bound methods
        mt = []
        for cname, mname in (("_BaseExitStack", "_create_exit_wrapper"), ("AsyncExitStack", "_create_async_exit_wrapper")):
            m = methods(cname)[mname]
            ret = [n for n in ast.walk(m) if isinstance(n, ast.Return)]
            mt.append(ast.unparse(ret[0].value))
        f["exit_wrapper_returns"] = mt
        out[short] = f
    return out


# ------------------------------------------------------------------ interpreters
def _probe_one(short: str) -> Dict[str, Any]:
    full = SUPPORTED[short]
    exe = f"{PYENV}/{full}/bin/python3"
    if not os.path.exists(exe):
        raise AnalysisError(f"interpreter {exe} missing")
    env = {"PATH": "/usr/bin:/bin", "PYTHONHASHSEED": "0", "PYTHONWARNINGS": "ignore"}
    r = subprocess.run([exe, "-I", "-S", "-W", "ignore", PROBE], capture_output=True, text=True, env=env, timeout=300)
    if r.returncode != 0:
        raise AnalysisError(f"facts probe failed under {exe}: {r.stderr[-400:]}")
    return json.loads(r.stdout)


def interpreter_facts() -> Dict[str, Any]:
    """one probe process per interpreter, in parallel; memoised in /dev/shm by the digest of everything the
    result depends on (probe script, interpreter binaries) so that consecutive thorough checks do not redo it"""
    import concurrent.futures as cf
    import hashlib
    h = hashlib.sha256(open(PROBE, "rb").read())
    for short, full in SUPPORTED.items():
        st = os.stat(f"{PYENV}/{full}/bin/python3")
        h.update(f"{full}:{st.st_size}:{int(st.st_mtime)}".encode())
        st2 = os.stat(f"{PYENV}/{full}/lib/python{short}/contextlib.py")
        h.update(f"{st2.st_size}:{int(st2.st_mtime)}".encode())
    cache = f"/dev/shm/svx_facts_cache_{h.hexdigest()[:20]}.json"
    if os.environ.get("SVX_NO_FACT_CACHE") != "1" and os.path.exists(cache):
        try:
            with open(cache) as f:
                return json.load(f)
        except Exception:
            pass
    with cf.ThreadPoolExecutor(max_workers=4) as ex:
        res = list(ex.map(_probe_one, list(SUPPORTED)))
    out = dict(zip(list(SUPPORTED), res))
    try:
        tmp = cache + f".{os.getpid()}"
        with open(tmp, "w") as f:
            json.dump(out, f)
        os.replace(tmp, cache)
    except OSError:
        pass
    return out


def setup_facts(repo: str) -> Dict[str, Any]:
    """install_requires markers of the repository's setup.py (ast only)"""
    p = os.path.join(repo, "setup.py")
    reqs: List[str] = []
    if os.path.exists(p):
        tree = ast.parse(open(p).read())
        for n in ast.walk(tree):
            if isinstance(n, ast.keyword) and n.arg == "install_requires" and isinstance(n.value, (ast.List, ast.Tuple)):
                for e in n.value.elts:
                    if isinstance(e, ast.Constant) and isinstance(e.value, str):
                        reqs.append(e.value)
    return {"install_requires": reqs}


def derive() -> Dict[str, Any]:
    return {
        "supported": SUPPORTED,
        "interp": interpreter_facts(),
        "headers": header_facts(),
        "contextlib": contextlib_facts(),
    }


def _canon(d: Any) -> str:
    return json.dumps(d, sort_keys=True)


def load(tier: str) -> Dict[str, Any]:
    if not os.path.exists(SNAPSHOT):
        raise AnalysisError(f"fact snapshot {SNAPSHOT} missing")
    with open(SNAPSHOT) as f:
        snap = json.load(f)
    if tier == "thorough":
        fresh = derive()
        if _canon(fresh) != _canon(snap):
            diffs = [k for k in fresh if _canon(fresh[k]) != _canon(snap.get(k))]
            raise AnalysisError(f"fact snapshot disagrees with its artefacts in sections {diffs}; re-run `python -m svx facts --write` after reviewing")
        snap["_rederived"] = True
    return snap


def write_snapshot() -> None:
    d = derive()
    os.makedirs(os.path.dirname(SNAPSHOT), exist_ok=True)
    with open(SNAPSHOT, "w") as f:
        json.dump(d, f, indent=0, sort_keys=True)
        f.write("\n")


def digest() -> str:
    import hashlib
    with open(SNAPSHOT, "rb") as f:
        return hashlib.sha256(f.read()).hexdigest()[:16]
