"""Engine VER: partial evaluation over the finite set of supported interpreters.

For every statement and (short-circuit aware) sub-expression of a function or
module body, computes the set of supported versions under which it can be
reached, by evaluating `sys.version_info` / `sys.implementation.name` /
TYPE_CHECKING conditions exactly and leaving everything else unknown.
"""
from __future__ import annotations

import ast
from typing import Any, Dict, FrozenSet, List, Optional, Set

from .model import AnalysisError, Mod, norm

VSet = FrozenSet[str]


class Ver:
    def __init__(self, facts: Dict[str, Any]):
        self.facts = facts
        self.info = {v: tuple(facts["interp"][v]["version_info"]) for v in facts["supported"]}
        self.all: VSet = frozenset(self.info)
        self.opmap = {v: facts["interp"][v]["opmap"] for v in self.info}
        # names that can actually occur in bytecode / dis output (no pseudo-instructions)
        self.real = {v: set(facts["interp"][v]["real_opnames"]) for v in self.info}

    # ------------------------------------------------------------ conditions
    def _vi_compare(self, node: ast.Compare, v: str) -> Optional[bool]:
        operands = [node.left] + list(node.comparators)
        vals: List[Any] = []
        any_vi = False
        for o in operands:
            if norm(o) == "sys.version_info":
                vals.append(self.info[v])
                any_vi = True
            elif norm(o) == "sys.version_info[:2]":
                vals.append(self.info[v][:2])
                any_vi = True
            else:
                try:
                    vals.append(ast.literal_eval(o))
                except Exception:
                    return None
        if not any_vi:
            return None
        res = True
        for a, op, b in zip(vals, node.ops, vals[1:]):
            try:
                if isinstance(op, ast.Lt):
                    r = a < b
                elif isinstance(op, ast.LtE):
                    r = a <= b
                elif isinstance(op, ast.Gt):
                    r = a > b
                elif isinstance(op, ast.GtE):
                    r = a >= b
                elif isinstance(op, ast.Eq):
                    r = a == b
                elif isinstance(op, ast.NotEq):
                    r = a != b
                else:
                    return None
            except TypeError:
                return None
            res = res and r
        return res

    def cond(self, e: ast.AST, v: str) -> Optional[bool]:
        """True / False if decided for version v, None if unknown"""
        if isinstance(e, ast.Constant):
            return bool(e.value)
        if isinstance(e, ast.Name) and e.id == "TYPE_CHECKING":
            return False
        if isinstance(e, ast.Attribute) and norm(e) == "typing.TYPE_CHECKING":
            return False
        if isinstance(e, ast.UnaryOp) and isinstance(e.op, ast.Not):
            r = self.cond(e.operand, v)
            return None if r is None else (not r)
        if isinstance(e, ast.BoolOp):
            rs = [self.cond(x, v) for x in e.values]
            if isinstance(e.op, ast.And):
                if any(r is False for r in rs):
                    return False
                if all(r is True for r in rs):
                    return True
                return None
            if any(r is True for r in rs):
                return True
            if all(r is False for r in rs):
                return False
            return None
        if isinstance(e, ast.Compare):
            r = self._vi_compare(e, v)
            if r is not None:
                return r
            if len(e.ops) == 1:
                left, op, right = e.left, e.ops[0], e.comparators[0]
                if norm(left) == "sys.implementation.name" and isinstance(right, ast.Constant):
                    is_c = right.value == "cpython"
                    if isinstance(op, ast.Eq):
                        return is_c
                    if isinstance(op, ast.NotEq):
                        return not is_c
                # <x>.opname == "N" / in (...): infeasible if N is not an opcode of v
                if isinstance(left, ast.Attribute) and left.attr == "opname":
                    names: Optional[List[str]] = None
                    if isinstance(right, ast.Constant) and isinstance(right.value, str):
                        names = [right.value]
                    elif isinstance(right, (ast.Tuple, ast.List, ast.Set)) and all(
                        isinstance(x, ast.Constant) and isinstance(x.value, str) for x in right.elts
                    ):
                        names = [x.value for x in right.elts]
                    if names is not None and isinstance(op, (ast.Eq, ast.In)):
                        if not any(n in self.real[v] for n in names):
                            return False
                        return None
        return None

    def split(self, test: ast.AST, live: VSet) -> (VSet, VSet):
        t = frozenset(v for v in live if self.cond(test, v) is not False)
        f = frozenset(v for v in live if self.cond(test, v) is not True)
        return t, f


class Reach:
    """reachability sets for one module (top level and all nested bodies)"""

    def __init__(self, ver: Ver, mod: Mod, module_live: Optional[VSet] = None):
        self.ver = ver
        self.mod = mod
        self.live: Dict[int, VSet] = {}
        self.fn_live: Dict[int, VSet] = {}
        self.module_after = self._stmts(mod.tree.body, module_live if module_live is not None else ver.all)
        self._refine_new_helpers()

    def _refine_new_helpers(self) -> None:
        """a helper that the reference tree does not have, and that is only ever called directly inside this module, is
        reachable exactly under the interpreters under which one of its call sites is (the version test stayed in the caller)"""
        try:
            from .normalize import load_inventory
            ref = set(load_inventory().get(self.mod.name, []))
        except Exception:
            return
        if not ref:
            return
        for _round in range(2):
            for q, fn in self.mod.defs.items():
                if q in ref or not isinstance(fn, (ast.FunctionDef, ast.AsyncFunctionDef)) or "#" in q:
                    continue
                name = fn.name
                uses = [n for n in ast.walk(self.mod.tree) if (isinstance(n, ast.Name) and n.id == name and isinstance(n.ctx, ast.Load))
                        or (isinstance(n, ast.Attribute) and n.attr == name and isinstance(n.ctx, ast.Load))]
                if not uses:
                    # every call was inlined by the normaliser: the statements are analysed where they were spliced in
                    if any(f"inlined new helper {q} " in l or f"inlined new expression helper {q} " in l for l in getattr(self.mod, "norm_log", [])) and fn.name.startswith("_"):
                        self.fn_live[id(fn)] = frozenset()
                        self._stmts(fn.body, frozenset())
                    continue
                calls = []
                ok = True
                for u in uses:
                    par = self.mod.parent_of(u)
                    if isinstance(par, ast.Call) and par.func is u and id(par) in self.live:
                        calls.append(par)
                    else:
                        ok = False
                if not ok or not calls:
                    continue
                live: VSet = frozenset()
                for c in calls:
                    live = live | self.live[id(c)]
                if live != self.fn_live.get(id(fn)):
                    self.fn_live[id(fn)] = live
                    self._stmts(fn.body, live)

    def at(self, node: ast.AST) -> VSet:
        try:
            return self.live[id(node)]
        except KeyError:
            raise AnalysisError(f"VER: no reachability recorded for {norm(node)[:60]}")

    # expressions ------------------------------------------------------------
    def _expr(self, e: Optional[ast.AST], live: VSet) -> None:
        if e is None:
            return
        self.live[id(e)] = live
        if isinstance(e, ast.BoolOp):
            cur = live
            for x in e.values:
                self._expr(x, cur)
                t, f = self.ver.split(x, cur)
                cur = t if isinstance(e.op, ast.And) else f
            return
        if isinstance(e, ast.IfExp):
            self._expr(e.test, live)
            t, f = self.ver.split(e.test, live)
            self._expr(e.body, t)
            self._expr(e.orelse, f)
            return
        if isinstance(e, ast.Lambda):
            self.fn_live[id(e)] = live
            self._expr(e.body, live)
            return
        for ch in ast.iter_child_nodes(e):
            self._expr(ch, live)

    # statements -------------------------------------------------------------
    def _stmts(self, body: List[ast.stmt], live: VSet) -> VSet:
        for st in body:
            live = self._stmt(st, live)
        return live

    def _stmt(self, st: ast.stmt, live: VSet) -> VSet:
        self.live[id(st)] = live
        v = self.ver
        if isinstance(st, ast.If):
            self._expr(st.test, live)
            t, f = v.split(st.test, live)
            a = self._stmts(st.body, t)
            b = self._stmts(st.orelse, f)
            return a | b
        if isinstance(st, ast.While):
            self._expr(st.test, live)
            t, f = v.split(st.test, live)
            self._stmts(st.body, t)
            self._stmts(st.orelse, f)
            const_true = isinstance(st.test, ast.Constant) and bool(st.test.value)
            if const_true and not _has_break(st):
                return frozenset()
            return live
        if isinstance(st, (ast.For, ast.AsyncFor)):
            self._expr(st.target, live)
            self._expr(st.iter, live)
            self._stmts(st.body, live)
            self._stmts(st.orelse, live)
            return live
        if isinstance(st, (ast.With, ast.AsyncWith)):
            for it in st.items:
                self._expr(it.context_expr, live)
                self._expr(it.optional_vars, live)
            return self._stmts(st.body, live)
        if isinstance(st, ast.Try) or st.__class__.__name__ == "TryStar":
            a = self._stmts(st.body, live)
            a = self._stmts(st.orelse, a)
            out = a
            for h in st.handlers:
                self.live[id(h)] = live
                self._expr(h.type, live)
                out = out | self._stmts(h.body, live)
            if st.finalbody:
                self._stmts(st.finalbody, live)
            return out
        if isinstance(st, (ast.FunctionDef, ast.AsyncFunctionDef)):
            for d in st.decorator_list:
                self._expr(d, live)
            for d in st.args.defaults + [k for k in st.args.kw_defaults if k is not None]:
                self._expr(d, live)
            self.fn_live[id(st)] = live
            self._stmts(st.body, live)
            return live
        if isinstance(st, ast.ClassDef):
            for d in st.decorator_list + st.bases:
                self._expr(d, live)
            self.fn_live[id(st)] = live
            self._stmts(st.body, live)
            return live
        if isinstance(st, ast.Return):
            self._expr(st.value, live)
            return frozenset()
        if isinstance(st, ast.Raise):
            self._expr(st.exc, live)
            self._expr(st.cause, live)
            return frozenset()
        if isinstance(st, (ast.Break, ast.Continue)):
            return frozenset()
        if isinstance(st, ast.Assert):
            self._expr(st.test, live)
            t, _ = v.split(st.test, live)
            return t
        if isinstance(st, ast.Match):
            self._expr(st.subject, live)
            out: VSet = frozenset()
            for c in st.cases:
                out = out | self._stmts(c.body, live)
            return out | live
        for ch in ast.iter_child_nodes(st):
            self._expr(ch, live)
        return live


def _has_break(loop: ast.AST) -> bool:
    todo = list(loop.body)
    while todo:
        n = todo.pop()
        if isinstance(n, ast.Break):
            return True
        if isinstance(n, (ast.For, ast.AsyncFor, ast.While, ast.FunctionDef, ast.AsyncFunctionDef, ast.ClassDef, ast.Lambda)):
            # a break inside a nested loop leaves that loop, not this one; but its
            # orelse belongs to us
            if isinstance(n, (ast.For, ast.AsyncFor, ast.While)):
                todo.extend(n.orelse)
            continue
        todo.extend(ast.iter_child_nodes(n))
    return False


def fmt(vs: VSet) -> str:
    return "{" + ", ".join(sorted(vs, key=lambda s: tuple(int(x) for x in s.split(".")))) + "}"
