"""Emission tables: what a family of generator methods yields, as a function of boolean atoms.

A tiny abstract interpreter for the statement kinds the summary generators of stackscope/_types.py use
(if / for / continue / return / yield / yield from / simple assignments).  It is run once per truth
assignment of the atoms its conditions mention (atoms are discovered lazily), inlining calls to helper
methods of the package classes, and produces a nested tuple of emission items:

    ("OWN", recv, {param: value})            a call of a *unit* that returns one entry (Frame.as_stdlib_summary)
    ("FS",)                                  a traceback.FrameSummary(...) built in place
    ("UNIT", qualname, recv, {param: value}) a call of a unit generator (not inlined: it has its own table)
    ("LOOP", iterable, (items...))           for x in iterable: items (x is written iterable[*])
    ("FROM", text)                           yield from <something that is not a package method>

Nothing is executed: conditions are looked up in the assignment, values are normalised source text after
substituting parameters and single-assignment locals.
"""
from __future__ import annotations

import ast
import copy
import itertools
from typing import Any, Callable, Dict, List, Optional, Sequence, Set, Tuple

from .model import AnalysisError, Mod, norm


class NeedAtom(Exception):
    def __init__(self, atom: str) -> None:
        self.atom = atom


class Unsupported(Exception):
    pass


class _Stop(Exception):
    """return / continue"""

    def __init__(self, kind: str) -> None:
        self.kind = kind


class _Subst(ast.NodeTransformer):
    def __init__(self, env: Dict[str, ast.AST]) -> None:
        self.env = env

    def visit_Name(self, n: ast.Name) -> ast.AST:
        if isinstance(n.ctx, ast.Load) and n.id in self.env:
            return copy.deepcopy(self.env[n.id])
        return n


def subst(e: ast.AST, env: Dict[str, ast.AST]) -> ast.AST:
    return ast.fix_missing_locations(_Subst(env).visit(copy.deepcopy(e)))


def _elem(it: ast.AST) -> ast.AST:
    return ast.Subscript(value=copy.deepcopy(it), slice=ast.Name(id="*", ctx=ast.Load()), ctx=ast.Load())


def canon_atom(e: ast.AST) -> Tuple[str, bool]:
    """(atom text, polarity) of a leaf condition; len(X) > 0, len(X), bool(X), X != [] ... are the truthiness of X"""
    if isinstance(e, ast.Call) and isinstance(e.func, ast.Name) and e.func.id in ("len", "bool") and len(e.args) == 1 and not e.keywords:
        return canon_atom(e.args[0])
    if isinstance(e, ast.Compare) and len(e.ops) == 1 and isinstance(e.left, ast.Call) and isinstance(e.left.func, ast.Name) and e.left.func.id == "bool" and len(e.left.args) == 1 \
            and isinstance(e.comparators[0], ast.Constant) and isinstance(e.comparators[0].value, bool) and isinstance(e.ops[0], (ast.Is, ast.IsNot, ast.Eq, ast.NotEq)):
        a, pol = canon_atom(e.left.args[0])
        same = isinstance(e.ops[0], (ast.Is, ast.Eq))
        return a, (pol if (e.comparators[0].value == same) else not pol)
    if isinstance(e, ast.Compare) and len(e.ops) == 1:
        l, op, r = e.left, e.ops[0], e.comparators[0]
        if isinstance(l, ast.Call) and isinstance(l.func, ast.Name) and l.func.id == "len" and isinstance(r, ast.Constant) and isinstance(r.value, int):
            x = norm(l.args[0])
            k = r.value
            if (isinstance(op, ast.Gt) and k == 0) or (isinstance(op, ast.GtE) and k == 1) or (isinstance(op, ast.NotEq) and k == 0):
                return x, True
            if (isinstance(op, ast.Eq) and k == 0) or (isinstance(op, ast.Lt) and k == 1) or (isinstance(op, ast.LtE) and k == 0):
                return x, False
        if isinstance(op, (ast.Is, ast.IsNot)) and isinstance(l, ast.Name) and isinstance(r, ast.Constant) and isinstance(r.value, bool):
            # a flag parameter (documented bool) compared with True / False by identity is its truth value
            a, pol = canon_atom(l)
            same = isinstance(op, ast.Is)
            return a, (pol if (r.value == same) else not pol)
        if isinstance(op, (ast.Is, ast.IsNot)):
            return f"{norm(l)} is {norm(r)}", isinstance(op, ast.Is)
        if isinstance(op, (ast.Eq, ast.NotEq)):
            if isinstance(r, (ast.List, ast.Tuple)) and not r.elts:
                return norm(l), isinstance(op, ast.NotEq)
            return f"{norm(l)} == {norm(r)}", isinstance(op, ast.Eq)
        if isinstance(op, (ast.In, ast.NotIn)):
            return f"{norm(l)} in {norm(r)}", isinstance(op, ast.In)
    return norm(e), True


class Emitter:
    def __init__(self, mod: Mod, units: Dict[str, str], assign: Dict[str, bool], max_depth: int = 6) -> None:
        """units: qualname -> "OWN" | "UNIT" (calls of these are not inlined)"""
        self.mod = mod
        self.units = units
        self.assign = assign
        self.max_depth = max_depth
        self.visited: Set[str] = set()
        self._tenv: Dict[str, List[str]] = {}
        self.classes = {c.name: c for c in mod.tree.body if isinstance(c, ast.ClassDef)}

    # ---------------------------------------------------------------- types
    def _ann_classes(self, ann: Optional[ast.AST]) -> Tuple[List[str], bool]:
        """(package classes named in an annotation, is-a-sequence-of-them)"""
        if ann is None:
            return [], False
        if isinstance(ann, ast.Constant) and isinstance(ann.value, str):
            try:
                ann = ast.parse(ann.value, mode="eval").body
            except SyntaxError:
                return [], False
        seq = False
        names = []
        for n in ast.walk(ann):
            if isinstance(n, ast.Name):
                if n.id in ("Sequence", "List", "Tuple", "Iterable", "Iterator", "list", "tuple"):
                    seq = True
                if n.id in self.classes:
                    names.append(n.id)
        return names, seq

    def field_ann(self, cls: str, field: str) -> Optional[ast.AST]:
        c = self.classes.get(cls)
        while c is not None:
            for s in c.body:
                if isinstance(s, ast.AnnAssign) and isinstance(s.target, ast.Name) and s.target.id == field:
                    return s.annotation
            base = [b.id for b in c.bases if isinstance(b, ast.Name) and b.id in self.classes]
            c = self.classes.get(base[0]) if base else None
        return None

    def type_of(self, e: ast.AST, tenv: Dict[str, List[str]]) -> List[str]:
        """package classes an (already substituted) expression may be an instance of"""
        t = norm(e)
        if t in tenv:
            return tenv[t]
        if isinstance(e, ast.Attribute):
            out = []
            for c in self.type_of(e.value, tenv):
                names, seq = self._ann_classes(self.field_ann(c, e.attr))
                if not seq:
                    out += names
            return out
        if isinstance(e, ast.Subscript):
            v = e.value
            if isinstance(v, ast.Attribute):
                out = []
                for c in self.type_of(v.value, tenv):
                    names, seq = self._ann_classes(self.field_ann(c, v.attr))
                    if seq:
                        out += names
                return out
        return []

    def find_method(self, cls: str, name: str) -> Optional[str]:
        c = self.classes.get(cls)
        while c is not None:
            if self.mod.has(f"{c.name}.{name}"):
                return f"{c.name}.{name}"
            base = [b.id for b in c.bases if isinstance(b, ast.Name) and b.id in self.classes]
            c = self.classes.get(base[0]) if base else None
        return None

    # ---------------------------------------------------------------- conditions
    def truth(self, e: ast.AST) -> bool:
        if isinstance(e, ast.BoolOp):
            vals = [self.truth(x) for x in e.values]
            return all(vals) if isinstance(e.op, ast.And) else any(vals)
        if isinstance(e, ast.UnaryOp) and isinstance(e.op, ast.Not):
            return not self.truth(e.operand)
        if isinstance(e, ast.Constant):
            return bool(e.value)
        if isinstance(e, ast.IfExp):
            return self.truth(e.body) if self.truth(e.test) else self.truth(e.orelse)
        if isinstance(e, ast.Compare) and len(e.ops) == 1 and isinstance(e.ops[0], (ast.Is, ast.IsNot)) \
                and isinstance(e.left, ast.Constant) and isinstance(e.comparators[0], ast.Constant):
            same = e.left.value is e.comparators[0].value
            return same if isinstance(e.ops[0], ast.Is) else not same
        if isinstance(e, ast.Call) and isinstance(e.func, ast.Attribute):
            r = self.bool_call(e)
            if r is not None:
                return r
        a, pol = canon_atom(e)
        if a not in self.assign:
            raise NeedAtom(a)
        return self.assign[a] if pol else not self.assign[a]

    def bool_call(self, call: ast.Call, depth: int = 0) -> Optional[bool]:
        """a condition that calls a predicate method of a package class: evaluate the predicate's body
        (if / return <condition> / simple assignments) under the same assignment"""
        if depth > 3:
            return None
        try:
            r = self.resolve(call, {}, self._tenv, "")
        except Unsupported:
            return None
        if r is None:
            return None
        q, recv = r
        fn = self.mod.fn(q)
        if any(isinstance(n, (ast.Yield, ast.YieldFrom)) for n in ast.walk(fn)):
            return None
        try:
            bound = self.bind(fn, call, {}, method=True)
        except Unsupported:
            return None
        env: Dict[str, ast.AST] = {"self": recv}
        env.update(bound)
        saved = self._tenv
        self._tenv = dict(saved)
        self._tenv[norm(recv)] = [q.split(".")[0]]
        self.visited.add(q)
        try:
            return self._bool_block(fn.body, env)
        finally:
            self._tenv = saved

    def _bool_block(self, body: Sequence[ast.stmt], env: Dict[str, ast.AST]) -> Optional[bool]:
        for s in body:
            if isinstance(s, ast.Expr) and isinstance(s.value, ast.Constant):
                continue
            if isinstance(s, ast.Return):
                if s.value is None:
                    return False
                return self.truth(subst(s.value, env))
            if isinstance(s, ast.If):
                r = self._bool_block(s.body if self.truth(subst(s.test, env)) else s.orelse, env)
                if r is not None:
                    return r
                continue
            if isinstance(s, ast.Assign) and len(s.targets) == 1 and isinstance(s.targets[0], ast.Name):
                env[s.targets[0].id] = subst(s.value, env)
                continue
            raise Unsupported(f"predicate body statement {type(s).__name__} at line {s.lineno}")
        return None

    # ---------------------------------------------------------------- calls
    def bind(self, callee: ast.AST, call: ast.Call, env: Dict[str, ast.AST], method: bool) -> Dict[str, ast.AST]:
        a = callee.args
        pos = [x.arg for x in a.posonlyargs + a.args]
        if method:
            pos = pos[1:]
        if any(isinstance(x, ast.Starred) for x in call.args) or any(k.arg is None for k in call.keywords):
            raise Unsupported(f"star-arguments in {norm(call)[:60]}")
        bound: Dict[str, ast.AST] = {}
        for i, x in enumerate(call.args):
            if i >= len(pos):
                raise Unsupported(f"too many positional arguments in {norm(call)[:60]}")
            bound[pos[i]] = subst(x, env)
        for k in call.keywords:
            bound[k.arg] = subst(k.value, env)
        dpos = a.posonlyargs + a.args
        for p, d in zip(dpos[len(dpos) - len(a.defaults):], a.defaults):
            bound.setdefault(p.arg, d)
        for p, d in zip(a.kwonlyargs, a.kw_defaults):
            if d is not None:
                bound.setdefault(p.arg, d)
        return bound

    def resolve(self, call: ast.Call, env: Dict[str, ast.AST], tenv: Dict[str, List[str]], cls: str) -> Optional[Tuple[str, ast.AST]]:
        """(qualname, receiver expression) of a call of a method of a package class"""
        f = call.func
        if not isinstance(f, ast.Attribute):
            return None
        recv = subst(f.value, env)
        types = self.type_of(recv, tenv)
        quals = {self.find_method(t, f.attr) for t in types}
        quals.discard(None)
        if len(quals) == 1:
            return quals.pop(), recv
        if len(quals) > 1:
            raise Unsupported(f"receiver of {norm(call)[:60]} may be any of {sorted(quals)}")
        return None

    # ---------------------------------------------------------------- interpreter
    def run(self, qual: str, recv: ast.AST, bound: Dict[str, ast.AST], depth: int = 0) -> Tuple:
        fn = self.mod.fn(qual)
        self.visited.add(qual)
        cls = qual.split(".")[0]
        env: Dict[str, ast.AST] = {"self": recv}
        tenv: Dict[str, List[str]] = {norm(recv): [cls]}
        a = fn.args
        for p in a.posonlyargs + a.args[1:] + a.kwonlyargs:
            if p.arg not in bound:
                raise Unsupported(f"{qual}: parameter {p.arg} not bound")
            env[p.arg] = bound[p.arg]
            names, seq = self._ann_classes(p.annotation)
            if names and not seq:
                tenv.setdefault(norm(bound[p.arg]), names)
        out: List[Tuple] = []
        try:
            self.block(fn.body, env, tenv, cls, out, depth, qual)
        except _Stop as s:
            if s.kind != "return":
                raise Unsupported(f"{qual}: {s.kind} outside a loop")
        return tuple(out)

    def block(self, body: Sequence[ast.stmt], env, tenv, cls, out: List[Tuple], depth: int, qual: str) -> None:
        for s in body:
            self.stmt(s, env, tenv, cls, out, depth, qual)

    def emit_call(self, call: ast.Call, env, tenv, cls, out, depth, qual, gen: bool) -> Optional[str]:
        r = self.resolve(call, env, tenv, cls)
        if r is None:
            return None
        q, recv = r
        callee = self.mod.fn(q)
        bound = self.bind(callee, call, env, method=True)
        kind = self.units.get(q)
        if kind == "OWN":
            out.append(("OWN", norm(recv), tuple(sorted((k, norm(v)) for k, v in bound.items()))))
            return "OWN"
        if kind == "UNIT" or depth >= self.max_depth:
            out.append(("UNIT", q, norm(recv), tuple(sorted((k, norm(v)) for k, v in bound.items()))))
            return "UNIT"
        out.extend(self.run(q, recv, bound, depth + 1))
        return "INLINE"

    def stmt(self, s: ast.stmt, env, tenv, cls, out: List[Tuple], depth: int, qual: str) -> None:
        if isinstance(s, ast.Expr):
            v = s.value
            if isinstance(v, ast.Constant):
                return  # docstring
            if isinstance(v, ast.Yield):
                if v.value is None:
                    raise Unsupported(f"{qual}: bare yield")
                val = v.value
                cenv = env
                if isinstance(val, ast.Name) and val.id in env:
                    val = env[val.id]  # already substituted: do not substitute twice
                    cenv = {}
                if isinstance(val, ast.Call):
                    if norm(val.func) in ("traceback.FrameSummary", "FrameSummary"):
                        out.append(("FS",))
                        return
                    k = self.emit_call(val, cenv, tenv, cls, out, depth, qual, gen=False)
                    if k:
                        if k != "OWN":
                            raise Unsupported(f"{qual}: yields the result of {norm(val)[:50]}, which is not a single-entry unit")
                        return
                raise Unsupported(f"{qual}: cannot classify `yield {norm(v.value)[:60]}`")
            if isinstance(v, ast.YieldFrom):
                val = v.value
                k = self.emit_call(val, env, tenv, cls, out, depth, qual, gen=True) if isinstance(val, ast.Call) else None
                if k:
                    if k == "OWN":
                        raise Unsupported(f"{qual}: yield from a single entry")
                    return
                out.append(("FROM", norm(subst(val, env))))
                return
            raise Unsupported(f"{qual}: statement `{norm(s)[:60]}`")
        if isinstance(s, ast.If):
            t = subst(s.test, env)
            self._tenv = tenv
            taken = self.truth(t)
            tenv2 = tenv
            if taken and isinstance(t, ast.Call) and norm(t.func) == "isinstance" and len(t.args) == 2 and isinstance(t.args[1], ast.Name) and t.args[1].id in self.classes:
                tenv2 = dict(tenv)
                tenv2[norm(t.args[0])] = [t.args[1].id]
            self.block(s.body if taken else s.orelse, env, tenv2, cls, out, depth, qual)
            return
        if isinstance(s, ast.For):
            if s.orelse or not isinstance(s.target, ast.Name):
                raise Unsupported(f"{qual}: for-loop shape at line {s.lineno}")
            it = subst(s.iter, env)
            env2 = dict(env)
            env2[s.target.id] = _elem(it)
            body: List[Tuple] = []
            try:
                self.block(s.body, env2, tenv, cls, body, depth, qual)
            except _Stop as st:
                if st.kind != "continue":
                    raise Unsupported(f"{qual}: return inside the loop over {norm(it)}")
            out.append(("LOOP", norm(it), tuple(body)))
            return
        if isinstance(s, ast.Continue):
            raise _Stop("continue")
        if isinstance(s, ast.Return):
            if s.value is not None and not (isinstance(s.value, ast.Constant) and s.value.value is None):
                k = self.emit_call(s.value, env, tenv, cls, out, depth, qual, gen=True) if isinstance(s.value, ast.Call) else None
                if k:
                    if k == "OWN":
                        raise Unsupported(f"{qual}: returns a single entry")
                    raise _Stop("return")
                raise Unsupported(f"{qual}: `{norm(s)[:60]}`")
            raise _Stop("return")
        if isinstance(s, (ast.Assign, ast.AnnAssign)):
            tg = s.targets[0] if isinstance(s, ast.Assign) else s.target
            if isinstance(s, ast.Assign) and len(s.targets) != 1 or not isinstance(tg, ast.Name) or s.value is None:
                raise Unsupported(f"{qual}: assignment `{norm(s)[:60]}`")
            env[tg.id] = subst(s.value, env)
            return
        if isinstance(s, (ast.Pass, ast.Assert)):
            return
        if isinstance(s, ast.Delete) and all(isinstance(t, ast.Name) for t in s.targets):
            for t in s.targets:
                env.pop(t.id, None)
            return
        if isinstance(s, ast.Try) and not s.orelse and all(len(h.body) == 1 and isinstance(h.body[0], ast.Raise) and h.body[0].exc is None for h in s.handlers) \
                and not any(isinstance(n, (ast.Yield, ast.YieldFrom, ast.Return, ast.Continue, ast.Break)) for f_ in s.finalbody for n in ast.walk(f_)):
            # handlers that only re-raise, a finally that emits nothing and does not leave: what is emitted is what the body emits
            self.block(s.body, env, tenv, cls, out, depth, qual)
            self.block([f_ for f_ in s.finalbody if isinstance(f_, (ast.Delete, ast.Pass, ast.Assert))] if all(isinstance(f_, (ast.Delete, ast.Pass, ast.Assert, ast.Expr)) for f_ in s.finalbody) else s.finalbody, env, tenv, cls, out, depth, qual)
            return
        raise Unsupported(f"{qual}: statement kind {type(s).__name__} at line {s.lineno}")


def prune(items: Tuple, assign: Dict[str, bool]) -> Tuple:
    """drop loops over containers the assignment says are empty; flatten"""
    out = []
    for it in items:
        if it[0] == "LOOP":
            if assign.get(it[1]) is False:
                continue
            body = prune(it[2], assign)
            if not body:
                continue
            out.append(("LOOP", it[1], body))
        else:
            out.append(it)
    return tuple(out)


def feasible(assign: Dict[str, bool]) -> bool:
    """X empty contradicts any statement about X[...]"""
    for a, v in assign.items():
        if v is False:
            for b, w in assign.items():
                if w and b != a and b.startswith(a + "["):
                    return False
    return True


def table(mod: Mod, units: Dict[str, str], qual: str, recv: ast.AST, bound: Dict[str, ast.AST],
          base_atoms: Sequence[str], max_atoms: int = 12):
    """rows (assignment, items) for every feasible truth assignment; returns (atoms, rows, visited functions)"""
    atoms = list(base_atoms)
    visited: Set[str] = set()
    while True:
        rows = []
        try:
            for vals in itertools.product([False, True], repeat=len(atoms)):
                assign = dict(zip(atoms, vals))
                if not feasible(assign):
                    continue
                em = Emitter(mod, units, assign)
                items = em.run(qual, recv, dict(bound))
                visited |= em.visited
                rows.append((assign, prune(items, assign)))
            return atoms, rows, visited
        except NeedAtom as na:
            if na.atom in atoms:
                raise AnalysisError(f"emission table of {qual}: atom {na.atom} looked up inconsistently")
            atoms.append(na.atom)
            if len(atoms) > max_atoms:
                raise Unsupported(f"{qual}: more than {max_atoms} condition atoms: {atoms}")


def show(items: Tuple) -> str:
    parts = []
    for it in items:
        if it[0] == "LOOP":
            parts.append(f"for each of {it[1]}: [{show(it[2])}]")
        elif it[0] == "OWN":
            parts.append(f"{it[1]}'s own entry({', '.join(f'{k}={v}' for k, v in it[2])})")
        elif it[0] == "UNIT":
            parts.append(f"{it[1]} of {it[2]}({', '.join(f'{k}={v}' for k, v in it[3])})")
        elif it[0] == "FS":
            parts.append("FrameSummary(...)")
        else:
            parts.append(f"{it[0]} {it[1] if len(it) > 1 else ''}")
    return "; ".join(parts) if parts else "nothing"
