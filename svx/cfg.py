"""Statement-level control-flow graph for one function (own implementation).

Nodes are simple statements plus header nodes for compound statements.  Every
statement inside a `try` body gets an exceptional edge to each handler of that
try (and of enclosing ones unless a handler is broad).  `raise` goes to the
handlers of the innermost enclosing try; past a try without a broad handler it
continues outward, ending in RAISE.  `finally` bodies are a single shared
sub-graph entered from every way of leaving the try (paths are merged: this
over-approximates the set of paths, which is the sound direction for
"all paths pass through" queries).
"""
from __future__ import annotations

import ast
from typing import Dict, List, Optional, Set, Tuple

from .model import AnalysisError

BROAD = {"Exception", "BaseException"}


class Node:
    __slots__ = ("idx", "kind", "ast", "succ", "pred", "label", "exc_succ")

    def __init__(self, idx: int, kind: str, node: Optional[ast.AST], label: str = ""):
        self.idx = idx
        self.kind = kind  # entry exit raise stmt if while for with try handler
        self.ast = node
        self.succ: List["Node"] = []
        self.pred: List["Node"] = []
        self.exc_succ: Set[int] = set()  # indices of successors reached exceptionally
        self.label = label

    def __repr__(self) -> str:
        t = ast.unparse(self.ast).split("\n")[0][:60] if self.ast is not None else ""
        return f"<{self.idx}:{self.kind} {t}>"


def handler_is_broad(h: ast.ExceptHandler) -> bool:
    if h.type is None:
        return True
    names = []
    t = h.type
    elts = t.elts if isinstance(t, ast.Tuple) else [t]
    for e in elts:
        if isinstance(e, ast.Name):
            names.append(e.id)
        elif isinstance(e, ast.Attribute):
            names.append(e.attr)
    return any(n in BROAD for n in names)


class CFG:
    def __init__(self, fn: ast.AST):
        self.fn = fn
        self.nodes: List[Node] = []
        self.entry = self._new("entry", None)
        self.exit = self._new("exit", None)
        self.raise_exit = self._new("raise", None)
        self.by_ast: Dict[int, Node] = {}
        # contexts
        self._loops: List[Tuple[Node, Node]] = []  # (continue target, break target)
        self._tries: List[Dict] = []
        body = fn.body if not isinstance(fn, ast.Lambda) else []
        ends = self._seq(body, [self.entry])
        self._fall_ends = list(ends)
        for e in ends:
            self._edge(e, self.exit)
        self._dom: Optional[Dict[int, Set[int]]] = None
        self._pdom: Optional[Dict[int, Set[int]]] = None

    # -- construction -----------------------------------------------------
    def _new(self, kind: str, node: Optional[ast.AST], label: str = "") -> Node:
        n = Node(len(self.nodes), kind, node, label)
        self.nodes.append(n)
        return n

    def _edge(self, a: Node, b: Node, exc: bool = False) -> None:
        if b not in a.succ:
            a.succ.append(b)
            b.pred.append(a)
        if exc:
            a.exc_succ.add(b.idx)

    def _stmt_node(self, kind: str, st: ast.AST) -> Node:
        n = self._new(kind, st)
        self.by_ast[id(st)] = n
        return n

    def _exc_targets(self, explicit_raise: bool) -> List[Node]:
        """where an exception raised here goes"""
        out: List[Node] = []
        for t in reversed(self._tries):
            if t["phase"] == "body":
                out.extend(t["handlers"])
                if t["finally"] is not None and not t["handlers"]:
                    out.append(t["finally"])
                    t["finally_targets"].add("raise")
                    return out
                if t["broad"]:
                    return out
                if t["finally"] is not None:
                    out.append(t["finally"])
                    t["finally_targets"].add("raise")
                    return out
            elif t["phase"] in ("handler", "else"):
                if t["finally"] is not None:
                    out.append(t["finally"])
                    t["finally_targets"].add("raise")
                    return out
        out.append(self.raise_exit)
        return out

    def _attach_exc(self, n: Node, explicit: bool = False) -> None:
        if explicit or any(t["phase"] == "body" for t in self._tries):
            for tgt in self._exc_targets(explicit):
                if not explicit and tgt is self.raise_exit:
                    continue
                self._edge(n, tgt, exc=True)

    def _jump_through_finally(self, n: Node, target: Node, tag: str) -> None:
        """return/break/continue: pass through enclosing finally blocks"""
        for t in reversed(self._tries):
            if t["finally"] is not None and t["phase"] != "finally":
                if tag in ("break", "continue") and t["loop_depth"] < len(self._loops):
                    # try is outside the loop being left: not crossed
                    continue
                self._edge(n, t["finally"])
                t["finally_targets"].add((tag, target.idx))
                return
        self._edge(n, target)

    def _seq(self, stmts: List[ast.stmt], preds: List[Node]) -> List[Node]:
        for st in stmts:
            preds = self._stmt(st, preds)
        return preds

    def _stmt(self, st: ast.stmt, preds: List[Node]) -> List[Node]:
        if isinstance(st, ast.If):
            c = self._stmt_node("if", st)
            for p in preds:
                self._edge(p, c)
            # convention: succ[0] of an if/while node is the true edge, every other
            # non-exceptional successor is a false edge
            t_ends = self._seq(st.body, [c])
            if st.orelse:
                f_ends = self._seq(st.orelse, [c])
            else:
                f_ends = [c]
            self._attach_exc(c)
            return t_ends + f_ends
        if isinstance(st, (ast.While,)):
            c = self._stmt_node("while", st)
            for p in preds:
                self._edge(p, c)
            after = self._new("join", None, "after-while")
            self._loops.append((c, after))
            b_ends = self._seq(st.body, [c])
            self._loops.pop()
            self._attach_exc(c)
            for e in b_ends:
                self._edge(e, c)
            const_true = isinstance(st.test, ast.Constant) and bool(st.test.value)
            if not const_true:
                if st.orelse:
                    for e in self._seq(st.orelse, [c]):
                        self._edge(e, after)
                else:
                    self._edge(c, after)
            return [after]
        if isinstance(st, (ast.For, ast.AsyncFor)):
            c = self._stmt_node("for", st)
            for p in preds:
                self._edge(p, c)
            self._attach_exc(c)
            after = self._new("join", None, "after-for")
            self._loops.append((c, after))
            b_ends = self._seq(st.body, [c])
            self._loops.pop()
            for e in b_ends:
                self._edge(e, c)
            if st.orelse:
                for e in self._seq(st.orelse, [c]):
                    self._edge(e, after)
            else:
                self._edge(c, after)
            return [after]
        if isinstance(st, (ast.With, ast.AsyncWith)):
            c = self._stmt_node("with", st)
            for p in preds:
                self._edge(p, c)
            self._attach_exc(c)
            return self._seq(st.body, [c])
        if isinstance(st, ast.Try) or st.__class__.__name__ == "TryStar":
            return self._try(st, preds)
        if isinstance(st, ast.Match):
            c = self._stmt_node("match", st)
            for p in preds:
                self._edge(p, c)
            self._attach_exc(c)
            ends: List[Node] = [c]
            for case in st.cases:
                ends.extend(self._seq(case.body, [c]))
            return ends
        if isinstance(st, (ast.FunctionDef, ast.AsyncFunctionDef, ast.ClassDef)):
            n = self._stmt_node("def", st)
            for p in preds:
                self._edge(p, n)
            return [n]
        # simple statements
        n = self._stmt_node("stmt", st)
        for p in preds:
            self._edge(p, n)
        if isinstance(st, ast.Return):
            self._attach_exc(n)
            self._jump_through_finally(n, self.exit, "return")
            return []
        if isinstance(st, ast.Raise):
            self._attach_exc(n, explicit=True)
            return []
        if isinstance(st, ast.Break):
            if not self._loops:
                raise AnalysisError("break outside loop")
            self._jump_through_finally(n, self._loops[-1][1], "break")
            return []
        if isinstance(st, ast.Continue):
            if not self._loops:
                raise AnalysisError("continue outside loop")
            self._jump_through_finally(n, self._loops[-1][0], "continue")
            return []
        self._attach_exc(n)
        if isinstance(st, ast.Assert):
            # a failing assert raises
            for tgt in self._exc_targets(True):
                self._edge(n, tgt, exc=True)
        return [n]

    def _try(self, st: ast.Try, preds: List[Node]) -> List[Node]:
        t_head = self._stmt_node("try", st)
        for p in preds:
            self._edge(p, t_head)
        handlers = [self._stmt_node("handler", h) for h in st.handlers]
        fin = self._new("finally", st, "finally") if st.finalbody else None
        info = {
            "phase": "body",
            "handlers": handlers,
            "broad": any(handler_is_broad(h) for h in st.handlers),
            "finally": fin,
            "finally_targets": set(),
            "loop_depth": len(self._loops),
        }
        self._tries.append(info)
        b_ends = self._seq(st.body, [t_head])
        info["phase"] = "else"
        if st.orelse:
            b_ends = self._seq(st.orelse, b_ends)
        info["phase"] = "handler"
        h_ends: List[Node] = []
        for hn, h in zip(handlers, st.handlers):
            h_ends.extend(self._seq(h.body, [hn]))
        info["phase"] = "finally"
        ends = b_ends + h_ends
        if fin is not None:
            for e in ends:
                self._edge(e, fin)
            if ends:
                # the statement after the try is reached only if the body / else / a handler completes normally
                info["finally_targets"].add("fall")
            f_ends = self._seq(st.finalbody, [fin])
            self._tries.pop()
            out: List[Node] = []
            for tgt in info["finally_targets"]:
                if tgt == "fall":
                    out = f_ends
                elif tgt == "raise":
                    for e in f_ends:
                        for x in self._exc_targets(True):
                            self._edge(e, x, exc=True)
                else:
                    tag, idx = tgt
                    for e in f_ends:
                        self._jump_through_finally(e, self.nodes[idx], tag)
            return list(out)
        self._tries.pop()
        return ends

    # -- queries ------------------------------------------------------------
    def branch_succs(self, n: Node):
        """(true successors, false successors) of an if/while node"""
        normal = [x for x in n.succ if x.idx not in n.exc_succ]
        if not normal:
            return [], []
        return [normal[0]], normal[1:]

    def falls_off_end(self) -> bool:
        """can control reach the end of the body without a return / raise?"""
        reach = self.reachable_from(self.entry)
        return any(e.idx in reach for e in self._fall_ends)

    def node_of(self, st: ast.AST) -> Node:
        try:
            return self.by_ast[id(st)]
        except KeyError:
            raise AnalysisError(f"statement not in CFG: {ast.unparse(st)[:80]}")

    def reachable_from(self, start: Node, avoid: Set[int] = frozenset(), forward: bool = True) -> Set[int]:
        seen = {start.idx}
        todo = [start]
        while todo:
            n = todo.pop()
            for s in (n.succ if forward else n.pred):
                if s.idx in seen or s.idx in avoid:
                    continue
                seen.add(s.idx)
                todo.append(s)
        return seen

    def dominators(self) -> Dict[int, Set[int]]:
        if self._dom is None:
            self._dom = self._domcalc(self.entry, forward=True)
        return self._dom

    def _domcalc(self, root: Node, forward: bool) -> Dict[int, Set[int]]:
        reach = self.reachable_from(root, forward=forward)
        allset = set(reach)
        dom = {i: set(allset) for i in reach}
        dom[root.idx] = {root.idx}
        changed = True
        order = sorted(reach)
        while changed:
            changed = False
            for i in order:
                if i == root.idx:
                    continue
                n = self.nodes[i]
                ps = [p.idx for p in (n.pred if forward else n.succ) if p.idx in reach]
                if not ps:
                    new = {i}
                else:
                    new = set.intersection(*(dom[p] for p in ps)) | {i}
                if new != dom[i]:
                    dom[i] = new
                    changed = True
        return dom

    def dominates(self, a: Node, b: Node) -> bool:
        """every path entry -> b passes through a"""
        d = self.dominators()
        return b.idx in d and a.idx in d[b.idx]

    def all_paths_pass(self, src: Node, dsts: Set[int], through: Set[int]) -> bool:
        """every path from src (exclusive) to any node in dsts passes a node in `through`"""
        seen = set()
        todo = [s for s in src.succ]
        while todo:
            n = todo.pop()
            if n.idx in seen or n.idx in through:
                continue
            seen.add(n.idx)
            if n.idx in dsts:
                return False
            todo.extend(n.succ)
        return True

    def witness_path(self, src: Node, dsts: Set[int], avoid: Set[int]) -> List[Node]:
        """a path from src to dsts avoiding `avoid` (for diagnostics)"""
        prev: Dict[int, Optional[int]] = {}
        todo = []
        for s in src.succ:
            if s.idx not in avoid and s.idx not in prev:
                prev[s.idx] = src.idx
                todo.append(s)
        while todo:
            n = todo.pop(0)
            if n.idx in dsts:
                path = [n]
                i = prev[n.idx]
                while i is not None and i != src.idx:
                    path.append(self.nodes[i])
                    i = prev[i]
                return [src] + path[::-1]
            for s in n.succ:
                if s.idx not in avoid and s.idx not in prev:
                    prev[s.idx] = n.idx
                    todo.append(s)
        return []
