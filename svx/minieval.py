"""Engine MINI: abstract evaluation of a small, side-effect-free fragment of Python over *symbolic operands*.

Used where a rule has to know the effect of a few statements on a list of operands (the symbolic stack of the `as`-target
decoder): the operands are opaque placeholder strings, integers come from the instruction being modelled, and the only
operations understood are the list / string / integer operations enumerated below.  Anything else raises Unsupported,
which the calling rule reports as undecided (exit 2) -- never as a violation.  Nothing of /repo is imported or run: the
evaluator walks the syntax tree of the fragment.
"""
from __future__ import annotations

import ast
from types import SimpleNamespace
from typing import Any, Callable, Dict, List, Optional


class Unsupported(Exception):
    pass


class Raised(Exception):
    """the fragment executes `raise X(...)` (or an operation that raises, such as pop from an empty list)"""
    def __init__(self, kind: str, obj: Any = None):
        super().__init__(kind)
        self.kind = kind
        self.obj = obj          # the exception object a handler's `as name` receives, when the model provides one


class Opaque:
    """a value about which nothing is known: it can be stored, moved and returned, but not tested or compared"""
    def __init__(self, name: str):
        self.name = name

    def __repr__(self) -> str:
        return f"<{self.name}>"

    def __eq__(self, other: object) -> bool:
        return isinstance(other, Opaque) and other.name == self.name

    def __hash__(self) -> int:
        return hash(self.name)


class _Break(Exception):
    pass


class _Continue(Exception):
    pass


class _Return(Exception):
    def __init__(self, value: Any):
        self.value = value


class Mini:
    def __init__(self, env: Dict[str, Any], helpers: Optional[Dict[str, ast.FunctionDef]] = None, externals: Optional[Dict[str, Callable[..., Any]]] = None, fuel: int = 4000):
        self.env = env
        self.helpers = helpers or {}
        self.externals = externals or {}
        self.fuel = fuel

    # ------------------------------------------------------------------ statements
    def run(self, body: List[ast.stmt]) -> Optional[str]:
        """returns None (fell through), 'break', 'continue'; raises Raised / Unsupported; Return only inside helpers"""
        try:
            for st in body:
                self.stmt(st)
        except _Break:
            return "break"
        except _Continue:
            return "continue"
        return None

    def stmt(self, st: ast.stmt) -> None:
        self.fuel -= 1
        if self.fuel < 0:
            raise Unsupported("evaluation budget exhausted")
        if isinstance(st, ast.Assign):
            v = self.expr(st.value)
            for t in st.targets:
                self.assign(t, v)
        elif isinstance(st, ast.AnnAssign):
            if st.value is not None:
                self.assign(st.target, self.expr(st.value))
        elif isinstance(st, ast.AugAssign):
            cur = self.expr(_load(st.target))
            rhs = self.expr(st.value)
            if isinstance(cur, list) and isinstance(st.op, ast.Add):
                if not isinstance(rhs, (list, tuple)):
                    raise Unsupported("list += non-sequence")
                cur.extend(rhs)          # in place: every alias of the list sees it, as in Python
                self.assign(st.target, cur)
            elif isinstance(cur, list) and isinstance(st.op, ast.Mult):
                raise Unsupported("list *=")
            else:
                self.assign(st.target, self.binop(st.op, cur, rhs))
        elif isinstance(st, ast.Expr):
            if isinstance(st.value, ast.Constant):
                return
            self.expr(st.value)
        elif isinstance(st, ast.If):
            for s in (st.body if self.truth(self.expr(st.test)) else st.orelse):
                self.stmt(s)
        elif isinstance(st, ast.For):
            it = self.expr(st.iter)
            if not isinstance(it, (list, tuple, range)):
                raise Unsupported(f"for over {type(it).__name__}")
            broke = False
            idx_ = 0
            seq = it if isinstance(it, list) else list(it)     # a list is iterated live (items appended by the body are visited), as in Python
            while idx_ < len(seq):
                v = seq[idx_]
                idx_ += 1
                self.fuel -= 1
                if self.fuel < 0:
                    raise Unsupported("evaluation budget exhausted")
                self.assign(st.target, v)
                try:
                    for s in st.body:
                        self.stmt(s)
                except _Break:
                    broke = True
                    break
                except _Continue:
                    continue
            if not broke:
                for s in st.orelse:
                    self.stmt(s)
        elif isinstance(st, ast.While):
            broke = False
            while self.truth(self.expr(st.test)):
                self.fuel -= 1
                if self.fuel < 0:
                    raise Unsupported("evaluation budget exhausted")
                try:
                    for s in st.body:
                        self.stmt(s)
                except _Break:
                    broke = True
                    break
                except _Continue:
                    continue
            if not broke:
                for s in st.orelse:
                    self.stmt(s)
        elif isinstance(st, ast.Delete):
            for t in st.targets:
                if isinstance(t, ast.Subscript):
                    obj = self.expr(t.value)
                    if not isinstance(obj, list):
                        raise Unsupported("del on a non-list")
                    try:
                        del obj[self.index(t.slice)]
                    except IndexError:
                        raise Raised("IndexError")
                else:
                    raise Unsupported("del of a name")
        elif isinstance(st, ast.Pass) or isinstance(st, (ast.Nonlocal, ast.Global)):
            return
        elif isinstance(st, ast.Break):
            raise _Break()
        elif isinstance(st, ast.Continue):
            raise _Continue()
        elif isinstance(st, ast.Return):
            raise _Return(self.expr(st.value) if st.value is not None else None)
        elif isinstance(st, ast.Raise):
            kind = "Exception"
            if st.exc is not None:
                f = st.exc.func if isinstance(st.exc, ast.Call) else st.exc
                kind = ast.unparse(f)
            raise Raised(kind)
        elif isinstance(st, ast.Assert):
            if not self.truth(self.expr(st.test)):
                raise Raised("AssertionError")
        elif isinstance(st, ast.Try):
            try:
                try:
                    for s in st.body:
                        self.stmt(s)
                except Raised as ex:
                    for h in st.handlers:
                        if self._catches(h.type, ex.kind):
                            if h.name:
                                self.env[h.name] = ex.obj if ex.obj is not None else Opaque("exception " + ex.kind)
                            for s in h.body:
                                self.stmt(s)
                            break
                    else:
                        raise
                else:
                    for s in st.orelse:
                        self.stmt(s)
            finally:
                for s in st.finalbody:
                    self.stmt(s)
        elif isinstance(st, (ast.FunctionDef,)):
            self.helpers[st.name] = st
        else:
            raise Unsupported(f"statement {type(st).__name__}")

    @staticmethod
    def _catches(t: Optional[ast.AST], kind: str) -> bool:
        if t is None:
            return True
        names = [ast.unparse(x) for x in (t.elts if isinstance(t, ast.Tuple) else [t])]
        base = kind.split(".")[-1]
        return any(n.split(".")[-1] in (base, "Exception", "BaseException") or (n.split(".")[-1] == "LookupError" and base in ("KeyError", "IndexError")) for n in names)

    def assign(self, t: ast.AST, v: Any) -> None:
        if isinstance(t, ast.Name):
            self.env[t.id] = v
        elif isinstance(t, (ast.Tuple, ast.List)):
            if not isinstance(v, (list, tuple)):
                raise Unsupported("unpacking a non-sequence")
            vs = list(v)
            star = [i for i, e in enumerate(t.elts) if isinstance(e, ast.Starred)]
            if not star:
                if len(vs) != len(t.elts):
                    raise Raised("ValueError")
                for e, x in zip(t.elts, vs):
                    self.assign(e, x)
            else:
                i = star[0]
                after = len(t.elts) - i - 1
                if len(vs) < len(t.elts) - 1:
                    raise Raised("ValueError")
                for e, x in zip(t.elts[:i], vs[:i]):
                    self.assign(e, x)
                self.assign(t.elts[i].value, vs[i:len(vs) - after])
                for e, x in zip(t.elts[i + 1:], vs[len(vs) - after:]):
                    self.assign(e, x)
        elif isinstance(t, ast.Subscript):
            obj = self.expr(t.value)
            if not isinstance(obj, list):
                raise Unsupported("item assignment on a non-list")
            try:
                obj[self.index(t.slice)] = v
            except IndexError:
                raise Raised("IndexError")
        elif isinstance(t, ast.Attribute):
            obj = self.expr(t.value)
            if not isinstance(obj, SimpleNamespace):
                raise Unsupported("attribute assignment on " + type(obj).__name__)
            setattr(obj, t.attr, v)
        else:
            raise Unsupported(f"assignment target {type(t).__name__}")

    # ------------------------------------------------------------------ expressions
    def truth(self, v: Any) -> bool:
        if isinstance(v, (bool, int, str, list, tuple, type(None), range, set, dict)):
            return bool(v)
        if isinstance(v, SimpleNamespace) and isinstance(getattr(v, "truthy", None), bool):
            return v.truthy         # the rule's model states the object's truth value (e.g. a coroutine object: always true)
        raise Unsupported(f"truth value of {type(v).__name__}")

    def index(self, s: ast.AST) -> Any:
        if isinstance(s, ast.Slice):
            f = lambda x: None if x is None else self._int_or_none(self.expr(x))
            return slice(f(s.lower), f(s.upper), f(s.step))
        v = self.expr(s)
        if not isinstance(v, int):
            raise Unsupported("non-integer index")
        return v

    @staticmethod
    def _int_or_none(v: Any) -> Optional[int]:
        if v is None or isinstance(v, int):
            return v
        raise Unsupported("non-integer slice bound")

    def binop(self, op: ast.AST, a: Any, b: Any) -> Any:
        ints = isinstance(a, int) and isinstance(b, int)
        if isinstance(op, ast.Add) and (ints or (isinstance(a, str) and isinstance(b, str)) or (isinstance(a, list) and isinstance(b, list)) or (isinstance(a, tuple) and isinstance(b, tuple))):
            return a + b
        if ints:
            if isinstance(op, ast.Sub):
                return a - b
            if isinstance(op, ast.Mult):
                return a * b
            if isinstance(op, ast.BitAnd):
                return a & b
            if isinstance(op, ast.BitOr):
                return a | b
            if isinstance(op, ast.RShift) and b >= 0:
                return a >> b
            if isinstance(op, ast.LShift) and 0 <= b < 64:
                return a << b
            if isinstance(op, ast.FloorDiv) and b != 0:
                return a // b
            if isinstance(op, ast.Mod) and b != 0:
                return a % b
        if isinstance(op, ast.Mult) and isinstance(a, (list, str)) and isinstance(b, int):
            return a * b
        if isinstance(op, ast.Mod) and isinstance(a, str):
            try:
                return a % (tuple(b) if isinstance(b, (tuple, list)) else b)
            except Exception:
                raise Unsupported("% formatting")
        raise Unsupported(f"operator {type(op).__name__} on {type(a).__name__}, {type(b).__name__}")

    def expr(self, e: ast.AST) -> Any:
        self.fuel -= 1
        if self.fuel < 0:
            raise Unsupported("evaluation budget exhausted")
        if isinstance(e, ast.Constant):
            return e.value
        if isinstance(e, ast.Name):
            if e.id in self.env:
                return self.env[e.id]
            raise Unsupported(f"name {e.id}")
        if isinstance(e, ast.Attribute):
            v = self.expr(e.value)
            if isinstance(v, SimpleNamespace) and hasattr(v, e.attr):
                return getattr(v, e.attr)
            if isinstance(v, tuple) and e.attr in getattr(v, "_fields", ()):
                return getattr(v, e.attr)          # a named tuple the rule's model supplied
            raise Unsupported(f"attribute .{e.attr}")
        if isinstance(e, (ast.List, ast.Tuple)):
            out: List[Any] = []
            for x in e.elts:
                if isinstance(x, ast.Starred):
                    v = self.expr(x.value)
                    if not isinstance(v, (list, tuple)):
                        raise Unsupported("star of a non-sequence")
                    out.extend(v)
                else:
                    out.append(self.expr(x))
            return out if isinstance(e, ast.List) else tuple(out)
        if isinstance(e, ast.JoinedStr):
            parts = []
            for p in e.values:
                if isinstance(p, ast.Constant):
                    parts.append(str(p.value))
                elif isinstance(p, ast.FormattedValue):
                    if p.conversion == 114:
                        parts.append("<repr>")
                        continue
                    v = self.expr(p.value)
                    if p.format_spec is not None or not isinstance(v, (str, int)):
                        raise Unsupported("formatted value")
                    if p.conversion == 114:
                        parts.append("<repr>")
                        continue
                    parts.append(str(v))
            return "".join(parts)
        if isinstance(e, ast.Subscript):
            obj = self.expr(e.value)
            if isinstance(obj, dict) and not isinstance(e.slice, ast.Slice):
                k = self.expr(e.slice)
                if not isinstance(k, (str, int)):
                    raise Unsupported("dict key")
                if k not in obj:
                    raise Raised("KeyError")
                return obj[k]
            if not isinstance(obj, (list, tuple, str)):
                raise Unsupported("subscript of " + type(obj).__name__)
            try:
                return obj[self.index(e.slice)]
            except IndexError:
                raise Raised("IndexError")
        if isinstance(e, ast.UnaryOp):
            v = self.expr(e.operand)
            if isinstance(e.op, ast.Not):
                return not self.truth(v)
            if isinstance(e.op, ast.USub) and isinstance(v, int):
                return -v
            raise Unsupported("unary operator")
        if isinstance(e, ast.BinOp):
            return self.binop(e.op, self.expr(e.left), self.expr(e.right))
        if isinstance(e, ast.BoolOp):
            v = None
            for x in e.values:
                v = self.expr(x)
                t = self.truth(v)
                if isinstance(e.op, ast.And) and not t:
                    return v
                if isinstance(e.op, ast.Or) and t:
                    return v
            return v
        if isinstance(e, ast.IfExp):
            return self.expr(e.body) if self.truth(self.expr(e.test)) else self.expr(e.orelse)
        if isinstance(e, ast.Compare):
            left = self.expr(e.left)
            for op, r in zip(e.ops, e.comparators):
                right = self.expr(r)
                if isinstance(left, Opaque) or isinstance(right, Opaque):
                    raise Unsupported("comparison of an opaque value")
                if isinstance(op, (ast.Eq, ast.NotEq)):
                    ok = (left == right) if isinstance(op, ast.Eq) else (left != right)
                elif isinstance(op, (ast.In, ast.NotIn)):
                    if not isinstance(right, (list, tuple, str, set, frozenset, dict)):
                        raise Unsupported("membership in " + type(right).__name__)
                    ok = (left in right) if isinstance(op, ast.In) else (left not in right)
                elif isinstance(op, (ast.Is, ast.IsNot)):
                    if not (left is None or right is None or isinstance(left, bool) or isinstance(right, bool) or (isinstance(left, SimpleNamespace) and isinstance(right, SimpleNamespace))):
                        raise Unsupported("identity of non-singletons")
                    ok = (left is right) if isinstance(op, ast.Is) else (left is not right)
                elif (isinstance(left, int) and isinstance(right, int)) or (isinstance(left, tuple) and isinstance(right, tuple) and all(isinstance(x, (int, str)) for x in left + right)):
                    try:
                        ok = {ast.Lt: lambda: left < right, ast.LtE: lambda: left <= right, ast.Gt: lambda: left > right, ast.GtE: lambda: left >= right}[type(op)]()
                    except TypeError:
                        raise Unsupported("ordering of tuples with mixed element types")
                else:
                    raise Unsupported("ordering of non-integers")
                if not ok:
                    return False
                left = right
            return True
        if isinstance(e, (ast.ListComp, ast.GeneratorExp)):
            if len(e.generators) != 1:
                raise Unsupported("nested comprehension")
            g = e.generators[0]
            it = self.expr(g.iter)
            if not isinstance(it, (list, tuple, range)):
                raise Unsupported("comprehension over " + type(it).__name__)
            out = []
            # the comprehension's variables are its own: whatever the names were bound to outside is restored afterwards
            tnames = [x.id for x in ast.walk(g.target) if isinstance(x, ast.Name)]
            saved = {nm: self.env[nm] for nm in tnames if nm in self.env}
            try:
                for v in list(it):
                    self.assign(g.target, v)
                    if all(self.truth(self.expr(c)) for c in g.ifs):
                        out.append(self.expr(e.elt))
            finally:
                for nm in tnames:
                    if nm in saved:
                        self.env[nm] = saved[nm]
                    else:
                        self.env.pop(nm, None)
            return out
        if isinstance(e, ast.Set):
            vs = [self.expr(x) for x in e.elts]
            return frozenset(vs)
        if isinstance(e, ast.Call):
            return self.call(e)
        if isinstance(e, ast.NamedExpr):
            v = self.expr(e.value)
            self.assign(e.target, v)
            return v
        raise Unsupported(f"expression {type(e).__name__}")

    def call(self, e: ast.Call) -> Any:
        if e.keywords and isinstance(e.func, ast.Name) and e.func.id in self.externals and all(k.arg for k in e.keywords):
            return self.externals[e.func.id](*[self.expr(a) for a in e.args], **{k.arg: self.expr(k.value) for k in e.keywords})
        if isinstance(e.func, ast.Name) and e.func.id == "enumerate" and len(e.args) == 1 and len(e.keywords) == 1 and e.keywords[0].arg == "start" \
                and "enumerate" not in self.env and "enumerate" not in self.helpers and "enumerate" not in self.externals:
            seq, st0 = self.expr(e.args[0]), self.expr(e.keywords[0].value)
            if isinstance(seq, (list, tuple)) and isinstance(st0, int) and not isinstance(st0, bool):
                return [tuple(x) for x in enumerate(seq, start=st0)]
            raise Unsupported("enumerate over a non-sequence")
        if e.keywords and not (isinstance(e.func, ast.Attribute) and e.func.attr == "format"):
            raise Unsupported("keyword arguments")
        if isinstance(e.func, ast.Attribute):
            m = e.func.attr
            # str.join / str.format on a constant or evaluated string; list methods
            recv = self.expr(e.func.value)
            args = [self.expr(a) for a in e.args]
            if isinstance(recv, list):
                try:
                    if m == "pop" and len(args) <= 1 and all(isinstance(a, int) for a in args):
                        return recv.pop(*args)
                    if m == "append" and len(args) == 1:
                        recv.append(args[0])
                        return None
                    if m == "extend" and len(args) == 1 and isinstance(args[0], (list, tuple)):
                        recv.extend(args[0])
                        return None
                    if m == "insert" and len(args) == 2 and isinstance(args[0], int):
                        recv.insert(args[0], args[1])
                        return None
                    if m == "reverse" and not args:
                        recv.reverse()
                        return None
                    if m == "copy" and not args:
                        return list(recv)
                    if m == "clear" and not args:
                        recv.clear()
                        return None
                except IndexError:
                    raise Raised("IndexError")
            if isinstance(recv, list) and m == "popleft" and not args:
                if not recv:
                    raise Raised("IndexError")
                return recv.pop(0)
            if isinstance(recv, list) and m == "appendleft" and len(args) == 1:
                recv.insert(0, args[0])
                return None
            if isinstance(recv, set):
                if m == "add" and len(args) == 1 and isinstance(args[0], (int, str, tuple)):
                    recv.add(args[0])
                    return None
                if m == "discard" and len(args) == 1:
                    recv.discard(args[0])
                    return None
            if isinstance(recv, dict):
                if m == "get" and 1 <= len(args) <= 2 and isinstance(args[0], (str, int)):
                    return recv.get(args[0], args[1] if len(args) == 2 else None)
                if m == "items" and not args:
                    return [tuple(x) for x in recv.items()]
                if m == "keys" and not args:
                    return list(recv.keys())
                if m == "values" and not args:
                    return list(recv.values())
            if isinstance(recv, str):
                if m == "join" and len(args) == 1 and isinstance(args[0], (list, tuple)) and all(isinstance(x, str) for x in args[0]):
                    return recv.join(args[0])
                if m == "format" and all(isinstance(a, (str, int)) for a in args):
                    kw = {k.arg: self.expr(k.value) for k in e.keywords if k.arg}
                    try:
                        return recv.format(*args, **kw)
                    except Exception:
                        raise Unsupported("format")
                if m in ("startswith", "endswith") and len(args) == 1 and isinstance(args[0], (str, tuple)):
                    return getattr(recv, m)(args[0] if isinstance(args[0], str) else tuple(args[0]))
            if isinstance(recv, SimpleNamespace) and callable(getattr(recv, m, None)):
                return getattr(recv, m)(*args)
            raise Unsupported(f"method .{m} on {type(recv).__name__}")
        if isinstance(e.func, ast.Name):
            f = e.func.id
            if f == "cast" and len(e.args) == 2:
                return self.expr(e.args[1])
            if f in self.externals:
                return self.externals[f](*[self.expr(a) for a in e.args])
            if f in ("all", "any") and len(e.args) == 1 and isinstance(e.args[0], ast.GeneratorExp) and len(e.args[0].generators) == 1 and f not in self.env and f not in self.helpers:
                # lazily, as Python does: the generator stops at the first deciding element (later elements' side effects do not happen)
                g = e.args[0].generators[0]
                it = self.expr(g.iter)
                if not isinstance(it, (list, tuple, range)):
                    raise Unsupported("generator over " + type(it).__name__)
                tnames = [x.id for x in ast.walk(g.target) if isinstance(x, ast.Name)]
                saved = {nm: self.env[nm] for nm in tnames if nm in self.env}
                result = (f == "all")
                try:
                    for v in list(it):
                        self.assign(g.target, v)
                        if not all(self.truth(self.expr(c)) for c in g.ifs):
                            continue
                        t_ = self.truth(self.expr(e.args[0].elt))
                        if f == "all" and not t_:
                            result = False
                            break
                        if f == "any" and t_:
                            result = True
                            break
                finally:
                    for nm in tnames:
                        if nm in saved:
                            self.env[nm] = saved[nm]
                        else:
                            self.env.pop(nm, None)
                return result
            if f in self.helpers and f not in self.env:
                fn = self.helpers[f]
                params = [a.arg for a in fn.args.posonlyargs + fn.args.args]
                if len(params) != len(e.args) or fn.args.vararg or fn.args.kwarg:
                    raise Unsupported(f"helper {f} signature")
                sub = Mini(dict(self.env), self.helpers, self.externals, self.fuel)
                for p, a in zip(params, e.args):
                    sub.env[p] = self.expr(a)
                nonlocals = [nm for s in ast.walk(fn) if isinstance(s, ast.Nonlocal) for nm in s.names]
                ret = None
                try:
                    for s in fn.body:
                        sub.stmt(s)
                except _Return as r:
                    ret = r.value
                self.fuel = sub.fuel
                for nm in nonlocals:
                    if nm in sub.env:
                        self.env[nm] = sub.env[nm]
                # mutable containers are shared by reference already; other names assigned in the helper stay local to it
                return ret
            args = [self.expr(a) for a in e.args]
            if f == "len" and len(args) == 1 and isinstance(args[0], (list, tuple, str)):
                return len(args[0])
            if f == "range" and 1 <= len(args) <= 3 and all(isinstance(a, int) for a in args):
                r = range(*args)
                if len(r) > 64:
                    raise Unsupported("long range")
                return r
            if f in ("list", "tuple") and len(args) <= 1:
                src = args[0] if args else []
                if isinstance(src, (list, tuple, range)):
                    return list(src) if f == "list" else tuple(src)
            if f == "set" and len(args) <= 1 and (not args or isinstance(args[0], (list, tuple, set, range))):
                return set(args[0]) if args else set()
            if f == "frozenset" and len(args) <= 1 and (not args or isinstance(args[0], (list, tuple, set, frozenset, range))) and all(isinstance(x, (int, str, type(None))) for x in (args[0] if args else ())):
                return frozenset(args[0]) if args else frozenset()
            if f == "reversed" and len(args) == 1 and isinstance(args[0], (list, tuple)):
                return list(reversed(args[0]))
            if f == "str" and len(args) == 1 and isinstance(args[0], (str, int)):
                return str(args[0])
            if f == "bool" and len(args) == 1:
                return self.truth(args[0])
            if f == "cast" and len(args) == 2:
                return args[1]
            if f == "sum" and len(args) == 1 and isinstance(args[0], (list, tuple)) and all(isinstance(x, int) for x in args[0]):
                return sum(args[0])
            if f in ("any", "all") and len(args) == 1 and isinstance(args[0], (list, tuple)):
                return (any if f == "any" else all)(self.truth(x) for x in args[0])
            if f == "divmod" and len(args) == 2 and all(isinstance(a, int) for a in args) and args[1] != 0:
                return tuple(divmod(args[0], args[1]))
            if f == "abs" and len(args) == 1 and isinstance(args[0], int):
                return abs(args[0])
            if f == "int" and len(args) == 1 and isinstance(args[0], (int, bool)):
                return int(args[0])
            if f == "enumerate" and len(args) == 1 and isinstance(args[0], (list, tuple)):
                return [tuple(x) for x in enumerate(args[0])]
            if f == "zip" and args and all(isinstance(a, (list, tuple, range)) for a in args):
                return [tuple(x) for x in zip(*args)]
            if f in ("min", "max") and args and all(isinstance(a, int) for a in args):
                return (min if f == "min" else max)(args)
            raise Unsupported(f"call of {f}")
        raise Unsupported("call of an expression")


def _load(t: ast.AST) -> ast.AST:
    import copy
    c = copy.deepcopy(t)
    for n in ast.walk(c):
        if hasattr(n, "ctx"):
            n.ctx = ast.Load()
    return c
