from __future__ import annotations

import argparse
import os
import sys
import time
import traceback

from . import facts as facts_mod
from .ctx import Ctx
from .model import AnalysisError, Program
from .report import Recorder, finish, VERIF


def analyse(prop: str, tier: str, repo: str):
    """run every rule of the property against the tree at `repo`; -> (Recorder, facts)"""
    from .props import PROPS
    spec = PROPS[prop]
    P = Program(repo)
    F = facts_mod.load(tier)
    F["setup"] = facts_mod.setup_facts(repo)
    R = Recorder(prop)
    for m in P.mods.values():
        for line in getattr(m, "norm_log", []):
            R.note("normalisation: " + line)
    ctx = Ctx(P, F, R, tier)
    for rule in spec["rules"]:
        R.rules_run.append(rule.__name__)
        try:
            rule(ctx)
        except AnalysisError as ex:
            # one rule that cannot decide must not hide what the others found
            R.errors.append(f"{rule.__name__}: {ex}")
        except Exception as ex:  # a rule that crashes on an unforeseen shape: undecided, never a pass
            tb = traceback.extract_tb(ex.__traceback__)[-1]
            R.errors.append(f"{rule.__name__}: checker raised {type(ex).__name__}: {ex} at {tb.filename.split('/')[-1]}:{tb.lineno}")
    return R, F


def run_check(prop: str, tier: str, repo: str, evidence_dir: str, write_evidence: bool = True) -> int:
    from .props import PROPS
    t0 = time.time()
    if prop not in PROPS:
        print(f"ANALYSIS-ERROR property={prop}: not a claimed property")
        return 2
    spec = PROPS[prop]
    try:
        R, F = analyse(prop, tier, repo)
        extra = {
            "versions_covered": sorted(F["supported"].values()),
            "facts_digest": facts_mod.digest(),
            "facts_rederived": bool(F.get("_rederived")),
            "repo": repo,
            "decides": sorted(set(spec["decides"]) | set(R.counts)),
            "not_decided": spec["not_decided"],
        }
        if tier == "thorough" and write_evidence:
            from .selftest import run_selftest
            from .report import load_known, match_known
            known = load_known()
            if not R.errors and all(match_known(prop, f, known) for f in R.findings):
                st = run_selftest(prop, repo)
                extra["selftest"] = st
                if st["undetected"] or st["twins_alarmed"]:
                    raise AnalysisError(f"self-test: undetected variants {st['undetected']}, twins alarmed {st['twins_alarmed']}")
        extra["analysis_errors"] = list(R.errors)
        rc = finish(R, tier, t0, spec["explanation"], spec["assumptions"], extra, evidence_dir, write_evidence)
        for e in R.errors:
            print(f"ANALYSIS-ERROR property={prop}: {e}")
        if rc == 0 and R.errors:
            return 2
        return rc
    except AnalysisError as ex:
        print(f"ANALYSIS-ERROR property={prop}: {ex}")
        return 2
    except Exception:
        traceback.print_exc()
        print(f"ANALYSIS-ERROR property={prop}: checker raised")
        return 2


def main() -> int:
    ap = argparse.ArgumentParser(prog="svx")
    sub = ap.add_subparsers(dest="cmd", required=True)
    c = sub.add_parser("check")
    c.add_argument("prop")
    c.add_argument("--tier", default=os.environ.get("VERIF_TIER", "quick"), choices=["quick", "thorough"])
    c.add_argument("--repo", default=os.environ.get("SVX_REPO", "/repo"))
    c.add_argument("--evidence-dir", default=os.path.join(VERIF, "evidence"))
    c.add_argument("--no-evidence", action="store_true")
    f = sub.add_parser("facts")
    f.add_argument("--write", action="store_true")
    iv = sub.add_parser("inventory")
    iv.add_argument("--write", action="store_true")
    iv.add_argument("--repo", default="/repo")
    s = sub.add_parser("selftest")
    s.add_argument("prop", nargs="?")
    s.add_argument("--repo", default="/repo")
    s.add_argument("-v", action="store_true")
    a = ap.parse_args()
    if a.cmd == "check":
        return run_check(a.prop, a.tier, a.repo, a.evidence_dir, not a.no_evidence)
    if a.cmd == "facts":
        if a.write:
            facts_mod.write_snapshot()
            print("snapshot written", facts_mod.digest())
        else:
            facts_mod.load("thorough")
            print("snapshot agrees with artefacts", facts_mod.digest())
        return 0
    if a.cmd == "inventory":
        import ast as _ast
        import json as _json
        from . import normalize as _nz
        from .model import PKG as _PKG
        inv = {}
        pkgdir = os.path.join(a.repo, _PKG)
        for fn in sorted(os.listdir(pkgdir)):
            if fn.endswith(".py"):
                with open(os.path.join(pkgdir, fn), encoding="utf-8") as fh:
                    src_ = fh.read()
                    inv[fn[:-3]] = _nz.qualnames(_ast.parse(src_))
                    locs_ = locals().setdefault("_locs", {})
                    locs_[fn[:-3]] = _nz.local_names(_ast.parse(src_))
        if a.write:
            with open(_nz.INVENTORY_PATH, "w") as fh:
                _json.dump(inv, fh, indent=0, sort_keys=True)
                fh.write("\n")
            with open(_nz.LOCALS_PATH, "w") as fh:
                _json.dump(locs_, fh, indent=0, sort_keys=True)
                fh.write("\n")
            print("inventory written:", sum(len(v) for v in inv.values()), "definitions in", len(inv), "modules")
            return 0
        old = _nz.load_inventory()
        new = {m: sorted(set(v) - set(old.get(m, []))) for m, v in inv.items()}
        new = {m: v for m, v in new.items() if v}
        print("definitions not in the reference inventory (these are inlined where possible):", new or "none")
        return 0
    if a.cmd == "selftest":
        from .selftest import run_selftest, print_selftest
        st = run_selftest(a.prop, a.repo, verbose=a.v)
        print_selftest(st)
        return 2 if (st["undetected"] or st["twins_alarmed"]) else 0
    return 2


if __name__ == "__main__":
    try:
        sys.exit(main())
    except SystemExit:
        raise
    except BaseException as ex:  # never a traceback (it would look like exit 1 = violation)
        tb = traceback.extract_tb(ex.__traceback__)[-1]
        print(f"ANALYSIS-ERROR checker failed to run: {type(ex).__name__}: {ex} at {tb.filename.split('/')[-1]}:{tb.lineno}")
        sys.exit(2)
