from .rules import version, layout, opcodes as o, engine as e, glue
NOT_APPLICABLE = {}
def S(rules): return {"rules": rules, "explanation": "x", "assumptions": [], "decides": [], "not_decided": []}
PROPS = {
 "C01": S(version.RULES + layout.RULES + [o.opc3_prologue, o.opc3b_fillers, o.int_intervals, o.exi1_producers, o.join1]),
 "C02": S([o.opc1_cache_normalisation, o.exi2_consumers, o.int_intervals]),
 "C05": S(e.C05), "C10": S(e.C10), "C11": S(e.C11), "C13": S(e.C13), "C16": S(e.C16),
 "C17": S(glue.C17),
 "C08": S([o.opc2_target_decoder, o.opc3_prologue, o.opc3b_fillers, o.line1, o.fall1]),
}
