"""Property -> rules, and the texts that go into MANIFEST.json / evidence."""
from .rules import formulas, version, layout, opcodes as o, engine as e, glue, registry, safety, slices, fmt, concurrency as cc

TECH = "repository-specific static analysis"
BASE_ASSUME = [
    "ordinary Python semantics of try/except/finally, with, threading.local, dict and deque operations",
    "the analysed tree is what gets imported (no monkey-patching of stackscope at run time)",
    "before the rules look, the tree is normalised against the pinned reference (svx/data/inventory.json, locals.json): helpers and locals the reference does not have are inlined / replaced "
    "by their value under side conditions that make the rewrite semantics-preserving, and a new keyword-only parameter with a constant default that nothing in its module passes is read "
    "at that default (the properties are about the documented interface); every rewrite is listed in the evidence notes",
]
FACT_ASSUME = [
    "CPython 3.9.18 / 3.10.13 / 3.11.7 / 3.12.1 under /root/.pyenv/versions stand for the supported minor versions (their headers, opcode tables, compiler and contextlib.py are the fact sources)",
    "LP64, non-debug CPython build (no Py_TRACE_REFS header padding)",
]


def S(rules, *, explanation, decides, not_decided, assumptions, level_text, level_note, technique, design_ref):
    return dict(rules=rules, explanation=explanation, decides=decides, not_decided=not_decided, assumptions=assumptions,
                level_text=level_text, level_note=level_note, technique=technique, design_ref=design_ref)


PROPS = {
    "C01": S(
        version.RULES + layout.RULES + formulas.RULES + [o.opc3_prologue, o.opc3b_fillers, o.opc3c_prologue_eval, o.int_intervals, o.exi1_producers, o.exi2_consumers, o.join1, o.alias1, o.opc5_version_coverage, o.opc6_exit_templates, o.opc8_jump_arithmetic, o.opc10_handler_queue_order, o.opc16_exit_sites_310, safety.run1_310, o.opc12_block_walk_table, o.opc13_exception_path_exit, o.opc14_async_position_310, safety.snap, safety.eqkey1],
        explanation="Necessary conditions of 'contexts of a suspended frame are exact on CPython 3.9-3.12', decided from source: "
                    "partial evaluation of every sys.version_info branch over the four supported interpreters (every strict opcode lookup names an opcode that exists where it is reachable; "
                    "the ctypes module selected for V is one whose asserts hold for V; version-conditional names are bound wherever they are used); "
                    "field-by-field agreement of the ctypes structures with the C headers of each interpreter; the with-prologue length constants and filler opcodes against what each compiler emits; "
                    "inclusive-interval agreement between the exception-table parser and its consumers; the 'exiting context is last' producer convention; the three-way join of _contexts_active_by_trickery.",
        decides=["VER-0..3", "OPC-4", "LAY-311", "LAY-310", "OPC-3", "OPC-3b", "INT", "EXI-1", "JOIN-1"],
        not_decided=["that the bytecode pattern matcher resolves the right with-block for every shape the compiler emits (finding F2 of the property text: needs the matcher to be run on bytecode)",
                     "data-dependent EXTENDED_ARG / CLEANUP_THROW / NOP index arithmetic", "the CFG walk used on 3.9/3.10"],
        assumptions=BASE_ASSUME + FACT_ASSUME,
        level_text="Static necessary-condition check: every rule instance (obligation) is enumerated from /repo's AST on each run and compared with fact tables derived from CPython's own headers, opcode tables and compiler output for 3.9-3.12. "
                   "It decides the version-soundness, layout-agreement and convention clauses of the property for all four interpreters at once (the suite runs on one), not the behavioural exactness of the pattern matcher.",
        level_note="Trusted: CPython headers/opcode tables/compile() output of the four interpreters in the sandbox; the svx checker itself (self-tested on seeded variants in the thorough tier).",
        technique="static analysis: partial evaluation over the supported-version set + reader/writer table agreement (ctypes layout vs C headers, prologue constants vs compiler output); truth tables of the 3.9/3.10 block walk; abstract evaluation of source fragments by a purpose-built evaluator (engine MINI: symbolic / opaque operands, nothing of /repo imported or run) against interpreter facts (compiled with-statement layouts, code-object shapes, EXCEPT_HANDLER block contents)",
        design_ref="DESIGN.md section 4, C01",
    ),
    "C02": S(
        [o.opc1_cache_normalisation, o.exi2_consumers, o.alias1, o.int_intervals, o.opc5_version_coverage, o.opc6_exit_templates, o.opc8_jump_arithmetic, o.opc10_handler_queue_order, o.opc12_block_walk_table, o.opc13_exception_path_exit, o.opc14_async_position_310, o.opc15_exit_sites, o.opc16_exit_sites_310, o.exi1_producers, layout.blk1] + [version.ver1_opcodes, version.ver2_dispatch, fmt.mode4, fmt.cont7],
        explanation="Clauses specific to frames running on the calling thread: a forward must-dataflow over the CFG of currently_exiting_context tracks whether `offs` has skipped inline CACHE units "
                    "on every path to each identity test against an opcode that carries cache entries in some reachable interpreter (SEND on 3.12, CALL on 3.11/3.12, PRECALL on 3.11) -- "
                    "a running frame's f_lasti may rest on such an entry; every consumer addresses the exiting context as [-1] and recovers obj from the first argument of the next inner frame; "
                    "interval convention of the handler-depth lookup that trims a running frame's stack; plus the version rules on the code involved.",
        decides=["OPC-1", "EXI-2", "INT", "OPC-5", "OPC-6", "OPC-12", "OPC-13", "OPC-14", "OPC-15", "BLK-1", "VER-1", "VER-2"],
        not_decided=["per-opcode f_lasti conventions beyond the cache-entry rule", "everything listed under C01"],
        assumptions=BASE_ASSUME + FACT_ASSUME + ["pycore_frame.h: prev_instr 'may be an inline CACHE entry' for a running frame"],
        level_text="Static path-sensitive check (must-analysis on the function's CFG, per interpreter version) of the cache-normalisation discipline, plus sibling-agreement checks on the 'exiting context is last' convention. "
                   "Found F1 (running __aexit__ on 3.12), repaired in /repo; reports it again if it returns.  States F2 (exit call of a with-body that ends in a compound statement is not resolved on 3.11 / 3.12) "
                   "as nine open known findings (OPC-15: the function evaluated on 104 compiled exit sites); any other shape that stops resolving is a violation.",
        level_note="Necessary conditions only; inline-cache-entry counts come from each interpreter's opcode module.",
        technique="static analysis: CFG must-dataflow (typestate RAW/NORM of the instruction offset) + sibling agreement + truth tables (block walk, async position); abstract evaluation of source fragments by a purpose-built evaluator (engine MINI: symbolic / opaque operands, nothing of /repo imported or run) against interpreter facts: currently_exiting_context evaluated on 104 compiled exit sites (3.11/3.12) and on 108 exit sites observed by running sample shapes under 3.9/3.10",
        design_ref="DESIGN.md section 4, C02",
    ),
    "C05": S(
        e.C05 + version.API + [slices.ctx678, e.ori_rules, glue.glue12, glue.glue13],
        explanation="The per-call-site containment discipline behind 'extract never raises': every call in extract/extract_child/extract_iter is resolved and classified; calls that run third-party code "
                    "(unwrap_stackitem, FrameIterator stepping, contexts_active_in_frame, fill_context, elaborate_frame) must lie in a try whose handler catches Exception, does not re-raise or leave the engine loop, "
                    "and appends the exception to the list that becomes Stack.error; every pop/popleft/[0]/[-1] on the engine's queues must be dominated by a non-emptiness test (CFG must-dataflow); "
                    "a frame taken from the queue is yielded on every non-raising path; the error list maps to None / the exception / an ExceptionGroup by length; every local is definitely assigned "
                    "on all paths including exceptional edges; every remaining call is on a reviewed allowlist (an unlisted call makes the check undecided, exit 2).",
        decides=["CONT-1", "CONT-2", "CONT-3", "CONT-4", "CONT-5", "DEF-1", "CONT-W", "TRUTH-2", "GLUE-12", "GLUE-13", "VER-4"],
        not_decided=["that .error survives formatting", "pairs of faults interacting", "warnings escalated to errors by a -W error filter", "AssertionError from the engine's own asserts (argued from its invariants, not checked)"],
        assumptions=BASE_ASSUME + ["hook results documented as sequences behave as sequences (len/reversed/iteration do not raise)"],
        level_text="Static discipline check: the property is a per-call-site try/except discipline, which is visible in the shape of the code on every path; the rules enumerate every call site and every queue access of the engine on each run. "
                   "Found F6 (IndexError on the documented insert form), repaired in /repo.",
        level_note="Decides the containment discipline, not run-time equality of outer frames with the fault-free extraction.",
        technique="static analysis: call classification + enclosing-handler check + CFG must-dataflows (non-emptiness, definite assignment) + all-paths-pass-through",
        design_ref="DESIGN.md section 4, C05",
    ),
    "C08": S(
        [o.opc2_target_decoder, o.opc3_prologue, o.opc3b_fillers, o.line1, o.fall1, version.ver1_opcodes, o.opc5_version_coverage, o.opc9_unpack_ex, o.opc10_handler_queue_order, o.opc11_step_semantics, o.opc3c_prologue_eval, safety.esc1, safety.eqkey1],
        explanation="Exhaustiveness of the `as`-target decoder against the compilers: the set of opnames with a (non-raising) case in describe_assignment_target is compared with every opname that the compiler of each supported interpreter "
                    "emits in the store sequence of an always-rendered target (387 generated targets x 4 scopes x 4 interpreters, plus every always-rendered `as` target of every with statement of the 3.11 and 3.12 standard libraries, delimited by instruction source positions; compile+dis only); with-prologue lengths and fillers per interpreter (16 generated layouts plus every with statement of those standard libraries); "
                    "start_line is taken from the line tracking updated before the with-opcode test; the local-name fallback applies only when varname is None and obj is known, by identity.",
        decides=["OPC-2", "OPC-2b", "OPC-3", "OPC-3b", "OPC-9", "OPC-11", "LINE-1", "FALL-1", "VER-1"],
        not_decided=["the effect of decoder cases for opnames outside OPC-11's reference table", "data-dependent skips", "the 'static leg' over the standard library (would run analyze_with_blocks: out of family)"],
        assumptions=BASE_ASSUME + FACT_ASSUME + ["the generated target grammar (names, attributes, constant/name subscripts, positional calls, (starred) tuple/list unpacking, nesting <= 2) covers the documented always-rendered set"],
        level_text="Static exhaustiveness check of a hand-written decoder against fact tables of compiler output for each supported interpreter. Found N1 (PUSH_NULL unhandled on 3.11/3.12), repaired in /repo.",
        level_note="Compiler facts come from compile()+dis on each interpreter (nothing executed, no stackscope code involved).",
        technique="static analysis: exhaustiveness (handled-opcode set vs compiler-emitted set per version) + constant folding of prologue arithmetic; abstract evaluation of source fragments by a purpose-built evaluator (engine MINI: symbolic / opaque operands, nothing of /repo imported or run) against interpreter facts (per-opcode stack effect of the decoder, prologue length for every compiled with-statement layout)",
        design_ref="DESIGN.md section 4, C08",
    ),
    "C10": S(
        e.C10,
        explanation="Shape of the two-deque engine: the progress counter is incremented once per unwrap_stackitem call, reset in every progress branch and before the loop, compared with the literal 100, and its RuntimeError is raised inside the containment try; "
                    "the elaborate_frame result is dispatched over exactly the four documented shapes (the replace/insert condition is checked as a boolean function of its atoms; prune removes depth >= the frame's depth; insert drops exactly one queued copy); "
                    "yields_frames wraps in FrameIterator and only FrameIterators are stepped; PRUNE is (); queue accesses are guarded. "
                    "By evaluation (engine MINI) and reaching definitions: the next_inner handed to elaborate_frame is, by identity, the head of the elaboration queue or None (ENG-8, seven queue shapes); "
                    "no in-place change of a local can reach an object a hook returned (ENG-9); the loop that drains a hook's frame iterator leaves only through its StopIteration / Exception handlers, never after a count (ENG-10); "
                    "stack items are never tested for truth (TRUTH-1/2/3).",
        decides=["ENG-1", "ENG-2", "ENG-8", "ENG-9", "ENG-10", "YF-1", "CONT-3", "TRUTH-1", "TRUTH-2", "TRUTH-3"],
        not_decided=["equality with a reference interpretation of the rules on every item tree (finding F7: depth bookkeeping after nested inserts)", "index arithmetic on depths"],
        assumptions=BASE_ASSUME,
        level_text="Static structural check of the engine's dispatch and guard discipline; necessary conditions of the documented rules, not a behavioural equivalence.",
        level_note="Behaviour over run-time item trees is not decided.",
        technique="static analysis: structural/dispatch-shape rules, truth tables over condition atoms, CFG must-dataflow and reaching definitions, abstract evaluation of code fragments over symbolic queue contents (engine MINI)",
        design_ref="DESIGN.md section 4, C10; sections 19, 20",
    ),
    "C11": S(
        e.C11 + [e.cont1_2, e.opt1, e.opt2],
        explanation="Loop protocol of fill_context: elaborate_context dominates unwrap_context in each iteration, both on the current context.obj; whenever context.obj is rebound, inner_stack=None and children=() are stored on every path before the next elaborate; "
                    "None and PRUNE both leave the loop (PRUNE after hide=True, tested before the rebinding); the loop is bounded by range(100) and its else raises; outside an extraction fill_context re-enters itself under push(<extract's defaults>); "
                    "both lookup paths of the generator-manager unwrapper pass the outermost frame after a registry membership test, and contextlib's base type is registered for both hooks.",
        decides=["CTX-1", "CTX-2", "CTX-3", "CTX-4", "CTX-5"],
        not_decided=["hook results for every wrapper chain"],
        assumptions=BASE_ASSUME,
        level_text="Static protocol check (order, reset, exit and bound obligations on the loop's CFG). Given Python semantics these imply the documented steady-state behaviour for well-behaved hooks.",
        level_note="Hooks themselves are third-party code.",
        technique="static analysis: CFG dominance and all-paths-pass-through on the hook loop",
        design_ref="DESIGN.md section 4, C11",
    ),
    "C12": S(
        registry.C12 + [safety.idkey1, safety.eqkey1],
        explanation="The dispatch registry is an IdentityDict; inside IdentityDict every keyed access wraps the key in id(), every store keeps the key object as element 0, every value accessor projects element 1 (sibling agreement); "
                    "get_code has a rebinding+continue case for partial, MethodType, classmethod, staticmethod and __wrapped__ and leaves its loop only through the final break; nested names are resolved through co_consts by co_name; "
                    "registration is an unconditional item store keyed by get_code(code, *names) (latest wins), dispatch falls back only on KeyError; every customize option is forwarded in the decorator form and has an effect in customize_it; IdentityDict.pop tells 'no default given' from default=None by a private sentinel (REG-9).",
        decides=["REG-1", "REG-2", "REG-3", "REG-4", "REG-5", "REG-6", "REG-7", "REG-8", "REG-9"],
        not_decided=["inspect.unwrap's behaviour", "arbitrary wrapper towers at run time"],
        assumptions=BASE_ASSUME,
        level_text="Static sibling-agreement and option-liveness check. Found F3 (hide_line dead in both forms), repaired in /repo.",
        level_note="Necessary structural conditions of identity-keyed dispatch.",
        technique="static analysis: sibling agreement inside IdentityDict, case exhaustiveness of get_code, option liveness (forwarded and read with effect)",
        design_ref="DESIGN.md section 4, C12",
    ),
    "C13": S(
        e.C13 + [e.eng5],
        explanation="ExtractOptions derives from threading.local with a single module-level instance and None defaults; push saves both fields before writing them and restores exactly the saved pair in a finally enclosing the single yield; "
                    "no other code stores to the fields; extract/extract_outermost do all work inside push(<own parameters under their own names>), extract_since/extract_until forward both options; all four agree on the documented defaults; "
                    "extract_child refuses when options are unset, and returns the root-only stub iff for_task and not recurse_child_tasks (truth table); frame.contexts is stored only under with_contexts and that region changes no engine state.",
        decides=["OPT-1", "OPT-2", "OPT-3", "OPT-4", "OPT-5", "OPT-6", "OPT-7", "CTX-4"],
        not_decided=["hooks that themselves consult frame.contexts"],
        assumptions=BASE_ASSUME,
        level_text="Static scoping-discipline check: given the semantics of threading.local, with and try/finally, these rules imply the property (per-thread, well-nested, exception-safe option scoping).",
        level_note="The strongest fit of the list: the property is a scoping discipline visible in the code.",
        technique="static analysis: class-hierarchy fact, save/restore pairing decided by evaluating push over opaque values (engine MINI) with a CFG-shape fallback, single-writer (who-may-write) rule, argument forwarding, truth tables",
        design_ref="DESIGN.md section 4, C13",
    ),
    "C16": S(
        e.C16 + [e.eng5, e.eng2, e.eng34, e.opt4, glue.glue9],
        explanation="extract_outermost and extract_child consume the same generator function with (stackitem, fresh error list) and extract_outermost returns its first item; in extract_outermost's StopIteration handler every path raises "
                    "(the recorded error, an ExceptionGroup of them, or a new RuntimeError, by count); the package's only Frame(...) construction is preceded by the filter that reduces origin to a generator/coroutine/async generator or None; "
                    "better_origin falls back when the candidate is not weak-referenceable.",
        decides=["ORI-1", "ORI-2", "ORI-3", "ORI-4"],
        not_decided=["that extract_outermost(origin) recovers the frame for every frame (finding F5: origin inherited by frames inward of a running coroutine is a run-time fact)"],
        assumptions=BASE_ASSUME,
        level_text="Static check of three structural clauses; the recovery contract itself is a run-time statement and is not claimed.",
        level_note="Thin: necessary conditions only.",
        technique="static analysis: shared-iterator agreement, all-paths-raise evaluation by error count, dominating filter before the only constructor call, decision table of better_origin over abstract object kinds (engine MINI)",
        design_ref="DESIGN.md section 4, C16",
    ),
    "C06": S(
        safety.C06 + [safety.snap, safety.snap8, safety.run1_310, o.alias1, o.exi1_producers, fmt.mode_rules, e.opt1, e.truth2, e.eng9, safety.idkey1, safety.eqkey1] + layout.RULES + formulas.RULES,
        explanation="Structural clauses of 'extraction is a pure observation': (ESC-1) in every function that can run during an extraction, every store into persistent state (globals, module-level containers and objects, "
                    "mutable defaults, thread-local state, closure cells of registered hooks, memoising decorators) is enumerated and its stored value must not be derived from a target (value-provenance propagation with id/len/repr/type/code-object sanitisers); "
                    "(ESC-2) no send/throw/close/asend/athrow/aclose/__next__/next() on anything the package did not create itself, and unwrap results are iterated only as FrameIterator/Sequence; "
                    "(ESC-3) every coroutine / async generator the package instantiates for type discovery is closed on all paths; (NULL-1) every PyObject* materialisation has a NULL guard; "
                    "plus the snapshot protocol (SNAP) and ctypes layout agreement (LAY) for 'never crashes'.",
        decides=["ESC-1", "ESC-2", "ESC-3", "NULL-1", "SNAP-1..5", "LAY-311", "LAY-310"],
        not_decided=["reference-count balance inside ctypes itself", "behavioural equivalence of an observed and an unobserved run", "repeatability (two extractions compare equal)"],
        assumptions=BASE_ASSUME + FACT_ASSUME + ["code objects, type objects, ints, bools and strings are not among the objects the property says must not be retained"],
        level_text="Static escape/ownership check: who may store what where, who may resume what, and close-what-you-created on all paths. Necessary conditions of purity and memory safety; the behavioural equivalence itself is not claimed.",
        level_note="Flow-insensitive provenance inside each function; persistent sinks are enumerated syntactically (assignments through globals/module-level bases/mutable defaults/closure cells, mutator method calls, memoising decorators).",
        technique="static analysis: value-provenance (taint) to persistent sinks, resume-capable call receivers must be fresh, all-paths close obligations on the CFG",
        design_ref="DESIGN.md section 4, C06",
    ),
    "C07": S(
        safety.C07 + layout.RULES + formulas.RULES + [e.cont1_2, e.eng10, fmt.cont7, slices.slc8, o.int_intervals],
        explanation="Protocol of the racing-thread snapshot in _lowlevel_cpython_311.inspect_frame: every read through the interpreter-frame pointer (f_frame.contents, iframe fields, addressof, py_object array construction, slot reads) lies inside the retry loop's try; "
                    "the validity token f_lasti is sampled before the first raw read of each attempt; on the CFG, an `assert frame.f_lasti == lasti_before` re-check lies on every path from the raw header reads to the first slot read, between consecutive slot reads, "
                    "and between the last raw read and the acceptance of the snapshot; the AssertionError handler cannot fall through to acceptance; the loop is bounded by a literal and exhaustion raises. "
                    "unwrap_thread returns no frames unless the frame exists and the thread was alive before and after sys._current_frames() (truth table over three atoms). ctypes layouts agree with the headers; "
                    "the 3.9 / 3.10 reader's bound on the block count admits 0..CO_MAXBLOCKS inclusive (BLK-2) and its per-block bounds what each interpreter stores (BLK-1); the loop that drains a thread's frame iterator has no item cap (ENG-10).",
        decides=["SNAP-1", "SNAP-2", "SNAP-3", "SNAP-4", "SNAP-5", "SNAP-8", "THR-1", "NULL-1", "LAY-311", "LAY-310", "BLK-1", "BLK-2", "ENG-10"],
        not_decided=["that the re-check protocol is sufficient under every interleaving (the GIL-switch argument in the source comments)", "that reported frames belong to the thread", "exactness for a blocked thread",
                     "_lowlevel_cpython_310 has no snapshot re-validation at all; SNAP is scoped to the 3.11+ module"],
        assumptions=BASE_ASSUME + FACT_ASSUME,
        level_text="Static protocol check on the function's CFG (recheck-around-raw-read discipline, retry/reject structure) plus a truth-table check of the liveness guard. Decides that the protocol is followed at every raw read, not that it is sufficient under all schedules.",
        level_note="Schedules are not explored; the hook points suggested by the property are not needed because nothing is executed.",
        technique="static analysis: all-paths-pass-through on the CFG between raw reads, re-checks and acceptance; bounded-read and running/suspended consistency rules for both ctypes readers; truth table of the liveness guard; slot-count formulas evaluated on observed code-object shapes (engine MINI)",
        design_ref="DESIGN.md section 4, C07",
    ),
    "C04": S(
        slices.C04 + [safety.esc1, safety.idkey1],
        explanation="Three necessary conditions of running-stack slicing, and a sibling check: the limit-trimming condition of unwrap_stackslice as a truth table over (inner is None, outer is None): the head is kept iff only outer is given; "
                    "the argument mapping of extract_since / extract_until onto StackSlice (including the f_back walk for a frame-valued limit) and keyword-only construction of every StackSlice; "
                    "get_true_caller skips exactly stackscope's own non-test modules and the singledispatch wrapper; the three built-in unwrappers agree (running -> StackSlice(outer=frame), suspended -> (frame, awaited)); every frame unwrap_stackslice hands out (other than on its error path) is dominated, on the CFG, by the limit trimming.",
        decides=["SLC-1", "SLC-2", "SLC-3", "SLC-4", "SLC-5", "SLC-6", "SLC-7", "SLC-8"],
        not_decided=["all index arithmetic (index(inner) - 1, [to_idx:from_idx:-1], greenlet stitching, try_from): run-time list positions", "other-thread slices (outside the property's quantifier; see DESIGN.md observations)"],
        assumptions=BASE_ASSUME,
        level_text="Thin static check: truth tables and argument-mapping agreement. Necessary conditions only; the off-by-one surface of the slicing arithmetic is not decided by any sound static argument in reach.",
        level_note="Thin.",
        technique="static analysis: truth tables over condition atoms, argument-mapping agreement, sibling agreement",
        design_ref="DESIGN.md section 4, C04",
    ),
    "C09": S(
        slices.C09 + [e.ctx5, e.cont1_2, e.opt1, o.alias1, o.exi1_producers, o.exi2_consumers, o.opc5_version_coverage, o.opc6_exit_templates, o.opc12_block_walk_table, o.opc13_exception_path_exit, o.opc14_async_position_310, o.opc15_exit_sites, o.opc16_exit_sites_310, safety.esc1, fmt.ref1] + version.API,
        explanation="inner_stack is assigned from extract_child(<manager's generator>, for_task=False) only under `not context.is_exiting` in both sibling registrations; the four-way classification of elaborate_exit_stack assigns method names in sync/async pairs that are real methods of ExitStack/AsyncExitStack "
                    "on every supported interpreter, and every private contextlib name it reads (_exit_callbacks, element order (is_sync, callback), wrapper name _exit_wrapper, free variables args/kwds, __wrapped__, MethodType exit wrappers, _GeneratorContextManagerBase attributes) "
                    "agrees with contextlib.py of CPython 3.9-3.12; the child's is_async is the negation of is_sync; children are unfolded with fill_context, appended in deque (registration) order and assigned once.",
        decides=["GCM-1", "CTX-5", "CTX-6", "CTX-7", "CTX-8"],
        not_decided=["the resulting tree for every registration sequence at run time"],
        assumptions=BASE_ASSUME + FACT_ASSUME,
        level_text="Static reader/writer agreement between stackscope's exit-stack glue and contextlib's source on four interpreters, plus polarity/order/guard rules. Necessary conditions.",
        level_note="contextlib facts are extracted from each interpreter's contextlib.py by ast.",
        technique="static analysis: classification table vs contextlib.py of 4 versions, polarity and ordering rules; exit-site resolution evaluated on compiled / observed exit sites (engine MINI, shared with C02)",
        design_ref="DESIGN.md section 4, C09",
    ),
    "C18": S(
        fmt.C18 + version.API,
        explanation="Shape facts of the tree formatter: every prefix marker is chosen by `<ascii> if opts.ascii_only else <unicode>` with an ASCII, 2-character counterpart, the unicode->ascii map is a function across the three _format methods, unicode markers of one method are pairwise distinct, "
                    "and Frame._format recognises child-context lines by exactly the marker Context._format emits; all four visibility tests are `hide and not show_hidden` (truth tables); in every loop over a sub-component's lines each line reaches lines.append(marker + line) on every path; "
                    "every produced line is newline-terminated; format forwards its options by name and str() joins format(); contexts are rendered iff show_contexts.",
        decides=["FMT-1", "FMT-2", "FMT-3", "FMT-5", "FMT-7", "FMT-17"],
        not_decided=["unambiguous read-back of the tree", "blank-line logic (did_blank)", "startswith(child indicator) applied to already-prefixed text"],
        assumptions=BASE_ASSUME,
        level_text="Thin static check of five shape facts of the formatter; the parse-back property is not claimed.",
        level_note="Thin.",
        technique="static analysis: marker-table agreement, truth tables, all-paths-pass-through for 'no dropped line'",
        design_ref="DESIGN.md section 4, C18",
    ),
    "C19": S(
        fmt.C19 + [fmt.fmt10_11] + version.API,
        explanation="The two summary-side visibility tests; sibling agreement between Frame._format and as_stdlib_summary_with_contexts on when the frame's own entry is omitted (truth table, addressed as contexts[-1]); "
                    "no argument of any FrameSummary construction is a frame or object graph (locals is None or a dict of repr strings) and the entries carry (filename, lineno, funcname) / the with-line; "
                    "format_flat = header, StackSummary.format() iff frames, leaf, error; every option is forwarded to the same-named parameter through the summary entry points; "
                    "emission tables (FMT-13): for every truth assignment of the conditions the summary generators test, with helper methods inlined, Stack._frame_summaries yields per frame in order nothing (hidden), "
                    "the with-contexts series, or exactly the frame's own entry; a frame's series is each context's series then its own entry unless the last context is exiting; a context yields own entry, inner stack (contexts shown), children in that order; "
                    "stdlib API and introspection attributes used exist on every supported interpreter (VER-4, VER-5).",
        decides=["FMT-2", "FMT-4", "FMT-6", "FMT-8", "FMT-9", "FMT-12", "FMT-13", "VER-4", "VER-5"],
        not_decided=["pickle round trip", "equality with traceback's rendering"],
        assumptions=BASE_ASSUME,
        level_text="Thin static check: sibling agreement and argument provenance.",
        level_note="Thin.",
        technique="static analysis: abstract interpretation of the summary generators into emission tables over truth assignments (helpers inlined), sibling agreement, argument provenance of FrameSummary constructions, option-forwarding agreement over resolved callees",
        design_ref="DESIGN.md section 4, C19",
    ),
    "C20": S(
        fmt.C20 + [o.exi1_producers, o.alias1, o.opc1_cache_normalisation, o.opc6_exit_templates, o.opc12_block_walk_table, o.opc13_exception_path_exit, o.opc14_async_position_310, o.opc16_exit_sites_310, version.ver1_opcodes] + version.API,
        explanation="The trickery call is inside a try whose Exception handler warns with InspectionWarning and assigns the referents result (never re-raises), and referents is used when trickery is unavailable; the mode switch is a plain module-level global (not thread-local), "
                    "written only in set_trickery_enabled and _check_trickery_available and always under _trickery_lock; set_trickery_enabled stores its argument unchanged; _check_trickery_available returns the stored value whenever it is not None and re-tests after taking the lock; "
                    "a failing self-test warns and stores False; the referents producer filters bound __exit__/__aexit__ methods, derives is_async from the name, takes obj from __self__, appends the exiting entry last, and roots the scan at the owning generator exactly on 3.11/3.12.",
        decides=["CONT-7", "MODE-0", "MODE-1", "MODE-2", "MODE-3", "EXI-1", "REF-1", "VER-1"],
        not_decided=["soundness of gc.get_referents ordering", "the over-approximation bound (which extra entries can appear)"],
        assumptions=BASE_ASSUME + FACT_ASSUME,
        level_text="Static containment and switch-write-protocol check, plus structural clauses of the referents producer.",
        level_note="Necessary conditions.",
        technique="static analysis: enclosing-handler check, single-writer-under-lock rule, partial evaluation of the root selection over versions",
        design_ref="DESIGN.md section 4, C20",
    ),
    "C17": S(
        glue.C17 + [e.def1] + version.API,
        explanation="Protocol of the glue installer: there is one installer function and every call of a glue function goes through it (who-may-call); both references are removed from their registries (pop) before either is called; "
                    "the two calls are the exclusive arms of one if/elif with the module-provided one first; registry accesses, the scan loop and the calls are covered by glue_lock at every call site; "
                    "failures only warn and the scan loop cannot be left early; the length cache is written after the scan, inside the lock, from the snapshot taken before it; at decoration time glue runs only under a condition implying the module is imported and is otherwise pending; "
                    "the fast-path predicate is inspected for depending on sys.modules only through len() (open known finding F4).",
        decides=["GLUE-1", "GLUE-2", "GLUE-3", "GLUE-4", "GLUE-5", "GLUE-6", "GLUE-7", "GLUE-8", "GLUE-12", "GLUE-13", "DEF-1"],
        not_decided=["'by the time the first extraction returns' under preemption between the fast path and the lock (argued from GLUE-3/5, not explored)"],
        assumptions=BASE_ASSUME + ["module import is serialised by the import lock (registration at decoration time happens during import of stackscope._glue)"],
        level_text="Static protocol check (ordering, exclusivity, lock coverage, containment, cache-write position, who-may-call). Found N2 (eager glue bypassing the installer), repaired in /repo; F4 (len-only fast path) is listed as an open known finding.",
        level_note="Exactly-once under all interleavings is argued from lock coverage + pop-before-call, not model-checked.",
        technique="static analysis: who-may-call over resolved call sites, dominance (pop before call), lock-coverage at every caller, boolean implication of guards",
        design_ref="DESIGN.md section 4, C17",
    ),
    "C03": S(
        [slices.slc4, e.eng1, e.eng34, cc.eng6, e.truth1, e.truth2, e.asend1, e.asend2, e.eng7, e.eng5, e.eng10, e.opt7, glue.glue14, safety.idkey1] + version.API,
        explanation="Thin: structural necessary conditions of 'the frames are the path an exception would take'. The three built-in unwrappers, as truth tables over the tests they make: a suspended generator / coroutine / "
                    "async generator unwraps to (its frame, what it delegates to) in that order, with attributes of its own family that exist on every supported interpreter (SLC-4, VER-5, VER-5b); unwrap results take the "
                    "unwrapped item's place in order, one level deeper, and the queue is drained before a frame is elaborated (ENG-3, ENG-4); the only bound on the chain is the counter of unwraps *without progress*, reset at every "
                    "frame (ENG-1: chains of any depth); the block conditional on with_contexts neither leaves the iteration nor touches the queues (ENG-6: same frames with contexts on or off); hook results are never tested "
                    "for truthiness (TRUTH-1).",
        decides=["SLC-4", "ENG-1", "ENG-3", "ENG-4", "ENG-6", "TRUTH-1", "TRUTH-2", "ASEND-1", "VER-5"],
        not_decided=["that the run-time object graph (cr_await / gi_yieldfrom / gc.get_referents) links the frames an exception would traverse", "line numbers", "leaf and root values"],
        assumptions=BASE_ASSUME + FACT_ASSUME,
        level_text="Thin static check: necessary structural conditions of the chain walk only; equality with the exception path is not decided.",
        level_note="Thin.",
        technique="static analysis: truth tables of the unwrappers (abstract evaluation under boolean assignments), queue-discipline rules on the engine's CFG, attribute existence vs interpreter fact tables",
        design_ref="DESIGN.md section 13.4",
    ),
    "C14": S(
        cc.C14 + [safety.thr2, e.opt56, e.eng1, e.eng2, o.alias1, o.exi1_producers, o.exi2_consumers, o.int_intervals, o.opc3_prologue, o.opc3b_fillers, o.opc3c_prologue_eval, o.opc5_version_coverage] + version.API,
        explanation="Thin: structural necessary conditions in the Trio glue. A nursery context's obj is manager._nursery and its children are exactly [extract_child(t, for_task=True) for t in that nursery's child_tasks] "
                    "(unfiltered, in order); a Task unwraps to task.coro (TRIO-1); extract_child(for_task=True) returns a stub exactly when recursion was not requested (OPT-5/6); the worker thread of to_thread.run_sync is matched "
                    "by identity of the name object, not by its value (THR-2); the search for the Trio runner skips thread-local dicts without a 'runner' entry instead of failing (TRIO-2).",
        decides=["TRIO-1", "TRIO-2", "THR-2", "OPT-5", "OPT-6", "LOC-1", "ENG-1", "EXI-2"],
        not_decided=["isomorphism with Trio's live task tree", "stitching across thread hops for any alternation depth", "locals of Trio's own frames (a third-party implementation detail)"],
        assumptions=BASE_ASSUME + ["LOC-1 reads (never imports) the trio / greenback sources installed for the interpreter that runs the check (/venv); where a distribution is absent the comparison is skipped and said so in the evidence"],
        level_text="Thin static check: four structural clauses of the Trio glue; the tree isomorphism itself is not decided.",
        level_note="Thin.",
        technique="static analysis: shape / provenance rules on the Trio glue functions, truth table of extract_child's stub condition",
        design_ref="DESIGN.md section 13.4",
    ),
    "C15": S(
        cc.C15 + [slices.slc6, safety.esc1],
        explanation="Thin: unwrap_greenlet as a truth table over its four tests (no frame / alive / is the calling greenlet / has a parent): suspended -> StackSlice(inner=gr_frame); dead or unstarted -> no frames; "
                    "running but not the caller's -> RuntimeError before anything is taken from the caller's own stack; the caller's greenlet -> its own part of the running stack (GRN-1); greenlet_getcurrent is greenlet's own "
                    "getcurrent whenever greenlet is importable, the placeholder only under except ImportError (GRN-2); the walk through greenlet parents ends when there is no parent, not when a greenlet has no frame (SLC-6). "
                    "The three greenback hooks are evaluated (engine MINI) on their cases: a bridge frame with further frames inward returns None; as the innermost frame (or, for await_, suspended in greenlet.switch()) the shim continues "
                    "into the suspended child greenlet, else orig_coro, the trampoline into orig_coro, await_ into its coro local; each hook marks its frame hidden in every case (GRN-3, GRN-4); "
                    "the outcome / greenlet glue hides Value.send and Error.send, capture / acapture and greenlet.switch (GRN-5, evaluated with module objects as symbolic attribute paths).",
        decides=["GRN-1", "GRN-2", "GRN-3", "GRN-4", "GRN-5", "SLC-6", "LOC-1"],
        not_decided=["that greenback's frames carry the locals the hooks read (LOC-1 compares the names with the installed source, nothing more)", "frame identity along f_back chains", "finding F8"],
        assumptions=BASE_ASSUME + ["LOC-1 reads (never imports) the trio / greenback sources installed for the interpreter that runs the check (/venv); where a distribution is absent the comparison is skipped and said so in the evidence"],
        level_text="Thin static check: the lifecycle case table of unwrap_greenlet, two binding / walk clauses, and the case tables of the three greenback hooks.",
        level_note="Thin.",
        technique="static analysis: abstract evaluation of unwrap_greenlet under every assignment of its tests and of the greenback hooks / glue functions on symbolic frames (engine MINI), binding-site rule, loop-control rule",
        design_ref="DESIGN.md section 13.4",
    ),
}

NOT_APPLICABLE = {
}
