from .rules import version, layout, opcodes as o
NOT_APPLICABLE = {}
PROPS = {
 "C01": {"rules": version.RULES + layout.RULES + [o.opc3_prologue, o.opc3b_fillers, o.int_intervals, o.exi1_producers, o.join1], "explanation": "x", "assumptions": [], "decides": [], "not_decided": []},
 "C02": {"rules": [o.opc1_cache_normalisation, o.exi2_consumers, o.int_intervals], "explanation": "x", "assumptions": [], "decides": [], "not_decided": []},
 "C08": {"rules": [o.opc2_target_decoder, o.opc3_prologue, o.opc3b_fillers, o.line1, o.fall1], "explanation": "x", "assumptions": [], "decides": [], "not_decided": []},
}
