from .rules import version, layout
NOT_APPLICABLE = {}
PROPS = {
 "C01": {"rules": version.RULES + layout.RULES, "explanation": "x", "assumptions": [], "decides": [], "not_decided": []},
}
