"""Regenerates /verif/MANIFEST.json from svx.props (so it is always in step)."""
import json
import os

from .props import PROPS, NOT_APPLICABLE
from .report import VERIF


def main() -> None:
    checks = []
    for pid in sorted(PROPS):
        sp = PROPS[pid]
        checks.append({
            "property_id": pid,
            "quick_cmd": f"./check {pid} quick",
            "thorough_cmd": f"./check {pid} thorough",
            "evidence_file": f"/verif/evidence/{pid}.json",
            "replay_cmd_template": "cat {path}",
            "engine": "svx",
            "level_claimed": {
                "category": "other",
                "text": sp["level_text"],
                "design_ref": sp["design_ref"],
            },
            "level_note": sp["level_note"],
            "technique": sp["technique"],
        })
    m = {
        "version": 1,
        "setup_cmd": "/venv/bin/python -m compileall -q svx >/dev/null && /venv/bin/python -m svx facts",
        "hooks": {
            "guard": "STACKSCOPE_VERIF",
            "enable": "no hooks: every check reads /repo's source with ast and never imports it",
            "baseline_off_cmd": "cd /repo && /venv/bin/python -m pytest -ra -q -p no:cacheprovider --timeout=900 --continue-on-collection-errors",
            "source_commits": [],
            "add_only": True,
        },
        "engines": [{
            "name": "svx",
            "path": "/verif/svx",
            "serves_properties": sorted(PROPS),
            "kind_free_text": "repository-specific static checker: ast program model + statement CFG/dominators + partial evaluation over CPython 3.9-3.12 + fact tables derived from CPython headers/opcode tables/compiler output/contextlib source + value-provenance propagation",
        }],
        "checks": checks,
        "not_applicable": [{"property_id": k, "reason": v} for k, v in sorted(NOT_APPLICABLE.items())],
        "notes": "Static analysis only. Exit 0 pass / 1 VIOLATION / 2 ANALYSIS-ERROR (anchor vanished, count below confirmed, fact snapshot stale). Known findings: /verif/known_findings.json. See DESIGN.md.",
    }
    with open(os.path.join(VERIF, "MANIFEST.json"), "w") as f:
        json.dump(m, f, indent=1)
        f.write("\n")


if __name__ == "__main__":
    main()
