"""Run under each supported CPython (3.9 .. 3.12): prints JSON facts about *that
interpreter* (opcode tables, builtins, compiler output for a generated corpus of
with statements).  Compiles and disassembles only: nothing is executed, nothing of
stackscope is imported.  Must stay compatible with Python 3.9."""
import builtins
import dis
import itertools
import json
import opcode
import sys

out = {}
out["version_info"] = list(sys.version_info)
out["implementation"] = sys.implementation.name
out["opmap"] = dict(dis.opmap)
# pseudo-instructions (3.12+: SETUP_WITH etc. with numbers >= 256) are in dis.opmap but never occur in co_code
out["real_opnames"] = sorted(n for n, c in dis.opmap.items() if c < 256)
out["hasjrel"] = sorted(dis.opname[i] for i in dis.hasjrel)
out["hasjabs"] = sorted(dis.opname[i] for i in dis.hasjabs)
ice = getattr(opcode, "_inline_cache_entries", None)
if ice is None:
    out["cache_entries"] = {}
elif isinstance(ice, dict):
    out["cache_entries"] = {k: v for k, v in ice.items() if v}
else:
    out["cache_entries"] = {dis.opname[i]: n for i, n in enumerate(ice) if n}
out["builtins"] = sorted(dir(builtins))

if sys.version_info >= (3, 11):
    WITH_OPS = ("BEFORE_WITH", "BEFORE_ASYNC_WITH")
else:
    WITH_OPS = ("SETUP_WITH", "SETUP_ASYNC_WITH")
out["with_ops"] = list(WITH_OPS)


def all_codes(code):
    yield code
    for c in code.co_consts:
        if hasattr(c, "co_code"):
            for x in all_codes(c):
                yield x


def insns_of(src):
    top = compile(src, "<probe>", "exec")
    res = []
    for c in all_codes(top):
        res.append(list(dis.get_instructions(c)))
    return res


# ---------------------------------------------------------------- targets
def gen_targets():
    atoms = ["x", "g", "c", "x.a", "x.a.b", "x[0]", "x['k']", "x[y]", "x[0][1]", "x.a[0]", "x[0].a",
             "f()", "f(1)", "f(y)", "f(1, y)", "x.m()", "x.m(1)", "x.m(y, 2)", "f().a", "f(1).a",
             "f(1)[0]", "f()[y]", "x.m().a", "x.m(1)[0]", "f(1)(2).a", "x.a.m(1).b", "g.a", "g[0]",
             "gf(1).a", "gf().a[0]", "c.a", "c[0]", "c.m(1).a", "x[-1]", "x[None]", "x[True]",
             "x[1.5]", "x[...]", "x['a'].b", "f('s').a", "f(None).a", "f(x.a).b", "f(x[0]).b",
             "f(f(1)).a", "x.m(x.a).b", "x[y.a]"]
    # NB 'x' alone, 'g', 'c' are plain names (local, global, cell)
    names = ["x", "g", "c"]
    t = list(atoms)
    simple = ["x", "g", "c", "x.a", "x[0]", "x[y]", "f(1).a", "x.m().a"]
    for a in simple:
        t.append("(%s,)" % a)
        t.append("[%s]" % a)
        t.append("(*%s,)" % a)
    for a, b in itertools.product(simple, repeat=2):
        t.append("(%s, %s)" % (a, b))
        t.append("(%s, *%s)" % (a, b))
        t.append("(*%s, %s)" % (a, b))
    for a, b in itertools.product(simple[:5], repeat=2):
        t.append("[%s, %s]" % (a, b))
        t.append("(%s, (%s, x))" % (a, b))
        t.append("((%s, x), %s)" % (a, b))
        t.append("(%s, *%s, y2)" % (a, b))
        t.append("(%s, [%s, *z])" % (a, b))
    seen = set()
    res = []
    for s in t:
        if s not in seen:
            seen.add(s)
            res.append(s)
    return res


FUNC_TMPL = """
g = gf = None
def outer():
    c = None
    def fn(f, y, cm):
        global g, gf
        nonlocal c
        {kw} cm as {target}:
            BODY_MARK
    return fn
"""
ASYNC_TMPL = FUNC_TMPL.replace("def fn", "async def fn")
CLASS_TMPL = """
class K:
    {kw} cm as {target}:
        BODY_MARK
"""
MODULE_TMPL = """
{kw} cm as {target}:
    BODY_MARK
"""


def store_sequence(src, want_async):
    """opnames from the with-setup instruction (exclusive) to the first
    instruction of the body (exclusive)"""
    for insns in insns_of(src):
        for i, ins in enumerate(insns):
            if ins.opname in WITH_OPS:
                seq = []
                for j in range(i + 1, len(insns)):
                    if insns[j].opname in ("LOAD_GLOBAL", "LOAD_NAME") and insns[j].argval == "BODY_MARK":
                        return [x.opname for x in insns[i + 1:j]]
                raise RuntimeError("no body marker")
    raise RuntimeError("no with opcode in " + src)


def plain_prologue(is_async):
    src = "%sdef fn(cm):\n    %s cm as TARGET:\n        BODY_MARK\n" % (
        ("async ", "async with") if is_async else ("", "with"))
    for insns in insns_of(src):
        for i, ins in enumerate(insns):
            if ins.opname in WITH_OPS:
                for j in range(i + 1, len(insns)):
                    if insns[j].opname == "STORE_FAST" and insns[j].argval == "TARGET":
                        return [x.opname for x in insns[i + 1:j]]
    raise RuntimeError("no plain prologue")


PLAIN = {False: plain_prologue(False), True: plain_prologue(True)}
targets = gen_targets()
store_ops = {}
per_target = {}
n_compiled = 0
for tgt in targets:
    for tmpl, kw, scope in ((FUNC_TMPL, "with", "function"), (ASYNC_TMPL, "async with", "async function"),
                            (CLASS_TMPL, "with", "class"), (MODULE_TMPL, "with", "module")):
        src = tmpl.format(kw=kw, target=tgt)
        try:
            seq = store_sequence(src, kw != "with")
        except SyntaxError:
            continue
        pro = PLAIN[kw != "with"]
        if seq[:len(pro)] != pro:
            raise RuntimeError("target corpus: unexpected prologue for %r: %r" % (src, seq))
        seq = seq[len(pro):]
        n_compiled += 1
        for opn in seq:
            store_ops.setdefault(opn, 0)
            store_ops[opn] += 1
        if scope in ("function", "async function"):
            per_target.setdefault(tgt, {})[scope] = seq
out["targets"] = {"count": len(targets), "compiled": n_compiled, "opnames": store_ops,
                  "examples": {k: per_target[k] for k in list(per_target)[:0]}}
# the fixed prologue ops are part of `seq` for the async forms; they are separated
# out below (prologue facts), the store-sequence rule subtracts them.

# ---------------------------------------------------------------- prologue layouts
MANY = "\n".join("    zz = %d" % (1000 + i) for i in range(300))
LAYOUTS = {
    "plain": """
{a}def fn(cm):
    {kw} cm as TARGET:
        BODY_MARK
""",
    "multiline": """
{a}def fn(cm):
    {kw} cm(
        1,
        2,
    ) as TARGET:
        BODY_MARK
""",
    "multiline_attr": """
{a}def fn(cm):
    {kw} (
        cm
        .a
        .b
    ) as TARGET:
        BODY_MARK
""",
    "parenthesised_two": """
{a}def fn(cm, cm2):
    {kw} cm as TARGET, cm2 as other:
        BODY_MARK
""",
    "second_item": """
{a}def fn(cm, cm2):
    {kw} cm2 as other, cm as TARGET:
        BODY_MARK
""",
    "in_finally": """
{a}def fn(cm):
    try:
        pass
    finally:
        {kw} cm as TARGET:
            BODY_MARK
""",
    "in_except": """
{a}def fn(cm):
    try:
        pass
    except ValueError:
        {kw} cm as TARGET:
            BODY_MARK
""",
    "in_try": """
{a}def fn(cm):
    try:
        {kw} cm as TARGET:
            BODY_MARK
    except ValueError:
        pass
""",
    "in_with": """
{a}def fn(cm, cm2):
    {kw} cm2:
        {kw} cm as TARGET:
            BODY_MARK
""",
    "in_loop": """
{a}def fn(cm):
    for i in cm:
        {kw} cm as TARGET:
            BODY_MARK
    while cm:
        {kw} cm as TARGET:
            BODY_MARK
""",
    "many_consts": """
{a}def fn(cm):
    'doc'
%s
    {kw} cm as TARGET:
        BODY_MARK
""" % MANY,
    "many_consts_in_finally": """
{a}def fn(cm):
    'doc'
%s
    try:
        pass
    finally:
        {kw} cm as TARGET:
            BODY_MARK
""" % MANY,
    "in_async_for_else": """
{a}def fn(cm):
    for i in cm:
        pass
    else:
        {kw} cm as TARGET:
            BODY_MARK
""",
    "after_return_branch": """
{a}def fn(cm):
    if cm:
        return 1
    {kw} cm as TARGET:
        BODY_MARK
""",
    "in_finally_in_with": """
{a}def fn(cm, cm2):
    {kw} cm2:
        try:
            pass
        finally:
            {kw} cm as TARGET:
                BODY_MARK
""",
}
if sys.version_info >= (3, 10):
    LAYOUTS["in_match"] = """
{a}def fn(cm):
    match cm:
        case 1:
            {kw} cm as TARGET:
                BODY_MARK
"""
if sys.version_info >= (3, 11):
    LAYOUTS["in_except_star"] = """
{a}def fn(cm):
    try:
        pass
    except* ValueError:
        {kw} cm as TARGET:
            BODY_MARK
"""


def prologues(src):
    res = []
    for insns in insns_of(src):
        for i, ins in enumerate(insns):
            if ins.opname in WITH_OPS:
                # is this the with statement whose target is TARGET?
                for j in range(i + 1, len(insns)):
                    if insns[j].opname in WITH_OPS:
                        break
                    if insns[j].opname == "STORE_FAST" and insns[j].argval == "TARGET":
                        res.append([ins.opname] + [x.opname for x in insns[i + 1:j]])
                        break
    return res


prol = {}
for name, tmpl in LAYOUTS.items():
    for a, kw in (("", "with"), ("async ", "async with")):
        src = tmpl.format(a=a, kw=kw)
        found = prologues(src)
        if not found:
            raise RuntimeError("layout %s (%s): no prologue found" % (name, kw))
        prol["%s/%s" % (name, "async" if a else "sync")] = found
out["prologues"] = prol

# ---------------------------------------------------------------- every with statement of this interpreter's standard library
# (compile + dis only; 3.11+ where instructions carry source positions, which delimit prologue / store sequence
# without using any of stackscope's logic)
import ast as _ast
import os as _os
import sysconfig as _sysconfig


def always_rendered(t):
    """is this `as` target in the documented always-rendered grammar?"""
    if isinstance(t, _ast.Name):
        return True
    if isinstance(t, _ast.Attribute):
        return always_rendered(t.value)
    if isinstance(t, _ast.Subscript):
        sl = t.slice
        ok = isinstance(sl, (_ast.Constant, _ast.Name)) or (isinstance(sl, _ast.UnaryOp) and isinstance(sl.operand, _ast.Constant))
        return ok and always_rendered(t.value)
    if isinstance(t, _ast.Call):
        return not t.keywords and not any(isinstance(a, _ast.Starred) for a in t.args) and always_rendered(t.func) and all(
            isinstance(a, (_ast.Constant, _ast.Name)) or always_rendered(a) for a in t.args)
    if isinstance(t, (_ast.Tuple, _ast.List)):
        return all(always_rendered(e) for e in t.elts)
    if isinstance(t, _ast.Starred):
        return always_rendered(t.value)
    return False


def stdlib_with_corpus():
    root = _sysconfig.get_paths()["stdlib"]
    n_files = n_items = n_targets = n_skipped = 0
    store_ops = {}
    prologues = {"sync": {}, "async": {}}
    for dirpath, dirnames, filenames in _os.walk(root):
        dirnames[:] = sorted(d for d in dirnames if d not in ("site-packages", "__pycache__", "test", "tests", "idlelib", "lib2to3", "turtledemo"))
        for fn in sorted(filenames):
            if not fn.endswith(".py"):
                continue
            path = _os.path.join(dirpath, fn)
            try:
                src = open(path, encoding="utf-8").read()
                tree = _ast.parse(src)
                top = compile(tree, path, "exec", dont_inherit=True)
            except Exception:
                n_skipped += 1
                continue
            n_files += 1
            withs = {}
            for n in _ast.walk(tree):
                if isinstance(n, (_ast.With, _ast.AsyncWith)):
                    withs[(n.lineno, n.col_offset, n.end_lineno, n.end_col_offset)] = n
            if not withs:
                continue
            for code in all_codes(top):
                insns = list(dis.get_instructions(code))
                seen_per_stmt = {}
                for i, ins in enumerate(insns):
                    if ins.opname not in WITH_OPS:
                        continue
                    pos = ins.positions
                    key = (pos.lineno, pos.col_offset, pos.end_lineno, pos.end_col_offset)
                    node = withs.get(key)
                    if node is None:
                        continue
                    k = seen_per_stmt.get(key, 0)
                    seen_per_stmt[key] = k + 1
                    item = node.items[k % len(node.items)]
                    n_items += 1
                    kind = "async" if isinstance(node, _ast.AsyncWith) else "sync"
                    pro = [ins.opname]
                    j = i + 1
                    while j < len(insns):
                        p2 = insns[j].positions
                        if (p2.lineno, p2.col_offset, p2.end_lineno, p2.end_col_offset) != key or insns[j].opname == "POP_TOP":
                            break
                        pro.append(insns[j].opname)
                        j += 1
                    t = tuple(pro)
                    prologues[kind][t] = prologues[kind].get(t, 0) + 1
                    ov = item.optional_vars
                    if ov is None or not always_rendered(ov):
                        continue
                    n_targets += 1
                    rng = (ov.lineno, ov.col_offset, ov.end_lineno, ov.end_col_offset)
                    while j < len(insns):
                        p2 = insns[j].positions
                        if p2.lineno is None:
                            break
                        inside = (p2.lineno, p2.col_offset or 0) >= (rng[0], rng[1]) and (p2.end_lineno, p2.end_col_offset or 0) <= (rng[2], rng[3])
                        if not inside:
                            break
                        store_ops[insns[j].opname] = store_ops.get(insns[j].opname, 0) + 1
                        j += 1
    return {
        "files": n_files, "unparsable": n_skipped, "with_items": n_items, "always_rendered_targets": n_targets,
        "store_opnames": store_ops,
        "prologues": {k: sorted([list(t), c] for t, c in v.items()) for k, v in prologues.items()},
    }


if sys.version_info >= (3, 11):
    out["stdlib_with"] = stdlib_with_corpus()

# ---------------------------------------------------------------- exit-call templates
EXIT_SRC = {
    "fall": """
{a}def fn(cm):
    {kw} cm:
        BODY_MARK
    AFTER_MARK
""",
    "return_value": """
{a}def fn(cm, v):
    {kw} cm:
        BODY_MARK
        return v
    AFTER_MARK
""",
    "return_const": """
{a}def fn(cm):
    {kw} cm:
        BODY_MARK
        return 5
    AFTER_MARK
""",
    "break": """
{a}def fn(cm, xs):
    for x in xs:
        {kw} cm:
            BODY_MARK
            break
    AFTER_MARK
""",
}


def exit_template(src):
    """instructions of the normal (non-exception) exit of the with block: from after the body to the
    POP_TOP that discards __exit__'s result"""
    for insns in insns_of(src):
        idx = [i for i, x in enumerate(insns) if x.opname in ("LOAD_GLOBAL", "LOAD_NAME") and x.argval == "BODY_MARK"]
        if not idx:
            continue
        i = idx[0] + 2  # skip LOAD + POP_TOP of the marker statement
        seq = []
        calls = ("CALL_FUNCTION", "CALL", "CALL_METHOD")
        seen_call = False
        for x in insns[i:]:
            if x.opname in ("LOAD_GLOBAL", "LOAD_NAME") and x.argval == "AFTER_MARK":
                break
            seq.append([x.opname, x.arg if x.arg is not None else -1])
            if x.opname in calls:
                seen_call = True
            if seen_call and x.opname == "POP_TOP":
                break
            if len(seq) > 40:
                break
        return seq
    raise RuntimeError("no exit template")


ex = {}
for name, tmpl in EXIT_SRC.items():
    for a, kw in (("", "with"), ("async ", "async with")):
        ex["%s/%s" % (name, "async" if a else "sync")] = exit_template(tmpl.format(a=a, kw=kw))
out["exit_templates"] = ex

# ---------------------------------------------------------------- stdlib API surface (names + call signatures)
import importlib
import inspect

STDLIB = ["abc", "bisect", "builtins", "collections", "collections.abc", "contextlib", "ctypes", "dataclasses", "dis", "functools", "gc",
          "inspect", "itertools", "linecache", "sys", "threading", "traceback", "types", "typing", "warnings", "weakref"]


def sig_of(obj):
    try:
        sg = inspect.signature(obj)
    except (TypeError, ValueError):
        return None
    pos_min = 0
    pos_max = 0
    kw = []
    kw_required = []
    varkw = False
    for p in sg.parameters.values():
        if p.kind in (p.POSITIONAL_ONLY, p.POSITIONAL_OR_KEYWORD):
            if pos_max is not None:
                pos_max += 1
            if p.default is p.empty:
                pos_min += 1
            if p.kind == p.POSITIONAL_OR_KEYWORD:
                kw.append(p.name)
        elif p.kind == p.VAR_POSITIONAL:
            pos_max = None
        elif p.kind == p.KEYWORD_ONLY:
            kw.append(p.name)
            if p.default is p.empty:
                kw_required.append(p.name)
        elif p.kind == p.VAR_KEYWORD:
            varkw = True
    return {"pos_min": pos_min, "pos_max": pos_max, "kw": kw, "kw_required": kw_required, "varkw": varkw}


api = {}
for name in STDLIB:
    try:
        m = importlib.import_module(name)
    except Exception:
        continue
    entry = {"names": sorted(dir(m)), "sigs": {}, "members": {}}
    for attr in dir(m):
        if attr.startswith("__"):
            continue
        try:
            obj = getattr(m, attr)
        except Exception:
            continue
        if callable(obj):
            sg = sig_of(obj)
            if sg is not None:
                entry["sigs"][attr] = sg
        if inspect.isclass(obj):
            # metaclass attributes (ctypes' from_address etc.) are reachable through the class too
            entry["members"][attr] = sorted(x for x in set(dir(obj)) | set(dir(type(obj))) if not x.startswith("__"))
            for meth in entry["members"][attr]:
                try:
                    mo = getattr(obj, meth)
                except Exception:
                    continue
                if callable(mo) and not meth.startswith("_"):
                    sg = sig_of(mo)
                    if sg is not None:
                        entry["sigs"][attr + "." + meth] = sg
    api[name] = entry
out["stdlib"] = api

# ---------------------------------------------------------------- attributes of the introspection types
import types as _types


def _agen():
    async def ag():
        yield
    return ag


async def _co():
    pass

_c = _co()
_ag = _agen()()
out["introspection_attrs"] = {
    "co_": sorted(a for a in dir(_types.CodeType) if a.startswith("co_")),
    "f_": sorted(a for a in dir(_types.FrameType) if a.startswith("f_")),
    "gi_": sorted(a for a in dir(_types.GeneratorType) if a.startswith("gi_")),
    "cr_": sorted(a for a in dir(_types.CoroutineType) if a.startswith("cr_")),
    "ag_": sorted(a for a in dir(_types.AsyncGeneratorType) if a.startswith("ag_")),
    "tb_": sorted(a for a in dir(_types.TracebackType) if a.startswith("tb_")),
    "instruction": sorted(dis.Instruction._fields) + sorted(a for a in dir(dis.Instruction) if not a.startswith("_") and a not in dis.Instruction._fields),
}
_c.close()

# ---------------------------------------------------------------- UNPACK_EX oparg encoding (which byte counts the targets before the star)
def _unpack_ex_arg(src):
    for i in dis.get_instructions(compile(src, "<probe>", "exec")):
        if i.opname == "UNPACK_EX":
            return i.arg
    return None

out["unpack_ex"] = {"before1_after2": _unpack_ex_arg("a, *b, c, d = x"), "before2_after0": _unpack_ex_arg("a, b, *c = x"), "before0_after1": _unpack_ex_arg("*a, b = x")}

# ---------------------------------------------------------------- referents of an async generator's asend()/athrow() awaitables
import gc as _gc


def _asend_referents():
    a1 = _agen()()
    a2 = _agen()()
    aw = a1.asend(a2)          # the sent value is itself an async generator
    refs = _gc.get_referents(aw)
    own = [i for i, r in enumerate(refs) if r is a1]
    other = [i for i, r in enumerate(refs) if r is a2]
    th = a1.athrow(ValueError)
    trefs = _gc.get_referents(th)
    ac = a1.aclose()
    res = {"asend_own_index": own, "asend_sent_value_index": other, "asend_n": len(refs), "athrow_own_index": [i for i, r in enumerate(trefs) if r is a1],
           "asend_type": type(aw).__name__, "athrow_type": type(th).__name__, "aclose_type": type(ac).__name__, "anext_type": type(a1.__anext__()).__name__}
    import warnings as _w
    with _w.catch_warnings():
        _w.simplefilter("ignore")
        del aw, th, ac
    return res

out["asend_referents"] = _asend_referents()

# ---------------------------------------------------------------- b_handler of an EXCEPT_HANDLER block (3.9 / 3.10 block stack)
def _except_handler_b_handler():
    """the b_handler field of the EXCEPT_HANDLER (type 257) block that is on the block stack while an except body runs:
    read through ctypes from the frame object (layout: frameobject.h of this interpreter; f_valuestack is the 9th word)"""
    if sys.version_info >= (3, 11):
        return None
    import ctypes as _ct
    try:
        try:
            raise ValueError
        except ValueError:
            fr = sys._getframe()
            co = fr.f_code
            w = _ct.sizeof(_ct.c_void_p)
            valuestack = _ct.c_size_t.from_address(id(fr) + 8 * w).value
            off = valuestack - id(fr)
            if not (0 < off < fr.__sizeof__()):
                return None
            localsplus = off - w * (co.co_nlocals + len(co.co_cellvars) + len(co.co_freevars))
            blockstack = localsplus - 20 * 12
            iblock = _ct.c_int.from_address(id(fr) + blockstack - 8).value
            if not (0 < iblock <= 20):
                return None
            res = []
            for i in range(iblock):
                b_type = _ct.c_int.from_address(id(fr) + blockstack + 12 * i).value
                b_handler = _ct.c_int.from_address(id(fr) + blockstack + 12 * i + 4).value
                res.append((b_type, b_handler))
            eh = [h for t, h in res if t == 257]
            return {"blocks": res, "except_handler_b_handler": eh[0] if eh else None, "f_lasti": fr.f_lasti}
    except Exception:
        return None

out["except_handler_block"] = _except_handler_b_handler()

# ---------------------------------------------------------------- what the with-statement's exception handler starts with
def _with_handler_prefix():
    """opnames from the handler target of a `with` block up to and including WITH_EXCEPT_START"""
    src = "def f(cm):\n    with cm as x:\n        body(x)\n    return 1\n"
    ns = {}
    exec(compile(src, "<probe>", "exec"), ns)
    code = ns["f"].__code__
    insns = list(dis.get_instructions(code))
    by_off = {i.offset: k for k, i in enumerate(insns)}
    targets = []
    if sys.version_info >= (3, 11):
        bc = dis.Bytecode(code)
        for e in bc.exception_entries:
            targets.append(e.target)
    else:
        targets = [i.argval for i in insns if i.opname in ("SETUP_WITH", "SETUP_ASYNC_WITH")]
    out_ = []
    for t in sorted(set(targets)):
        k = by_off.get(t)
        if k is None:
            continue
        seq = []
        for i in insns[k:k + 4]:
            seq.append(i.opname)
            if i.opname == "WITH_EXCEPT_START":
                out_.append(seq)
                break
    return out_

out["with_handler_prefix"] = _with_handler_prefix()

# ---------------------------------------------------------------- dis.stack_effect of the call opcodes (what a decoder that asks dis would be told)
out["call_stack_effects"] = {nm: [dis.stack_effect(dis.opmap[nm], k) for k in range(4)] for nm in ("CALL_FUNCTION", "CALL_METHOD", "CALL", "PRECALL", "CALL_FUNCTION_KW") if nm in dis.opmap}

# ---------------------------------------------------------------- how many "fast locals" slots a frame has, for several code-object shapes
def _localsplus_vectors():
    """observed through frame.__sizeof__() (slots = locals-plus + value stack, in words, above a constant header that is
    calibrated with a function that has no locals at all)"""
    def zero():
        return sys._getframe()

    def plain(a, b):
        c = a
        return sys._getframe()

    def arg_captured(a, b):
        def inner():
            return a
        return sys._getframe()

    def local_cell(a):
        x = a
        def inner():
            return x
        return sys._getframe()

    def make_free(y):
        def with_free(a):
            z = a
            return sys._getframe(), y
        return with_free

    def mixed(a, b, c):
        k = b
        def inner():
            return a, k
        return sys._getframe()

    def comp_capture(a):
        fs = [lambda: i for i in (a,)]
        return sys._getframe()

    f0 = zero()
    const = f0.__sizeof__() - 8 * f0.f_code.co_stacksize
    frames = [plain(1, 2), arg_captured(1, 2), local_cell(1), make_free(0)(1)[0], mixed(1, 2, 3), comp_capture(1)]
    out_ = []
    for fr in frames:
        co = fr.f_code
        slots = (fr.__sizeof__() - const) // 8 - co.co_stacksize
        out_.append({"name": co.co_name, "co_nlocals": co.co_nlocals, "co_varnames": list(co.co_varnames), "co_cellvars": list(co.co_cellvars), "co_freevars": list(co.co_freevars),
                     "co_stacksize": co.co_stacksize, "co_argcount": co.co_argcount, "co_kwonlyargcount": co.co_kwonlyargcount, "co_posonlyargcount": co.co_posonlyargcount,
                     "co_flags": co.co_flags, "slots": slots})
    return out_

out["localsplus_vectors"] = _localsplus_vectors()

# ---------------------------------------------------------------- exit sites of single-with functions and the handler each belongs to (3.11+)
EXIT_SHAPES = {
    "fall": "def f(cm):\n    with cm as x:\n        g(x)\n",
    "return_value": "def f(cm):\n    with cm as x:\n        return g(x)\n",
    "return_const": "def f(cm):\n    with cm as x:\n        return 1\n",
    "break_in_loop": "def f(cm, it):\n    for i in it:\n        with cm as x:\n            if i:\n                break\n            g(x)\n",
    "continue_in_loop": "def f(cm, it):\n    for i in it:\n        with cm as x:\n            if i:\n                continue\n            g(x)\n",
    "tail_try_except": "def f(cm):\n    with cm as x:\n        try:\n            g(x)\n        except KeyError:\n            pass\n",
    "tail_try_finally": "def f(cm):\n    with cm as x:\n        try:\n            g(x)\n        finally:\n            h(x)\n",
    "tail_while": "def f(cm, n):\n    with cm as x:\n        while n:\n            n = g(n)\n",
    "tail_for": "def f(cm, it):\n    with cm as x:\n        for i in it:\n            g(i)\n",
    "tail_if": "def f(cm, c):\n    with cm as x:\n        if c:\n            g(x)\n",
    "tail_if_else": "def f(cm, c):\n    with cm as x:\n        if c:\n            g(x)\n        else:\n            h(x)\n",
    "tail_if_break": "def f(cm, it):\n    for i in it:\n        with cm as x:\n            if i == 1:\n                g(x)\n            elif i == 2:\n                break\n",
    "empty_body": "def f(cm):\n    with cm as x:\n        pass\n",
    "no_target": "def f(cm):\n    with cm:\n        g()\n",
    "in_try": "def f(cm):\n    try:\n        with cm as x:\n            g(x)\n    except KeyError:\n        pass\n",
    "after_try": "def f(cm):\n    try:\n        g()\n    except KeyError:\n        pass\n    with cm as x:\n        g(x)\n",
    "async_fall": "async def f(cm):\n    async with cm as x:\n        g(x)\n",
    "async_tail_try_except": "async def f(cm):\n    async with cm as x:\n        try:\n            g(x)\n        except KeyError:\n            pass\n",
    "async_return_value": "async def f(cm):\n    async with cm as x:\n        return g(x)\n",
    "nested_fall": "def f(a, b):\n    with a as x:\n        with b as y:\n            g(x, y)\n",
    "nested_then_more": "def f(a, b):\n    with a as x:\n        with b as y:\n            g(x, y)\n        h(x)\n",
    "nested_break_both": "def f(a, b, it):\n    for i in it:\n        with a as x:\n            with b as y:\n                if i:\n                    break\n                g(x, y)\n",
    "nested_return_both": "def f(a, b):\n    with a as x:\n        with b as y:\n            return g(x, y)\n",
    "sequential": "def f(a, b):\n    with a as x:\n        g(x)\n    with b as y:\n        g(y)\n",
    "nested_inner_tail_try": "def f(a, b):\n    with a as x:\n        with b as y:\n            try:\n                g(x)\n            except KeyError:\n                pass\n",
    "outer_tail_try_with_inner": "def f(a, b):\n    with a as x:\n        try:\n            with b as y:\n                g(y)\n        except KeyError:\n            pass\n",
    "return_through_finally_with": "def f(a, b):\n    try:\n        with a as x:\n            return g(x)\n    finally:\n        with b as y:\n            h(y)\n",
    "loop_of_withs_tail_while": "def f(a, b, n):\n    with a as x:\n        while n:\n            with b as y:\n                n = g(n)\n",
    "async_nested_fall": "async def f(a, b):\n    async with a as x:\n        async with b as y:\n            g(x, y)\n",
    "async_in_sync": "async def f(a, b):\n    with a as x:\n        async with b as y:\n            g(x, y)\n",
}

# bodies long enough that jump / SETUP_* arguments need an EXTENDED_ARG prefix (>= 256 bytes on 3.9, >= 256 instructions on 3.10+)
_LONG = "".join("        g(i)\n" for _ in range(90))
EXIT_SHAPES.update({
    "long_loop_then_with": "def f(cm, it):\n    for i in it:\n" + _LONG + "    with cm as x:\n        g(x)\n",
    "long_with_body": "def f(cm, i):\n    with cm as x:\n" + _LONG,
    "long_if_then_with": "def f(cm, c):\n    i = c\n    if c:\n" + _LONG + "    with cm as x:\n        g(x)\n",
    "long_loop_then_async_with": "async def f(cm, it):\n    for i in it:\n" + _LONG + "    async with cm as x:\n        g(x)\n",
    "long_with_in_long_loop": "def f(cm, it):\n    for i in it:\n" + _LONG + "        with cm as x:\n" + _LONG.replace("        g(i)", "            g(i)") + "        g(i)\n",
})


def _exit_sites():
    """per shape: bytecode, exception table, and every normal-path exit call site with the handler of the with statement it
    belongs to.  Ground truth comes from line numbers: the compiler attributes a with statement's exit call and its handler's
    WITH_EXCEPT_START to the line of the `with` keyword, and every with statement of a shape is on its own line"""
    if sys.version_info < (3, 11):
        return None
    res = {}
    for name, src in EXIT_SHAPES.items():
        ns = {}
        exec(compile(src, "<probe>", "exec"), ns)
        code = ns["f"].__code__
        insns = list(dis.get_instructions(code, show_caches=True))
        real = [i for i in insns if i.opname != "CACHE"]
        entries = []
        for e in dis.Bytecode(code).exception_entries:
            entries.append([e.start, e.end - 2, e.target, e.depth, bool(e.lasti)])

        def line_of(i):
            return i.positions.lineno if getattr(i, "positions", None) is not None else None
        handler_by_line = {}
        async_by_line = {}
        for k, i in enumerate(real[:-1]):
            if i.opname == "PUSH_EXC_INFO" and real[k + 1].opname == "WITH_EXCEPT_START":
                handler_by_line.setdefault(line_of(real[k + 1]), []).append(i.offset)
            if i.opname in ("BEFORE_WITH", "BEFORE_ASYNC_WITH"):
                async_by_line[line_of(i)] = i.opname == "BEFORE_ASYNC_WITH"
        sites = []
        for k, i in enumerate(real):
            prev = [r for r in real[:k] if r.opname != "PRECALL"][-3:]
            if i.opname == "CALL" and i.arg == 2 and len(prev) == 3 and all(r.opname == "LOAD_CONST" and r.argval is None for r in prev):
                ln = line_of(i)
                hs = handler_by_line.get(ln)
                if not hs or len(set(hs)) != 1 or ln not in async_by_line:
                    continue
                site = {"call": i.offset, "handler": hs[0], "is_async": async_by_line[ln], "line": ln}
                if site["is_async"]:
                    snd = [r for r in real[k + 1:k + 6] if r.opname == "SEND"]
                    yv = [r for r in real[k + 1:k + 8] if r.opname == "YIELD_VALUE"]
                    if not snd or not yv:
                        continue
                    site["send"] = snd[0].offset
                    site["yield_value"] = yv[0].offset
                sites.append(site)
        res[name] = {"co_code": list(code.co_code), "consts_none": [c is None for c in code.co_consts], "entries": entries, "sites": sites}
    return res

out["exit_sites"] = _exit_sites()

# ---------------------------------------------------------------- 3.9 / 3.10: exit sites observed by running the shapes with recording managers
def _exit_sites_observed():
    """run each shape of EXIT_SHAPES with context managers that record, from inside __exit__ / __aexit__, the f_lasti of the frame
    that is leaving the block (and, for async exits, the f_lasti at which the coroutine is suspended), together with the handler
    of *that* manager's block (the target of the SETUP_WITH / SETUP_ASYNC_WITH that entered it).  The interpreter itself says which
    block an exit belongs to; nothing of the library is involved"""
    if sys.version_info >= (3, 11):
        return None
    import itertools
    res = {}

    class Suspend:
        def __await__(self):
            yield self

    for name, src in EXIT_SHAPES.items():
        log = []
        suspended = []

        class CM:
            def __enter__(self):
                self.enter_lasti = sys._getframe(1).f_lasti
                return self

            def __exit__(self, t, v, tb):
                fr = sys._getframe(1)
                if t is None:
                    log.append(["sync", self.enter_lasti, fr.f_lasti])
                return False

            async def __aenter__(self):
                self.enter_lasti = sys._getframe(1).f_lasti
                return self

            async def __aexit__(self, t, v, tb):
                fr = sys._getframe(1)
                if t is None:
                    log.append(["async-running", self.enter_lasti, fr.f_lasti])
                    suspended.append(self.enter_lasti)
                    await Suspend()
                return False

        ns = {"g": lambda *a: 0, "h": lambda *a: 0}
        exec(compile(src, "<probe>", "exec"), ns)
        f = ns["f"]
        code = f.__code__
        insns = list(dis.get_instructions(code))
        by_off = {i.offset: k for k, i in enumerate(insns)}
        params = code.co_varnames[:code.co_argcount]
        choices = {"cm": [None], "a": [None], "b": [None], "it": [(0,), (1,), (0, 1), (1, 2), (2, 1)], "c": [0, 1], "n": [0, 2]}
        is_coro = bool(code.co_flags & 0x80)
        for combo in itertools.product(*[choices.get(p_, [0]) for p_ in params]):
            kw = {p_: (CM() if p_ in ("cm", "a", "b") else v_) for p_, v_ in zip(params, combo)}
            try:
                if not is_coro:
                    f(**kw)
                else:
                    co = f(**kw)
                    try:
                        while True:
                            co.send(None)
                            if suspended:
                                log.append(["async-suspended", suspended.pop(), co.cr_frame.f_lasti])
                    except StopIteration:
                        pass
            except Exception:
                pass
        sites = []
        seen = set()
        for kind, enter_lasti, pos in log:
            k = by_off.get(enter_lasti)
            if k is None:
                continue
            setup = [i for i in insns[k:k + 12] if i.opname in ("SETUP_WITH", "SETUP_ASYNC_WITH")]
            if not setup:
                continue
            key = (kind, pos, setup[0].argval)
            if key in seen:
                continue
            seen.add(key)
            sites.append({"kind": kind, "pos": pos, "handler": setup[0].argval, "is_async": setup[0].opname == "SETUP_ASYNC_WITH"})
        if sites:
            res[name] = {"co_code": list(code.co_code), "consts_none": [c is None for c in code.co_consts], "sites": sorted(sites, key=lambda d_: (d_["pos"], d_["kind"]))}
    return res

out["exit_sites_observed"] = _exit_sites_observed()



out["stdlib_module_names"] = sorted(getattr(sys, "stdlib_module_names", []))

json.dump(out, sys.stdout)
