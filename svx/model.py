"""Engine A: resolved program model of the stackscope package (ast only)."""
from __future__ import annotations

import ast
import builtins
import os
from typing import Dict, Iterator, List, Optional, Tuple

PKG = "stackscope"
# Modules that matter on CPython.  _lowlevel_pypy is parsed for VER-0 only.
CORE_MODULES = [
    "_extract",
    "_customization",
    "_code_dispatch",
    "_glue",
    "_lowlevel",
    "_lowlevel_cpython_311",
    "_lowlevel_cpython_310",
    "_types",
    "_util",
    "__init__",
    "lowlevel",
]
EXTRA_MODULES = ["_lowlevel_pypy", "_version"]


class AnalysisError(Exception):
    """The checker cannot decide (anchor vanished, unsupported construct...).
    Always turns into exit code 2, never into a silent pass."""


def norm(node: ast.AST) -> str:
    """Normalised text of a node: position- and formatting-independent."""
    return ast.unparse(node)


class Mod:
    def __init__(self, name: str, path: str, src: str):
        self.name = name
        self.path = path
        self.src = src
        try:
            self.tree = ast.parse(src, filename=path)
        except SyntaxError as ex:
            raise AnalysisError(f"{path} does not parse: {ex}")
        # helpers that the reference tree does not have are inlined at their call sites (svx/normalize.py)
        self.norm_log: List[str] = []
        if os.environ.get("SVX_NO_NORMALIZE") != "1":
            from .normalize import normalize
            self.tree, self.norm_log = normalize(self.tree, name)
        self.parent: Dict[int, ast.AST] = {}
        self.qual: Dict[int, str] = {}
        self.defs: Dict[str, ast.AST] = {}
        self._index(self.tree, [])
        self.imports = self._imports()

    def _index(self, node: ast.AST, q: List[str]) -> None:
        for ch in ast.iter_child_nodes(node):
            self.parent[id(ch)] = node
            if isinstance(ch, (ast.FunctionDef, ast.AsyncFunctionDef, ast.ClassDef)):
                q2 = q + [ch.name]
                name = ".".join(q2)
                self.qual[id(ch)] = ".".join(q)
                # the last definition wins for lookup (typing overload stubs come
                # first); earlier duplicates are kept under a suffixed key
                if name in self.defs:
                    n = 2
                    while f"{name}#{n}" in self.defs:
                        n += 1
                    self.defs[f"{name}#{n}"] = self.defs[name]
                self.defs[name] = ch
                self._index(ch, q2)
            else:
                self.qual[id(ch)] = ".".join(q)
                self._index(ch, q)

    def _imports(self) -> Dict[str, Tuple[str, Optional[str]]]:
        """local name -> (module dotted name, attribute or None) for *all* import
        statements in the module (any nesting; later ones do not override)."""
        out: Dict[str, Tuple[str, Optional[str]]] = {}
        for node in ast.walk(self.tree):
            if isinstance(node, ast.Import):
                for a in node.names:
                    local = a.asname or a.name.split(".")[0]
                    target = a.name if a.asname else a.name.split(".")[0]
                    out.setdefault(local, (target, None))
            elif isinstance(node, ast.ImportFrom):
                base = node.module or ""
                if node.level:
                    base = PKG + ("." + base if base else "")
                for a in node.names:
                    local = a.asname or a.name
                    if node.level and not node.module:
                        # from . import _glue
                        out.setdefault(local, (f"{PKG}.{a.name}", None))
                    else:
                        out.setdefault(local, (base, a.name))
        return out

    def dead_helpers(self) -> List[ast.AST]:
        """definitions of helpers that the normaliser inlined at every call site (nothing in the module refers to them any
        more): their statements are analysed where they were spliced in, rules that scan whole modules skip the leftovers"""
        if "_dead" in self.__dict__:
            return self._dead
        import re
        out: List[ast.AST] = []
        names = set()
        for l in self.norm_log:
            m = re.search(r"inlined new (?:expression )?helper (\S+) into", l)
            if m:
                names.add(m.group(1))
        for q in names:
            fn = self.defs.get(q)
            if fn is None or not fn.name.startswith("_"):
                continue
            used = any((isinstance(n, ast.Name) and n.id == fn.name and isinstance(n.ctx, ast.Load)) or (isinstance(n, ast.Attribute) and n.attr == fn.name and isinstance(n.ctx, ast.Load))
                       for n in ast.walk(self.tree))
            if not used:
                out.append(fn)
        self._dead = out
        return out

    def in_dead_helper(self, node: ast.AST) -> bool:
        d = self.dead_helpers()
        if not d:
            return False
        return any(a is f for f in d for a in [node] + list(self.ancestors(node)))

    # -- navigation -------------------------------------------------------
    def fn(self, qualname: str) -> ast.AST:
        try:
            return self.defs[qualname]
        except KeyError:
            raise AnalysisError(
                f"anchor vanished: {self.name}.{qualname} is not defined any more"
            )

    def has(self, qualname: str) -> bool:
        return qualname in self.defs

    def parent_of(self, node: ast.AST) -> Optional[ast.AST]:
        return self.parent.get(id(node))

    def ancestors(self, node: ast.AST) -> Iterator[ast.AST]:
        p = self.parent.get(id(node))
        while p is not None:
            yield p
            p = self.parent.get(id(p))

    def qualname_of(self, node: ast.AST) -> str:
        """qualname of the innermost def/class enclosing (or being) node"""
        if isinstance(node, (ast.FunctionDef, ast.AsyncFunctionDef, ast.ClassDef)):
            for k, v in self.defs.items():
                if v is node:
                    return k
        q = self.qual.get(id(node))
        if q is None:
            return ""
        return q

    def enclosing_def(self, node: ast.AST) -> Optional[ast.AST]:
        for a in self.ancestors(node):
            if isinstance(a, (ast.FunctionDef, ast.AsyncFunctionDef, ast.Lambda)):
                return a
        return None

    def where(self, node: ast.AST) -> str:
        return f"{PKG}/{self.name}.py:{getattr(node, 'lineno', 0)}"

    def toplevel_assign(self, name: str) -> Optional[ast.AST]:
        for st in self.tree.body:
            if isinstance(st, ast.Assign):
                for t in st.targets:
                    if isinstance(t, ast.Name) and t.id == name:
                        return st
            if isinstance(st, ast.AnnAssign):
                if isinstance(st.target, ast.Name) and st.target.id == name:
                    return st
        return None


class Callee:
    """Resolved callee of a Call expression."""

    def __init__(self, kind: str, name: str, recv: Optional[ast.AST] = None):
        self.kind = kind  # 'pkg' | 'builtin' | 'ext' | 'method' | 'local' | 'unknown'
        self.name = name  # dotted name ('stackscope._extract.fill_context'), or attr
        self.recv = recv

    def __repr__(self) -> str:
        return f"{self.kind}:{self.name}"

    def is_pkg(self, modname: str, attr: str) -> bool:
        return self.kind == "pkg" and self.name == f"{PKG}.{modname}.{attr}"


class Program:
    def __init__(self, repo: str):
        self.repo = repo
        self.pkgdir = os.path.join(repo, PKG)
        if not os.path.isdir(self.pkgdir):
            raise AnalysisError(f"{self.pkgdir} is not a directory")
        self.mods: Dict[str, Mod] = {}
        for name in CORE_MODULES + EXTRA_MODULES:
            path = os.path.join(self.pkgdir, name + ".py")
            if not os.path.exists(path):
                if name in EXTRA_MODULES:
                    continue
                raise AnalysisError(f"anchor vanished: module {path} is missing")
            with open(path, encoding="utf-8") as f:
                self.mods[name] = Mod(name, path, f.read())
        # any other non-test module is loaded too so who-may-call rules see it
        for fn in sorted(os.listdir(self.pkgdir)):
            if fn.endswith(".py") and fn[:-3] not in self.mods:
                with open(os.path.join(self.pkgdir, fn), encoding="utf-8") as f:
                    self.mods[fn[:-3]] = Mod(fn[:-3], os.path.join(self.pkgdir, fn), f.read())

    def mod(self, name: str) -> Mod:
        try:
            return self.mods[name]
        except KeyError:
            raise AnalysisError(f"anchor vanished: module {name}")

    def analysed_mods(self) -> List[Mod]:
        """modules in every property's scope (not tests, not pypy)"""
        return [m for n, m in self.mods.items() if n != "_lowlevel_pypy"]

    # -- name / callee resolution ----------------------------------------
    def _scope_bindings(self, scope: ast.AST) -> Dict[str, ast.AST]:
        """name -> binding node for one function scope (parameters, nested defs, stores), computed once"""
        cache = self.__dict__.setdefault("_bind_cache", {})
        key = id(scope)
        if key in cache:
            return cache[key]
        out: Dict[str, ast.AST] = {}
        if not isinstance(scope, ast.Lambda):
            # stores first, then defs, then parameters (later entries win: same precedence as before)
            stores: Dict[str, ast.AST] = {}
            defs: Dict[str, ast.AST] = {}
            for n in walk_scope(scope):
                if isinstance(n, (ast.FunctionDef, ast.AsyncFunctionDef, ast.ClassDef)):
                    defs.setdefault(n.name, n)
                elif isinstance(n, ast.Name) and isinstance(n.ctx, ast.Store):
                    stores.setdefault(n.id, n)
            out.update(stores)
            out.update(defs)
            for a in scope.args.args + scope.args.kwonlyargs + scope.args.posonlyargs:
                out[a.arg] = a
            if scope.args.vararg:
                out[scope.args.vararg.arg] = scope.args.vararg
            if scope.args.kwarg:
                out[scope.args.kwarg.arg] = scope.args.kwarg
        else:
            for a in scope.args.args:
                out[a.arg] = a
        cache[key] = out
        return out

    def _local_binding(self, mod: Mod, at: ast.AST, name: str) -> Optional[ast.AST]:
        """Find a def / assignment of *name* in the function scopes enclosing *at*
        (innermost first).  Returns the binding node, None if the name is not local to any of them."""
        scope = mod.enclosing_def(at)
        while scope is not None:
            b = self._scope_bindings(scope).get(name)
            if b is not None:
                return b
            scope = mod.enclosing_def(scope)
        return None

    def resolve_name(self, mod: Mod, at: ast.AST, name: str) -> Callee:
        b = self._local_binding(mod, at, name)
        if b is not None:
            if isinstance(b, (ast.FunctionDef, ast.AsyncFunctionDef, ast.ClassDef)):
                return Callee("local", mod.qualname_of(b))
            return Callee("local", name)
        if name in mod.imports:
            m, attr = mod.imports[name]
            if m.startswith(PKG):
                if attr is None:
                    return Callee("pkgmod", m)
                return Callee("pkg", f"{m}.{attr}")
            return Callee("ext", m if attr is None else f"{m}.{attr}")
        if name in mod.defs:
            return Callee("pkg", f"{PKG}.{mod.name}.{name}")
        if mod.toplevel_assign(name) is not None:
            return Callee("pkg", f"{PKG}.{mod.name}.{name}")
        if hasattr(builtins, name):
            return Callee("builtin", name)
        return Callee("unknown", name)

    def resolve_call(self, mod: Mod, call: ast.Call) -> Callee:
        f = call.func
        if isinstance(f, ast.Name):
            return self.resolve_name(mod, call, f.id)
        if isinstance(f, ast.Attribute):
            # module alias attribute: _extract.extract_child, sys._getframe
            if isinstance(f.value, ast.Name):
                base = self.resolve_name(mod, call, f.value.id)
                if base.kind == "pkgmod":
                    return Callee("pkg", f"{base.name}.{f.attr}")
                if base.kind == "ext" :
                    return Callee("ext", f"{base.name}.{f.attr}", f.value)
                if base.kind == "pkg":
                    # attribute of a package-level object: current_options.push,
                    # elaborate_frame.register
                    return Callee("pkgattr", f"{base.name}.{f.attr}", f.value)
            return Callee("method", f.attr, f.value)
        return Callee("unknown", norm(f))


def walk_scope(fn: ast.AST) -> Iterator[ast.AST]:
    """walk the body of a function without descending into nested defs/lambdas
    (the nested def node itself is yielded)"""
    todo = list(ast.iter_child_nodes(fn))
    while todo:
        n = todo.pop()
        yield n
        if isinstance(n, (ast.FunctionDef, ast.AsyncFunctionDef, ast.ClassDef, ast.Lambda)):
            continue
        todo.extend(ast.iter_child_nodes(n))


def walk_all(fn: ast.AST) -> Iterator[ast.AST]:
    return ast.walk(fn)


def calls_in(node: ast.AST, scope_only: bool = False) -> List[ast.Call]:
    it = walk_scope(node) if scope_only else ast.walk(node)
    out = [n for n in it if isinstance(n, ast.Call)]
    out.sort(key=lambda n: (n.lineno, n.col_offset))
    return out


def is_name(node: ast.AST, name: str) -> bool:
    return isinstance(node, ast.Name) and node.id == name


def is_attr(node: ast.AST, base: str, attr: str) -> bool:
    return (
        isinstance(node, ast.Attribute)
        and node.attr == attr
        and isinstance(node.value, ast.Name)
        and node.value.id == base
    )


def const_value(node: ast.AST):
    if isinstance(node, ast.Constant):
        return node.value
    raise ValueError


def stmt_of(mod: Mod, node: ast.AST) -> ast.AST:
    """the statement containing node"""
    n = node
    while not isinstance(n, ast.stmt):
        p = mod.parent_of(n)
        if p is None:
            raise AnalysisError("expression without enclosing statement")
        n = p
    return n
