"""One-pass abstract evaluation of straight-line/branching statement lists under a truth assignment.

Used by rules that must decide what a loop body or a small function does "for every combination of the conditions it
tests" without depending on how the branches are written (if/continue chains, if/elif/else, early returns, helper
predicates).  Nothing is executed: conditions are atoms looked up in the assignment; values are source text after
substituting single-assignment locals.
"""
from __future__ import annotations

import ast
import itertools
from typing import Callable, Dict, List, Optional, Sequence, Tuple

from .emit import NeedAtom, Unsupported, canon_atom, subst
from .model import AnalysisError, norm


class Stepper:
    def __init__(self, assign: Dict[str, bool], resolve: Optional[Callable[[ast.AST], ast.AST]] = None,
                 simplify: Optional[Callable[[ast.AST], ast.AST]] = None) -> None:
        self.assign = assign
        self.effects: List[str] = []
        self.resolve = resolve or (lambda e: e)
        self.simplify = simplify  # applied to every (substituted) condition before it is evaluated
        self.on_loop: Optional[Callable[[ast.stmt, Dict[str, ast.AST]], None]] = None  # abstract effect of a loop statement
        self.opaque: set = set()  # names of mutable accumulators: never substituted, their assignments are effects

    def atom(self, text: str, pol: bool = True) -> bool:
        if text not in self.assign:
            # identity and equality are symmetric: `b is a` is the atom `a is b` if that one is already known
            for sep in (" is ", " == "):
                if text.count(sep) == 1:
                    a_, b_ = text.split(sep)
                    sw = f"{b_}{sep}{a_}"
                    if sw in self.assign:
                        return self.assign[sw] if pol else not self.assign[sw]
            raise NeedAtom(text)
        return self.assign[text] if pol else not self.assign[text]

    def truth(self, e: ast.AST) -> bool:
        if isinstance(e, ast.BoolOp):
            vals = [self.truth(x) for x in e.values]
            return all(vals) if isinstance(e.op, ast.And) else any(vals)
        if isinstance(e, ast.UnaryOp) and isinstance(e.op, ast.Not):
            return not self.truth(e.operand)
        if isinstance(e, ast.Constant):
            return bool(e.value)
        if isinstance(e, ast.IfExp):
            return self.truth(e.body) if self.truth(e.test) else self.truth(e.orelse)
        if isinstance(e, ast.Compare) and len(e.ops) == 1 and isinstance(e.ops[0], (ast.Is, ast.IsNot)) \
                and isinstance(e.left, ast.Constant) and isinstance(e.comparators[0], ast.Constant):
            same = e.left.value is e.comparators[0].value
            return same if isinstance(e.ops[0], ast.Is) else not same
        if isinstance(e, ast.Call) and isinstance(e.func, ast.Name) and e.func.id == "isinstance" and len(e.args) == 2:
            tl = self.resolve(e.args[1])
            if isinstance(tl, ast.Tuple):
                return any(self.atom(f"isinstance({norm(e.args[0])}, {norm(t)})") for t in tl.elts)
            return self.atom(f"isinstance({norm(e.args[0])}, {norm(tl)})")
        a, pol = canon_atom(e)
        return self.atom(a, pol)

    def run(self, stmts: Sequence[ast.stmt], env: Dict[str, ast.AST]) -> Tuple[str, Optional[ast.AST]]:
        """-> (kind, value): kind in fall / continue / break / return / raise"""
        for s in stmts:
            if isinstance(s, ast.If):
                t = subst(s.test, env)
                if self.simplify is not None:
                    t = self.simplify(t)
                k, v = self.run(s.body if self.truth(t) else s.orelse, env)
                if k != "fall":
                    return k, v
            elif isinstance(s, ast.Assign) and len(s.targets) > 1 and all(isinstance(t, (ast.Name, ast.Subscript, ast.Attribute)) for t in s.targets):
                val = subst(s.value, env)
                for t in s.targets:
                    if isinstance(t, ast.Name):
                        env[t.id] = val
                    else:
                        self.effects.append(f"{norm(subst(t, env))} = {norm(val)}")
            elif isinstance(s, (ast.Assign, ast.AnnAssign)):
                tg = s.targets[0] if isinstance(s, ast.Assign) else s.target
                if isinstance(s, ast.Assign) and len(s.targets) != 1:
                    raise Unsupported(f"multiple assignment targets at line {s.lineno}")
                if s.value is None:
                    continue
                if isinstance(tg, ast.Name) and tg.id in self.opaque:
                    self.effects.append(f"{tg.id} = {norm(subst(s.value, env))}")
                elif isinstance(tg, ast.Name):
                    env[tg.id] = subst(s.value, env)
                else:
                    self.effects.append(norm(subst(s, env)))
            elif isinstance(s, ast.AugAssign):
                if isinstance(s.target, ast.Name) and s.target.id not in self.opaque:
                    cur = env.get(s.target.id, ast.Name(id=s.target.id, ctx=ast.Load()))
                    env[s.target.id] = ast.BinOp(left=cur, op=s.op, right=subst(s.value, env))
                else:
                    import copy as _copy
                    s2 = _copy.deepcopy(s)
                    s2.value = subst(s.value, env)
                    self.effects.append(norm(s2))
            elif isinstance(s, ast.Expr):
                if not isinstance(s.value, ast.Constant):
                    self.effects.append(norm(subst(s.value, env)))
            elif isinstance(s, ast.Continue):
                return "continue", None
            elif isinstance(s, ast.Break):
                return "break", None
            elif isinstance(s, ast.Return):
                return "return", (subst(s.value, env) if s.value is not None else None)
            elif isinstance(s, ast.Raise):
                return "raise", (subst(s.exc, env) if s.exc is not None else None)
            elif isinstance(s, (ast.Pass, ast.Assert)):
                continue
            elif isinstance(s, ast.Try):
                # two worlds: the guarded statement raises an exception a handler catches (atom "raises: <stmt>"), or nothing raises;
                # a finally block runs after either and its own return / break / continue / raise wins
                first = s.body[0] if s.body else None
                label = "raises: " + (norm(subst(first, env))[:70] if first is not None else "")
                if s.handlers and self.atom(label):
                    k, v = self.run(s.handlers[0].body, env)
                else:
                    k, v = self.run(list(s.body) + list(s.orelse), env)
                if s.finalbody:
                    kf, vf = self.run(s.finalbody, env)
                    if kf != "fall":
                        return kf, vf
                if k != "fall":
                    return k, v
            elif isinstance(s, ast.Delete) and all(isinstance(t, ast.Name) for t in s.targets):
                for t in s.targets:
                    if any(isinstance(n, ast.Name) and n.id == t.id for val in env.values() for n in ast.walk(val)):
                        raise Unsupported(f"del of a name other values still mention at line {s.lineno}")
                    env.pop(t.id, None)
            elif isinstance(s, (ast.While, ast.For)) and self.on_loop is not None:
                self.on_loop(s, env)
            else:
                raise Unsupported(f"statement kind {type(s).__name__} at line {s.lineno}")
        return "fall", None


def feasible_default(assign: Dict[str, bool]) -> bool:
    return True


def enumerate_table(run: Callable[[Dict[str, bool]], object], base_atoms: Sequence[str], max_atoms: int = 12,
                    feasible: Callable[[Dict[str, bool]], bool] = feasible_default):
    """rows (assignment, result of run) over all assignments of base atoms + atoms discovered on the way"""
    atoms = list(base_atoms)
    while True:
        rows = []
        try:
            for vals in itertools.product([False, True], repeat=len(atoms)):
                assign = dict(zip(atoms, vals))
                if not feasible(assign):
                    continue
                rows.append((assign, run(assign)))
            return atoms, rows
        except NeedAtom as na:
            if na.atom in atoms:
                raise AnalysisError(f"atom {na.atom} looked up inconsistently")
            atoms.append(na.atom)
            if len(atoms) > max_atoms:
                raise Unsupported(f"more than {max_atoms} condition atoms: {atoms}")
