from __future__ import annotations

from typing import Any, Dict

from .cfg import CFG
from .model import Mod, Program
from .report import Recorder
from .ver import Reach, Ver


class Ctx:
    def __init__(self, P: Program, F: Dict[str, Any], R: Recorder, tier: str):
        self.P = P
        self.F = F
        self.R = R
        self.tier = tier
        self.V = Ver(F)
        self._reach: Dict[str, Reach] = {}
        self._cfg: Dict[int, CFG] = {}

    def reach(self, mod: Mod) -> Reach:
        if mod.name not in self._reach:
            self._reach[mod.name] = Reach(self.V, mod)
        return self._reach[mod.name]

    def cfg(self, fn) -> CFG:
        if id(fn) not in self._cfg:
            self._cfg[id(fn)] = CFG(fn)
        return self._cfg[id(fn)]
