"""Shared helpers for structural rules."""
from __future__ import annotations

import ast
import itertools
from typing import Callable, Dict, Iterable, List, Optional, Sequence, Set, Tuple

from .cfg import handler_is_broad
from .model import AnalysisError, Mod, norm


def in_body(container_body: List[ast.stmt], node: ast.AST, mod: Mod) -> bool:
    """is node lexically inside one of the statements of container_body?"""
    ids = {id(s) for s in container_body}
    n = node
    while n is not None:
        if id(n) in ids:
            return True
        n = mod.parent_of(n)
    return False


def enclosing_tries(mod: Mod, node: ast.AST, stop: Optional[ast.AST] = None) -> List[ast.Try]:
    """Try statements whose *body* (not handlers/else/finally) contains node, innermost first;
    stops at function boundaries"""
    out = []
    child = node
    for a in mod.ancestors(node):
        if a is stop or isinstance(a, (ast.FunctionDef, ast.AsyncFunctionDef, ast.Lambda)):
            break
        if isinstance(a, ast.Try) and any(child is s for s in a.body):
            out.append(a)
        child = a
    return out


def broad_handlers(t: ast.Try) -> List[ast.ExceptHandler]:
    return [h for h in t.handlers if handler_is_broad(h)]


def enclosing_loops(mod: Mod, node: ast.AST) -> List[ast.AST]:
    out = []
    child = node
    for a in mod.ancestors(node):
        if isinstance(a, (ast.FunctionDef, ast.AsyncFunctionDef, ast.Lambda)):
            break
        if isinstance(a, (ast.For, ast.While)) and any(child is s for s in a.body):
            out.append(a)
        child = a
    return out


def contains(node: ast.AST, kind) -> List[ast.AST]:
    """nodes of `kind` inside node, not descending into nested defs"""
    out = []
    todo = list(ast.iter_child_nodes(node))
    while todo:
        n = todo.pop()
        if isinstance(n, kind):
            out.append(n)
        if isinstance(n, (ast.FunctionDef, ast.AsyncFunctionDef, ast.Lambda, ast.ClassDef)):
            continue
        todo.extend(ast.iter_child_nodes(n))
    return out


# --------------------------------------------------------------------- boolean functions
class Atomizer:
    """maps sub-expressions to atoms; `x is None` and `x is not None` share an atom"""

    def __init__(self) -> None:
        self.atoms: List[str] = []

    def atom(self, text: str) -> int:
        if text not in self.atoms:
            self.atoms.append(text)
        return self.atoms.index(text)

    def compile(self, e: ast.AST) -> Callable[[Tuple[bool, ...]], bool]:
        if isinstance(e, ast.BoolOp):
            parts = [self.compile(x) for x in e.values]
            if isinstance(e.op, ast.And):
                return lambda a: all(p(a) for p in parts)
            return lambda a: any(p(a) for p in parts)
        if isinstance(e, ast.UnaryOp) and isinstance(e.op, ast.Not):
            p = self.compile(e.operand)
            return lambda a: not p(a)
        if isinstance(e, ast.IfExp):
            t, b, o = self.compile(e.test), self.compile(e.body), self.compile(e.orelse)
            return lambda a: b(a) if t(a) else o(a)
        if isinstance(e, ast.Constant) and isinstance(e.value, bool):
            v = e.value
            return lambda a: v
        if isinstance(e, ast.Compare) and len(e.ops) == 1:
            l, op, r = e.left, e.ops[0], e.comparators[0]
            if isinstance(op, (ast.Is, ast.IsNot)):
                i = self.atom(f"{norm(l)} is {norm(r)}")
                if isinstance(op, ast.Is):
                    return lambda a: a[i]
                return lambda a: not a[i]
            if isinstance(op, (ast.Eq, ast.NotEq)):
                i = self.atom(f"{norm(l)} == {norm(r)}")
                if isinstance(op, ast.Eq):
                    return lambda a: a[i]
                return lambda a: not a[i]
            if isinstance(op, (ast.In, ast.NotIn)):
                i = self.atom(f"{norm(l)} in {norm(r)}")
                if isinstance(op, ast.In):
                    return lambda a: a[i]
                return lambda a: not a[i]
        i = self.atom(norm(e))
        return lambda a: a[i]


def truth_table(e: ast.AST, atomizer: Optional[Atomizer] = None):
    az = atomizer or Atomizer()
    f = az.compile(e)
    return az, f


def equivalent(e: ast.AST, spec: Callable[[Dict[str, bool]], bool], atoms: Sequence[str]) -> Tuple[bool, Optional[Dict[str, bool]]]:
    """is boolean expression e (over exactly `atoms`, any syntactic form) the function `spec`?
    returns (ok, counterexample)"""
    az = Atomizer()
    for a in atoms:
        az.atom(a)
    f = az.compile(e)
    if not any(a in az.atoms[:len(atoms)] and _mentions(e, a) for a in atoms):
        raise AnalysisError(f"condition mentions none of the expected atoms {list(atoms)}: {norm(e)}")
    # atoms beyond the expected ones are free variables: the condition must agree with the
    # specification whatever their value (an extra conjunct/disjunct that can change the outcome is a difference)
    for vals in itertools.product([False, True], repeat=len(az.atoms)):
        env = dict(zip(az.atoms, vals))
        if bool(f(vals)) != bool(spec(env)):
            return False, env
    return True, None


def _mentions(e: ast.AST, atom: str) -> bool:
    az = Atomizer()
    az.compile(e)
    return atom in az.atoms


def flip_compare(e: ast.AST) -> str:
    """normalised text of a comparison with the variable side first: `depth <= x` -> `x >= depth`"""
    if isinstance(e, ast.Compare) and len(e.ops) == 1:
        inv = {ast.Lt: ">", ast.LtE: ">=", ast.Gt: "<", ast.GtE: "<=", ast.Eq: "==", ast.NotEq: "!="}
        op = type(e.ops[0])
        if op in inv:
            return f"{norm(e.comparators[0])} {inv[op]} {norm(e.left)}"
    return norm(e)


def resolve_const(mod, at: ast.AST, e: ast.AST, depth: int = 0):
    """resolve an expression to a Python constant through module-level / enclosing single assignments
    (`_MAX_BLOCKS = 20`); returns (True, value) or (False, None)"""
    try:
        return True, ast.literal_eval(e)
    except Exception:
        pass
    if isinstance(e, ast.Name) and depth < 3:
        cands = []
        for n in ast.walk(mod.tree):
            if isinstance(n, ast.Assign) and len(n.targets) == 1 and isinstance(n.targets[0], ast.Name) and n.targets[0].id == e.id:
                cands.append(n.value)
            elif isinstance(n, ast.AnnAssign) and isinstance(n.target, ast.Name) and n.target.id == e.id and n.value is not None:
                cands.append(n.value)
        if len(cands) == 1:
            return resolve_const(mod, at, cands[0], depth + 1)
    return False, None


def resolve_expr(mod, e: ast.AST, depth: int = 0) -> ast.AST:
    """follow a Name to the expression of its single module-level assignment (for tuples of type names etc.)"""
    if isinstance(e, ast.Name) and depth < 3:
        cands = []
        for n in mod.tree.body:
            if isinstance(n, ast.Assign) and len(n.targets) == 1 and isinstance(n.targets[0], ast.Name) and n.targets[0].id == e.id:
                cands.append(n.value)
            elif isinstance(n, ast.AnnAssign) and isinstance(n.target, ast.Name) and n.target.id == e.id and n.value is not None:
                cands.append(n.value)
        if len(cands) == 1:
            return resolve_expr(mod, cands[0], depth + 1)
    return e


# --------------------------------------------------------------------- non-emptiness facts
# name -> container for locals that are, once, `len(<container>)` of a container the function never shrinks (set by the
# non-emptiness analysis for the function at hand)
LEN_ALIASES: Dict[str, str] = {}


def nonempty_facts(test: ast.AST, polarity: bool) -> Set[str]:
    """containers known non-empty when `test` evaluates to `polarity`"""
    if LEN_ALIASES:
        class _L(ast.NodeTransformer):
            def visit_Name(self, n: ast.Name):
                if n.id in LEN_ALIASES and isinstance(n.ctx, ast.Load):
                    return ast.copy_location(ast.Call(func=ast.Name(id="len", ctx=ast.Load()), args=[ast.Name(id=LEN_ALIASES[n.id], ctx=ast.Load())], keywords=[]), n)
                return n
        import copy as _copy
        if any(isinstance(n, ast.Name) and n.id in LEN_ALIASES for n in ast.walk(test)):
            test = _L().visit(_copy.deepcopy(test))
    if isinstance(test, ast.Name):
        return {test.id} if polarity else set()
    if isinstance(test, ast.UnaryOp) and isinstance(test.op, ast.Not):
        return nonempty_facts(test.operand, not polarity)
    if isinstance(test, ast.Call) and norm(test.func) in ("bool", "len") and len(test.args) == 1 and isinstance(test.args[0], ast.Name) and not test.keywords:
        return {test.args[0].id} if polarity else set()
    if isinstance(test, ast.Compare) and len(test.ops) == 1 and isinstance(test.left, ast.Name) and isinstance(test.comparators[0], (ast.Tuple, ast.List)) and not test.comparators[0].elts:
        if (isinstance(test.ops[0], ast.NotEq) and polarity) or (isinstance(test.ops[0], ast.Eq) and not polarity):
            return {test.left.id}
        return set()
    if isinstance(test, ast.BoolOp):
        if isinstance(test.op, ast.And) and polarity:
            return set().union(*(nonempty_facts(x, True) for x in test.values))
        if isinstance(test.op, ast.Or) and not polarity:
            return set().union(*(nonempty_facts(x, False) for x in test.values))
        return set()
    if isinstance(test, ast.Compare) and len(test.ops) == 1 and isinstance(test.left, ast.Call) \
            and norm(test.left.func) == "len" and isinstance(test.left.args[0], ast.Name) and isinstance(test.comparators[0], ast.Constant):
        x = test.left.args[0].id
        k = test.comparators[0].value
        op = test.ops[0]
        if not isinstance(k, int):
            return set()
        if polarity:
            if (isinstance(op, ast.Gt) and k >= 0) or (isinstance(op, ast.GtE) and k >= 1) or (isinstance(op, ast.Eq) and k >= 1) \
                    or (isinstance(op, ast.NotEq) and k == 0):
                return {x}
        else:
            if (isinstance(op, ast.Lt) and k >= 1) or (isinstance(op, ast.LtE) and k >= 0) or (isinstance(op, ast.Eq) and k == 0):
                return {x}
    return set()


def fold_str(mod, e: ast.AST, depth: int = 0):
    """constant folding of a string-valued expression built from literals, module-level names, __name__ / __package__ and the
    pure str operations + / partition / rpartition / split / rsplit / [i] / f-strings; returns the value or None"""
    if depth > 6:
        return None
    if isinstance(e, ast.Constant) and isinstance(e.value, (str, int)):
        return e.value
    if isinstance(e, ast.Name):
        if e.id == "__name__":
            return f"stackscope.{mod.name}" if mod.name != "__init__" else "stackscope"
        if e.id == "__package__":
            return "stackscope"
        a = mod.toplevel_assign(e.id)
        if a is not None and getattr(a, "value", None) is not None:
            return fold_str(mod, a.value, depth + 1)
        return None
    if isinstance(e, ast.BinOp) and isinstance(e.op, ast.Add):
        l, r = fold_str(mod, e.left, depth + 1), fold_str(mod, e.right, depth + 1)
        return l + r if isinstance(l, str) and isinstance(r, str) else None
    if isinstance(e, ast.JoinedStr):
        out = ""
        for v in e.values:
            if isinstance(v, ast.Constant):
                out += str(v.value)
            elif isinstance(v, ast.FormattedValue) and v.conversion == -1 and v.format_spec is None:
                x = fold_str(mod, v.value, depth + 1)
                if not isinstance(x, str):
                    return None
                out += x
            else:
                return None
        return out
    if isinstance(e, ast.Subscript) and isinstance(e.slice, ast.Constant) and isinstance(e.slice.value, int):
        base = fold_str(mod, e.value, depth + 1)
        if isinstance(base, (tuple, list)) and -len(base) <= e.slice.value < len(base):
            return base[e.slice.value]
        return None
    if isinstance(e, ast.Call) and isinstance(e.func, ast.Attribute) and e.func.attr in ("partition", "rpartition", "split", "rsplit") and not e.keywords:
        recv = fold_str(mod, e.func.value, depth + 1)
        args = [fold_str(mod, a, depth + 1) for a in e.args]
        if isinstance(recv, str) and all(isinstance(a, (str, int)) for a in args):
            try:
                return tuple(getattr(recv, e.func.attr)(*args))
            except Exception:
                return None
    return None


def implies_sequence(g: ast.AST, var: str) -> bool:
    """does the (true) condition g imply that `var` is a Sequence?  isinstance(var, ...Sequence / list / tuple...),
    `type(var) is tuple|list`, a disjunction of such tests, or a conjunction containing one"""
    if isinstance(g, ast.BoolOp) and isinstance(g.op, ast.Or):
        return all(implies_sequence(x, var) for x in g.values)
    if isinstance(g, ast.BoolOp) and isinstance(g.op, ast.And):
        return any(implies_sequence(x, var) for x in g.values)
    t = norm(g)
    if t.startswith(f"isinstance({var},") and ("Sequence" in t or t.endswith(", (tuple, list))") or t.endswith(", (list, tuple))") or t.endswith(", tuple)") or t.endswith(", list)")):
        return True
    if t in (f"type({var}) is tuple", f"type({var}) is list", f"type({var}) in (tuple, list)", f"type({var}) in (list, tuple)"):
        return True
    return False
