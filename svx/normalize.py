"""Normalisation by inlining helpers that the reference tree does not have.

The rules of svx anchor on the functions of the pinned tree.  The most common maintenance edit -- moving a block of a
function into a new private helper (or a new predicate / expression helper) and calling it from the old place -- leaves
behaviour unchanged but moves the statements the rules reason about out of the function they look at.  Before the
program model is indexed, every call of a function that is *not in the reference inventory* (svx/data/inventory.json:
the qualnames defined in each module of the pinned tree) is replaced by the helper's body when that is a plain,
semantics-preserving splice:

    helper(args)                 statement        body, early `return`s turned into if/else structure
    x = helper(args)             assignment       body, `return v` -> `x = v`
    return helper(args)          tail call        body verbatim (its returns are the caller's returns)
    yield from helper(args)      generator helper body verbatim (its yields are the caller's yields)
    ... helper(args) ...         in an expression when the helper is `return <expr>` (after if/return -> conditional expr)

Parameters bound to pure arguments (names, attribute chains, constants) are substituted; others get a local
assignment.  Helper locals are renamed when they clash with names of the caller.  Anything else (recursion, returns
inside loops or try blocks, *args, decorators, nested scopes that capture renamed names) is left alone: the rules then
see what they saw before (and typically answer "cannot decide").

Nothing is executed.  The inventory is data of the checker, regenerated with `python -m svx inventory --write` when
the reference tree changes.
"""
from __future__ import annotations

import ast
import copy
import json
import os
from typing import Dict, List, Optional, Sequence, Set, Tuple

HERE = os.path.dirname(os.path.abspath(__file__))
INVENTORY_PATH = os.path.join(HERE, "data", "inventory.json")
_inv_cache: Optional[Dict[str, List[str]]] = None


def load_inventory() -> Dict[str, List[str]]:
    global _inv_cache
    if _inv_cache is None:
        try:
            with open(INVENTORY_PATH) as f:
                _inv_cache = json.load(f)
        except OSError:
            _inv_cache = {}
    return _inv_cache


def qualnames(tree: ast.AST) -> List[str]:
    out: List[str] = []

    def rec(node: ast.AST, q: List[str]) -> None:
        for ch in ast.iter_child_nodes(node):
            if isinstance(ch, (ast.FunctionDef, ast.AsyncFunctionDef, ast.ClassDef)):
                out.append(".".join(q + [ch.name]))
                rec(ch, q + [ch.name])
            else:
                rec(ch, q)

    rec(tree, [])
    return sorted(set(out))


LOCALS_PATH = os.path.join(HERE, "data", "locals.json")
_loc_cache: Optional[Dict[str, Dict[str, List[str]]]] = None


def load_locals() -> Dict[str, Dict[str, List[str]]]:
    global _loc_cache
    if _loc_cache is None:
        try:
            with open(LOCALS_PATH) as f:
                _loc_cache = json.load(f)
        except OSError:
            _loc_cache = {}
    return _loc_cache


def _defs_with_quals(tree: ast.AST):
    def rec(node: ast.AST, q: List[str]):
        for ch in ast.iter_child_nodes(node):
            if isinstance(ch, (ast.FunctionDef, ast.AsyncFunctionDef, ast.ClassDef)):
                if not isinstance(ch, ast.ClassDef):
                    yield ".".join(q + [ch.name]), ch
                yield from rec(ch, q + [ch.name])
            else:
                yield from rec(ch, q)
    yield from rec(tree, [])


def _own_scope(fn: ast.AST):
    """nodes of the function's own scope (nested defs / lambdas / classes are not entered; comprehensions are)"""
    todo = list(ast.iter_child_nodes(fn))
    while todo:
        n = todo.pop()
        yield n
        if not isinstance(n, (ast.FunctionDef, ast.AsyncFunctionDef, ast.Lambda, ast.ClassDef)):
            todo.extend(ast.iter_child_nodes(n))


def _param_names(fn: ast.AST) -> List[str]:
    a = fn.args
    return [x.arg for x in a.posonlyargs + a.args + a.kwonlyargs] + ([a.vararg.arg] if a.vararg else []) + ([a.kwarg.arg] if a.kwarg else [])


def local_names(tree: ast.AST) -> Dict[str, List[str]]:
    """per function (by qualified name; the last definition of a name wins): the names it stores; under "<qual>()" its parameters"""
    out: Dict[str, List[str]] = {}
    for q, fn in _defs_with_quals(tree):
        out[q] = sorted({n.id for n in _own_scope(fn) if isinstance(n, ast.Name) and isinstance(n.ctx, ast.Store)})
        out[q + "()"] = _param_names(fn)
    return out


def fold_new_options(tree: ast.Module, modname: str, log: List[str]) -> None:
    """a parameter that the reference function does not have, with a constant default, that nothing in this module passes: the
    properties speak about the documented interface, i.e. about the path on which the new option has its default.  The
    parameter's reads are replaced by the default and the body is folded, so that the rules see the default path"""
    ref = load_locals().get(modname)
    if ref is None:
        return
    passed = {k.arg for c in ast.walk(tree) if isinstance(c, ast.Call) for k in c.keywords if k.arg}
    star_kw = any(isinstance(c, ast.Call) and any(k.arg is None for k in c.keywords) for c in ast.walk(tree))
    for q, fn in list(_defs_with_quals(tree)):
        rp = ref.get(q + "()")
        if rp is None:
            continue
        a = fn.args
        defaults = dict(list(zip([x.arg for x in reversed(a.posonlyargs + a.args)], reversed(a.defaults))) + [(x.arg, d) for x, d in zip(a.kwonlyargs, a.kw_defaults) if d is not None])
        kwonly = {x.arg for x in a.kwonlyargs}
        for p in [x for x in _param_names(fn) if x not in rp]:
            d = defaults.get(p)
            if p not in kwonly or not isinstance(d, ast.Constant) or not (d.value is None or isinstance(d.value, (bool, int, str))) or p in passed or star_kw and False:
                continue
            if any(isinstance(n, ast.Name) and n.id == p and isinstance(n.ctx, (ast.Store, ast.Del)) for n in ast.walk(fn)):
                continue
            uses = [n for n in ast.walk(fn) if isinstance(n, ast.Name) and n.id == p and isinstance(n.ctx, ast.Load)]
            if not uses:
                continue

            class P(ast.NodeTransformer):
                def visit_Name(self, n: ast.Name):
                    if n.id == p and isinstance(n.ctx, ast.Load):
                        return ast.copy_location(ast.Constant(value=d.value), n)
                    return n

                def visit_keyword(self, k: ast.keyword):
                    # `inner(p=p)`: handing the option on at its default is not passing it
                    self.generic_visit(k)
                    return k
            fn.body = _fold_block([P().visit(b) for b in fn.body]) or [ast.Pass()]
            # calls that hand the option on at its default value: drop the keyword (the callee's own default applies)
            for c in ast.walk(fn):
                if isinstance(c, ast.Call):
                    c.keywords = [k for k in c.keywords if not (k.arg == p and isinstance(k.value, ast.Constant) and k.value.value == d.value)]
            log.append(f"{modname}: new optional parameter `{p}` of {q} (default {d.value!r}, passed nowhere in the module): the body is read on its default path")
    ast.fix_missing_locations(tree)



def propagate_new_aliases(tree: ast.Module, modname: str, log: List[str]) -> None:
    """a local that the reference tree's function of the same name does not have, bound once to a plain name / attribute chain
    that nothing in the function rebinds, and read only later in the block that binds it, is that chain: its reads are replaced
    and the binding dropped (the counterpart, for values, of inlining helpers the reference tree does not have)"""
    ref = load_locals().get(modname)
    if ref is None:
        return
    for q, fn in list(_defs_with_quals(tree)):
        known = set(ref.get(q, [])) | {a.arg for a in fn.args.args + fn.args.kwonlyargs + fn.args.posonlyargs} | ({fn.args.vararg.arg} if fn.args.vararg else set()) | ({fn.args.kwarg.arg} if fn.args.kwarg else set())
        changed = True
        while changed:
            changed = False
            scope = list(_own_scope(fn))
            stores: Dict[str, List[ast.Name]] = {}
            for n in scope:
                if isinstance(n, ast.Name) and isinstance(n.ctx, (ast.Store, ast.Del)):
                    stores.setdefault(n.id, []).append(n)
            stored_attrs = {ast.unparse(n) for n in scope if isinstance(n, (ast.Attribute, ast.Subscript)) and isinstance(n.ctx, (ast.Store, ast.Del))}
            for blk_owner in [fn] + [n for n in scope if isinstance(n, ast.stmt)]:
                for fld in ("body", "orelse", "finalbody"):
                    blk = getattr(blk_owner, fld, None)
                    if not (isinstance(blk, list) and blk and isinstance(blk[0], ast.stmt)) or (blk_owner is not fn and isinstance(blk_owner, (ast.FunctionDef, ast.AsyncFunctionDef, ast.ClassDef))):
                        continue
                    for i, a in enumerate(blk):
                        tg = a.targets[0] if isinstance(a, ast.Assign) and len(a.targets) == 1 else (a.target if isinstance(a, ast.AnnAssign) and a.value is not None else None)
                        if not isinstance(tg, ast.Name) or tg.id in known or tg.id.startswith("_inl") or len(stores.get(tg.id, [])) != 1:
                            continue
                        v = a.value

                        def plain(e_: ast.AST) -> bool:
                            """a name / attribute chain nothing here rebinds or stores into (or a constant)"""
                            if isinstance(e_, ast.Constant):
                                return True
                            c_ = e_
                            while isinstance(c_, ast.Attribute):
                                c_ = c_.value
                            if not isinstance(c_, ast.Name) or not isinstance(e_, (ast.Attribute, ast.Name)) or c_.id == tg.id or c_.id in stores:
                                return False
                            t_ = ast.unparse(e_)
                            return not any(t_ == sa or t_.startswith(sa + ".") or sa.startswith(t_ + ".") for sa in stored_attrs)
                        if isinstance(v, ast.Tuple) and v.elts and all(plain(x_) for x_ in v.elts) and not all(isinstance(x_, ast.Constant) for x_ in v.elts):
                            pass        # a pair of such values: (key, value)
                        elif isinstance(v, ast.Constant) or not plain(v):
                            continue
                        txt = ast.unparse(v)
                        uses = [n for n in ast.walk(fn) if isinstance(n, ast.Name) and n.id == tg.id and isinstance(n.ctx, ast.Load)]
                        later = {id(n) for b in blk[i + 1:] for n in ast.walk(b)}
                        in_scope = {id(n) for n in scope}
                        if not uses or not all(id(n) in later and id(n) in in_scope for n in uses):
                            continue

                        class P(ast.NodeTransformer):
                            def visit_Name(self, n: ast.Name):
                                if n.id == tg.id and isinstance(n.ctx, ast.Load):
                                    return ast.copy_location(copy.deepcopy(v), n)
                                return n
                        for k in range(i + 1, len(blk)):
                            blk[k] = P().visit(blk[k])
                        del blk[i]
                        if not blk:
                            blk.append(ast.Pass())
                        log.append(f"{modname}: new local `{tg.id}` of {q} is `{txt}`: its reads were replaced by that expression")
                        changed = True
                        break
                    if changed:
                        break
                if changed:
                    break
    ast.fix_missing_locations(tree)


class _Canon(ast.NodeTransformer):
    """two spellings with one meaning, written the way the reference tree writes them: getattr(x, "name") is x.name;
    `not (a is b)` is `a is not b` (likewise `is not`, `in`, `not in`)"""
    def __init__(self, log: List[str], modname: str) -> None:
        self.log, self.modname, self.n = log, modname, 0

    def visit_Call(self, c: ast.Call):
        self.generic_visit(c)
        if isinstance(c.func, ast.Name) and c.func.id == "getattr" and len(c.args) == 2 and not c.keywords and isinstance(c.args[1], ast.Constant) \
                and isinstance(c.args[1].value, str) and c.args[1].value.isidentifier() and not c.args[1].value.startswith("__"):
            self.n += 1
            return ast.copy_location(ast.Attribute(value=c.args[0], attr=c.args[1].value, ctx=ast.Load()), c)
        return c

    def visit_UnaryOp(self, u: ast.UnaryOp):
        self.generic_visit(u)
        if isinstance(u.op, ast.Not) and isinstance(u.operand, ast.Compare) and len(u.operand.ops) == 1 and isinstance(u.operand.ops[0], (ast.Is, ast.IsNot, ast.In, ast.NotIn)):
            flip = {ast.Is: ast.IsNot, ast.IsNot: ast.Is, ast.In: ast.NotIn, ast.NotIn: ast.In}[type(u.operand.ops[0])]
            self.n += 1
            return ast.copy_location(ast.Compare(left=u.operand.left, ops=[flip()], comparators=u.operand.comparators), u)
        return u


class NotInlinable(Exception):
    pass


# --------------------------------------------------------------------------- helpers on helper bodies
def _scope_nodes(fn: ast.AST):
    """nodes of fn's own scope (not nested defs/lambdas/classes; comprehensions are included)"""
    todo = list(fn.body)
    while todo:
        n = todo.pop()
        yield n
        if isinstance(n, (ast.FunctionDef, ast.AsyncFunctionDef, ast.Lambda, ast.ClassDef)):
            continue
        todo.extend(ast.iter_child_nodes(n))


def _assigned_names(fn: ast.AST) -> Set[str]:
    out: Set[str] = set()
    for n in _scope_nodes(fn):
        if isinstance(n, ast.Name) and isinstance(n.ctx, (ast.Store, ast.Del)):
            out.add(n.id)
        elif isinstance(n, (ast.FunctionDef, ast.AsyncFunctionDef, ast.ClassDef)):
            out.add(n.name)
        elif isinstance(n, ast.ExceptHandler) and n.name:
            out.add(n.name)
        elif isinstance(n, (ast.Import, ast.ImportFrom)):
            for a in n.names:
                out.add((a.asname or a.name).split(".")[0])
    return out


def _all_names(fn: ast.AST) -> Set[str]:
    out = {a.arg for a in fn.args.posonlyargs + fn.args.args + fn.args.kwonlyargs}
    for n in ast.walk(fn):
        if isinstance(n, ast.Name):
            out.add(n.id)
        elif isinstance(n, ast.arg):
            out.add(n.arg)
    return out


def _is_generator(fn: ast.AST) -> bool:
    return any(isinstance(n, (ast.Yield, ast.YieldFrom)) for n in _scope_nodes(fn))


def _strip_doc(body: Sequence[ast.stmt]) -> List[ast.stmt]:
    b = list(body)
    if b and isinstance(b[0], ast.Expr) and isinstance(b[0].value, ast.Constant) and isinstance(b[0].value.value, str):
        b = b[1:]
    return b


def _has_return(stmts: Sequence[ast.stmt]) -> bool:
    for s in stmts:
        for n in [s] + list(_walk_no_defs(s)):
            if isinstance(n, ast.Return):
                return True
    return False


def _walk_no_defs(node: ast.AST):
    todo = list(ast.iter_child_nodes(node))
    while todo:
        n = todo.pop()
        yield n
        if isinstance(n, (ast.FunctionDef, ast.AsyncFunctionDef, ast.Lambda, ast.ClassDef)):
            continue
        todo.extend(ast.iter_child_nodes(n))


def _pure_arg(e: ast.AST) -> bool:
    if isinstance(e, ast.Constant):
        return True
    if isinstance(e, ast.Name):
        return True
    if isinstance(e, ast.Attribute):
        return _pure_arg(e.value)
    if isinstance(e, ast.Subscript) and isinstance(e.slice, ast.Constant) and isinstance(e.slice.value, str) and ast.unparse(e.value) in ("op", "opmap", "dis.opmap"):
        return True  # op["ROT_TWO"]: a lookup in the opcode table, the same value whenever it is evaluated
    if isinstance(e, ast.BinOp) and isinstance(e.op, (ast.Add, ast.Sub, ast.Mult)) and _pure_arg(e.left) and _pure_arg(e.right) \
            and (isinstance(e.left, ast.Constant) or isinstance(e.right, ast.Constant)):
        return True  # depth + 1
    return False


class _Fold(ast.NodeTransformer):
    """constant folding after a flag parameter was substituted by True / False: `False and X` -> False, `True and X` -> X,
    `if False: ...` dropped, `X if True else Y` -> X"""

    def visit_BoolOp(self, n: ast.BoolOp):
        self.generic_visit(n)
        vals = []
        for v in n.values:
            if isinstance(v, ast.Constant) and isinstance(v.value, bool):
                if isinstance(n.op, ast.And):
                    if v.value is False:
                        return ast.copy_location(ast.Constant(value=False), n) if not vals else ast.copy_location(ast.BoolOp(op=ast.And(), values=vals + [v]), n) if False else ast.copy_location(ast.Constant(value=False), n) if all(_pure_arg(x) or isinstance(x, (ast.Compare, ast.UnaryOp)) for x in vals) else n
                    continue
                else:
                    if v.value is True:
                        return ast.copy_location(ast.Constant(value=True), n) if all(_pure_arg(x) or isinstance(x, (ast.Compare, ast.UnaryOp)) for x in vals) else n
                    continue
            vals.append(v)
        if not vals:
            return ast.copy_location(ast.Constant(value=isinstance(n.op, ast.And)), n)
        if len(vals) == 1:
            return vals[0]
        n.values = vals
        return n

    def visit_UnaryOp(self, n: ast.UnaryOp):
        self.generic_visit(n)
        if isinstance(n.op, ast.Not) and isinstance(n.operand, ast.Constant) and isinstance(n.operand.value, bool):
            return ast.copy_location(ast.Constant(value=not n.operand.value), n)
        return n

    def visit_IfExp(self, n: ast.IfExp):
        self.generic_visit(n)
        if isinstance(n.test, ast.Constant) and isinstance(n.test.value, bool):
            return n.body if n.test.value else n.orelse
        return n

    def visit_Compare(self, n: ast.Compare):
        self.generic_visit(n)
        # `None is None`, `<container literal> is None`: decided by the syntax
        if len(n.ops) == 1 and isinstance(n.ops[0], (ast.Is, ast.IsNot)):
            l, r = n.left, n.comparators[0]
            single = lambda x: isinstance(x, ast.Constant) and (x.value is None or isinstance(x.value, bool))
            never_none = lambda x: isinstance(x, (ast.Dict, ast.DictComp, ast.List, ast.ListComp, ast.Tuple, ast.Set, ast.SetComp, ast.JoinedStr)) or (isinstance(x, ast.Constant) and x.value is not None)
            val = None
            if single(l) and single(r):
                val = l.value is r.value
            elif (never_none(l) and isinstance(r, ast.Constant) and r.value is None) or (never_none(r) and isinstance(l, ast.Constant) and l.value is None):
                val = False
            if val is not None:
                return ast.copy_location(ast.Constant(value=val if isinstance(n.ops[0], ast.Is) else not val), n)
        return n


def _known_not_none(body: List[ast.stmt], caller: ast.AST, tree: Optional[ast.AST] = None) -> List[ast.stmt]:
    """`x is None` / `x is not None` where x is a local of the caller bound exactly once, to a container literal or comprehension:
    decided (an argument that can never be None passed for an Optional parameter of an inlined helper)"""
    once: Dict[str, ast.AST] = {}
    count: Dict[str, int] = {}
    for a in _scope_nodes(caller):
        for t in (a.targets if isinstance(a, ast.Assign) else [a.target] if isinstance(a, (ast.AnnAssign, ast.AugAssign, ast.For, ast.NamedExpr)) else []):
            for nm in ast.walk(t):
                if isinstance(nm, ast.Name) and isinstance(nm.ctx, ast.Store):
                    count[nm.id] = count.get(nm.id, 0) + 1
                    if isinstance(a, ast.Assign) and len(a.targets) == 1 and t is nm:
                        once[nm.id] = a.value
    params = {p.arg for p in caller.args.posonlyargs + caller.args.args + caller.args.kwonlyargs} if hasattr(caller, "args") else set()
    def container_call(v: ast.AST) -> bool:
        # a call of a module-level function annotated to return a container (never Optional)
        if tree is None or not (isinstance(v, ast.Call) and isinstance(v.func, ast.Name)):
            return False
        defs = [d for d in tree.body if isinstance(d, ast.FunctionDef) and d.name == v.func.id]
        if len(defs) != 1 or defs[0].returns is None:
            return False
        r = ast.unparse(defs[0].returns).strip("'\"")
        return r.split("[")[0] in ("Dict", "List", "Set", "Tuple", "dict", "list", "set", "tuple", "Deque", "DefaultDict")

    safe = {k for k, v in once.items() if count.get(k) == 1 and k not in params and (isinstance(v, (ast.Dict, ast.DictComp, ast.List, ast.ListComp, ast.Set, ast.SetComp)) or container_call(v))}
    if not safe:
        return body

    class K(ast.NodeTransformer):
        def visit_Compare(self, n: ast.Compare):
            if len(n.ops) == 1 and isinstance(n.ops[0], (ast.Is, ast.IsNot)) and isinstance(n.left, ast.Name) and n.left.id in safe \
                    and isinstance(n.comparators[0], ast.Constant) and n.comparators[0].value is None:
                return ast.copy_location(ast.Constant(value=isinstance(n.ops[0], ast.IsNot)), n)
            return n

        def visit_FunctionDef(self, n):
            return n
        visit_AsyncFunctionDef = visit_Lambda = visit_FunctionDef
    return [K().visit(x) for x in body]


def _propagate_flags(body: List[ast.stmt]) -> List[ast.stmt]:
    """`flag = True` (the first, top-level, only binding of a local in this block) read only in tests: substitute the constant"""
    import copy as _copy
    for i, a in enumerate(body):
        if isinstance(a, ast.Assign) and len(a.targets) == 1 and isinstance(a.targets[0], ast.Name) and isinstance(a.value, ast.Constant) and isinstance(a.value.value, bool):
            nm = a.targets[0].id
            rest = body[i + 1:]
            if any(isinstance(n, ast.Name) and n.id == nm for b in body[:i] for n in ast.walk(b)):
                continue
            uses = [n for b in rest for n in ast.walk(b) if isinstance(n, ast.Name) and n.id == nm]
            if not uses or any(not isinstance(n.ctx, ast.Load) for n in uses):
                continue
            if any(isinstance(d, (ast.FunctionDef, ast.AsyncFunctionDef, ast.Lambda, ast.ClassDef)) and any(isinstance(n, ast.Name) and n.id == nm for n in ast.walk(d)) for b in rest for d in ast.walk(b)):
                continue

            class P(ast.NodeTransformer):
                def visit_Name(self, n: ast.Name):
                    if n.id == nm and isinstance(n.ctx, ast.Load):
                        return ast.copy_location(ast.Constant(value=a.value.value), n)
                    return n
            return body[:i] + _propagate_flags([P().visit(b) for b in rest])
    return body


def _fold_block(body: List[ast.stmt]) -> List[ast.stmt]:
    out: List[ast.stmt] = []
    body = _propagate_flags([_Fold().visit(s) for s in body]) if any(isinstance(s, ast.Assign) for s in body) else body
    for s in body:
        s = _Fold().visit(s)
        for fld in ("body", "orelse", "finalbody"):
            sub = getattr(s, fld, None)
            if isinstance(sub, list) and sub and isinstance(sub[0], ast.stmt) and not isinstance(s, (ast.FunctionDef, ast.AsyncFunctionDef, ast.ClassDef)):
                setattr(s, fld, _fold_block(sub) or ([ast.Pass()] if fld == "body" else []))
        if isinstance(s, ast.Try):
            for h in s.handlers:
                h.body = _fold_block(h.body) or [ast.Pass()]
        if isinstance(s, ast.If) and isinstance(s.test, ast.Constant) and isinstance(s.test.value, bool):
            out.extend(s.body if s.test.value else s.orelse)
            continue
        out.append(s)
    return out


class _Rename(ast.NodeTransformer):
    """substitute parameter names by argument expressions, rename clashing locals"""

    def __init__(self, subst: Dict[str, ast.AST], rename: Dict[str, str]) -> None:
        self.subst = subst
        self.rename = rename

    def visit_Name(self, n: ast.Name) -> ast.AST:
        if n.id in self.subst:
            rep = self.subst[n.id]
            if isinstance(n.ctx, ast.Load):
                return copy.deepcopy(rep)
            if isinstance(rep, ast.Name):
                return ast.copy_location(ast.Name(id=rep.id, ctx=n.ctx), n)
            raise NotInlinable("store to a parameter bound to a non-name argument")
        if n.id in self.rename:
            return ast.copy_location(ast.Name(id=self.rename[n.id], ctx=n.ctx), n)
        return n

    def visit_ExceptHandler(self, n: ast.ExceptHandler) -> ast.AST:
        self.generic_visit(n)
        if n.name and n.name in self.rename:
            n.name = self.rename[n.name]
        return n

    def _skip_scope(self, n):
        # nested scopes: only rewrite free uses; a nested def that rebinds one of our names is refused up front
        self.generic_visit(n)
        return n

    visit_FunctionDef = _skip_scope
    visit_Lambda = _skip_scope


def _tailify(stmts: Sequence[ast.stmt], on_return) -> Tuple[List[ast.stmt], bool]:
    """rewrite returns in tail / if-branch positions; (new statements, may fall through)"""
    out: List[ast.stmt] = []
    stmts = list(stmts)
    for i, s in enumerate(stmts):
        if isinstance(s, ast.Return):
            out.extend(on_return(s.value, s))
            return out, False
        if isinstance(s, ast.If) and _has_return([s]):
            b, bf = _tailify(s.body, on_return)
            o, of = _tailify(s.orelse, on_return)
            rest = stmts[i + 1:]
            if bf and of:
                out.append(ast.copy_location(ast.If(test=s.test, body=b or [ast.Pass()], orelse=o), s))
                continue
            r, rf = _tailify(rest, on_return)
            if not bf and not of:
                out.append(ast.copy_location(ast.If(test=s.test, body=b or [ast.Pass()], orelse=o), s))
                return out, False
            if not bf:
                out.append(ast.copy_location(ast.If(test=s.test, body=b or [ast.Pass()], orelse=(o + r)), s))
            else:
                out.append(ast.copy_location(ast.If(test=s.test, body=(b + r) or [ast.Pass()], orelse=o), s))
            return out, rf
        if isinstance(s, ast.Try) and _has_return([s]):
            if s.finalbody:
                raise NotInlinable("return inside a try with finally")
            b, bf = _tailify(s.body, on_return)
            hs = [(_tailify(h.body, on_return)) for h in s.handlers]
            o, of = _tailify(s.orelse, on_return) if s.orelse else ([], True)
            normal_falls = bf and of
            rest = stmts[i + 1:]
            r, rf = _tailify(rest, on_return)
            falling = (1 if normal_falls else 0) + sum(1 for _, hf in hs if hf)
            if r and falling > 1:
                raise NotInlinable("statements after a try that several paths fall out of")
            new_handlers = []
            for h, (hb, hf) in zip(s.handlers, hs):
                nb = hb + (copy.deepcopy(r) if (hf and r) else [])
                new_handlers.append(ast.copy_location(ast.ExceptHandler(type=h.type, name=h.name, body=nb or [ast.Pass()]), h))
            new_orelse = o + (r if normal_falls else []) if (s.orelse or (normal_falls and r)) else []
            out.append(ast.copy_location(ast.Try(body=b or [ast.Pass()], handlers=new_handlers, orelse=new_orelse, finalbody=[]), s))
            return out, (falling > 0 and rf)
        if _has_return([s]):
            raise NotInlinable("return inside a loop / with")
        out.append(s)
    return out, True


def _loop_tail(stmts: Sequence[ast.stmt], on_return) -> Optional[List[ast.stmt]]:
    """body = S*, then one final loop whose returns are directly in it (not in an inner loop): return v -> result; break"""
    stmts = list(stmts)
    tail_ret = None
    if len(stmts) >= 2 and isinstance(stmts[-1], ast.Return) and isinstance(stmts[-2], (ast.While, ast.For)):
        # loop, then `return X`: X is the result when the loop ends without returning (its else clause)
        tail_ret = stmts[-1]
        stmts = stmts[:-1]
    if not stmts or not isinstance(stmts[-1], (ast.While, ast.For)) or stmts[-1].orelse or _has_return(stmts[:-1]):
        return None
    loop = stmts[-1]
    if not _has_return([loop]):
        return None  # nothing to do with the loop: plain tail positions
    for n in _walk_no_defs(loop):
        if isinstance(n, ast.Break):
            return None
    # returns must not sit inside an inner loop (a break would leave the wrong loop) or a try with finally
    def ok(body: Sequence[ast.stmt]) -> bool:
        for s in body:
            if isinstance(s, (ast.While, ast.For, ast.AsyncFor)) and _has_return([s]):
                return False
            if isinstance(s, ast.Try) and s.finalbody and _has_return([s]):
                return False
            for fld in ("body", "orelse", "handlers", "finalbody"):
                sub = getattr(s, fld, None)
                if isinstance(sub, list):
                    inner = [h for h in sub if isinstance(h, ast.stmt)] + [x for h in sub if isinstance(h, ast.ExceptHandler) for x in h.body]
                    if not ok(inner):
                        return False
        return True

    if not ok(loop.body):
        return None
    if isinstance(loop, ast.While) and not (isinstance(loop.test, ast.Constant) and loop.test.value is True):
        # the loop may also end normally: the helper then returns None
        pass

    class R(ast.NodeTransformer):
        def visit_Return(self, n: ast.Return):
            return on_return(n.value, n) + [ast.copy_location(ast.Break(), n)]

        def visit_FunctionDef(self, n):
            return n

        visit_AsyncFunctionDef = visit_Lambda = visit_FunctionDef

    new_loop = R().visit(copy.deepcopy(loop))
    if tail_ret is not None:
        new_loop.orelse = on_return(tail_ret.value, tail_ret) or [ast.copy_location(ast.Pass(), tail_ret)]
        new_loop._svx_total = True  # every way out of the loop assigns the result
    return stmts[:-1] + [new_loop]


def _expr_of(fn: ast.AST) -> Optional[ast.AST]:
    """the helper as one expression, if its body is (if c: return a)* return b"""
    body = _strip_doc(fn.body)

    def pureish(e: ast.AST) -> bool:
        if _pure_arg(e):
            return True
        return isinstance(e, ast.Call) and isinstance(e.func, ast.Name) and e.func.id in ("type", "len", "id", "isinstance", "bool") and not e.keywords and all(pureish(a) for a in e.args)

    def conv(stmts: List[ast.stmt]) -> Optional[ast.AST]:
        if not stmts:
            return None
        s = stmts[0]
        if isinstance(s, ast.Assign) and len(s.targets) == 1 and isinstance(s.targets[0], ast.Name) and pureish(s.value) and len(stmts) > 1:
            # v = <pure>; ... : substitute v in what follows
            rest = conv(stmts[1:])
            if rest is None:
                return None
            nm = s.targets[0].id
            if any(isinstance(n, ast.Name) and n.id == nm and isinstance(n.ctx, ast.Store) for st in stmts[1:] for n in ast.walk(st)):
                return None
            return _Rename({nm: s.value}, {}).visit(copy.deepcopy(rest))
        if isinstance(s, ast.Return) and s.value is not None:
            return s.value
        if isinstance(s, ast.If):
            a = conv(list(s.body))
            if a is None:
                return None
            b = conv(list(s.orelse)) if s.orelse else conv(stmts[1:])
            if b is None:
                return None
            return ast.copy_location(ast.IfExp(test=s.test, body=a, orelse=b), s)
        return None

    return conv(body)


# --------------------------------------------------------------------------- the inliner
class Inliner:
    def __init__(self, tree: ast.Module, modname: str, reference: Optional[Sequence[str]]) -> None:
        self.tree = tree
        self.modname = modname
        self.reference = set(reference) if reference is not None else None
        self.log: List[str] = []
        self.helpers: Dict[str, ast.AST] = {}

    def new_helpers(self) -> None:
        if self.reference is None:
            return

        def rec(node: ast.AST, q: List[str]) -> None:
            for ch in ast.iter_child_nodes(node):
                if isinstance(ch, ast.FunctionDef):
                    name = ".".join(q + [ch.name])
                    if name not in self.reference and not ch.decorator_list and not ch.args.vararg and not ch.args.kwarg:
                        self.helpers[name] = ch
                    rec(ch, q + [ch.name])
                elif isinstance(ch, (ast.ClassDef, ast.AsyncFunctionDef)):
                    rec(ch, q + [ch.name])
                else:
                    rec(ch, q)

        rec(self.tree, [])

    # -- resolve a call to a helper
    def target(self, call: ast.Call, scope: List[str]) -> Optional[Tuple[str, ast.AST, Optional[ast.AST]]]:
        """(qualname, def, receiver expression or None)"""
        f = call.func
        if isinstance(f, ast.Name):
            # innermost enclosing scope first (nested helper), then module level
            for k in range(len(scope), -1, -1):
                q = ".".join(scope[:k] + [f.id])
                if q in self.helpers:
                    # a module-level helper referenced from inside a class body scope is not visible by bare name,
                    # but from methods it is: k == 0 is fine; class-level names are not (skip them)
                    if k > 0 and k <= len(scope) and self._is_class(scope[:k]):
                        continue
                    return q, self.helpers[q], None
            return None
        if isinstance(f, ast.Attribute) and isinstance(f.value, ast.Name) and f.value.id in getattr(self, "_cur_records", {}):
            q = f"{self._cur_records[f.value.id]}.{f.attr}"
            if q in self.helpers:
                return q, self.helpers[q], f.value
        if isinstance(f, ast.Attribute) and isinstance(f.value, ast.Name) and f.value.id in ("self", "cls") and scope:
            # method of the enclosing class
            for k in range(len(scope), 0, -1):
                if self._is_class(scope[:k]):
                    q = ".".join(scope[:k] + [f.attr])
                    if q in self.helpers:
                        return q, self.helpers[q], f.value
                    break
        return None

    def _is_class(self, path: List[str]) -> bool:
        node: ast.AST = self.tree
        for name in path:
            nxt = None
            for ch in ast.walk(node) if False else ast.iter_child_nodes(node):
                if isinstance(ch, (ast.FunctionDef, ast.AsyncFunctionDef, ast.ClassDef)) and ch.name == name:
                    nxt = ch
            if nxt is None:
                # look deeper (definitions nested in if/try at that level)
                for ch in ast.walk(node):
                    if isinstance(ch, (ast.FunctionDef, ast.AsyncFunctionDef, ast.ClassDef)) and ch.name == name:
                        nxt = ch
                        break
            if nxt is None:
                return False
            node = nxt
        return isinstance(node, ast.ClassDef)

    # -- bind arguments
    def bind(self, h: ast.AST, call: ast.Call, recv: Optional[ast.AST], caller: ast.AST, assign_target: Optional[str]):
        a = h.args
        params = [x.arg for x in a.posonlyargs + a.args]
        if recv is not None:
            if not params:
                raise NotInlinable("method without self")
            selfname, params = params[0], params[1:]
        if any(isinstance(x, ast.Starred) for x in call.args) or any(k.arg is None for k in call.keywords):
            raise NotInlinable("star arguments")
        bound: Dict[str, ast.AST] = {}
        if len(call.args) > len(params):
            raise NotInlinable("too many positional arguments")
        for p, x in zip(params, call.args):
            bound[p] = x
        allp = set(params) | {x.arg for x in a.kwonlyargs}
        for k in call.keywords:
            if k.arg not in allp or k.arg in bound:
                raise NotInlinable("keyword mismatch")
            bound[k.arg] = k.value
        posdef = a.posonlyargs + a.args
        for p, d in zip(posdef[len(posdef) - len(a.defaults):], a.defaults):
            bound.setdefault(p.arg, d)
        for p, d in zip(a.kwonlyargs, a.kw_defaults):
            if d is not None:
                bound.setdefault(p.arg, d)
        if set(bound) != allp:
            raise NotInlinable("unbound parameter")
        stored = _assigned_names(h)
        # `nonlocal x` in a helper nested in the caller itself: x is the caller's own variable, not a local of the helper
        nl_ = {nm for n in _scope_nodes(h) if isinstance(n, ast.Nonlocal) for nm in n.names}
        if nl_ and any(n is h for n in ast.walk(caller)) and nl_ <= (_assigned_names(caller) | {x.arg for x in caller.args.posonlyargs + caller.args.args + caller.args.kwonlyargs}):
            stored = stored - nl_
            self._nonlocal_ok = (h, nl_)
        caller_names = _all_names(caller)
        subst: Dict[str, ast.AST] = {}
        prelude: List[ast.stmt] = []
        rename: Dict[str, str] = {}
        if recv is not None:
            if selfname in stored:
                raise NotInlinable("self rebound")
            subst[selfname] = recv

        def fresh(name: str) -> str:
            cand = name
            k = 0
            while cand in caller_names or cand in rename.values():
                k += 1
                cand = f"_inl{k}_{name}"
            return cand

        def single_straight_use(pname: str) -> bool:
            """the parameter is read exactly once, and that read is evaluated exactly once (not inside a loop body, a
            comprehension or a nested function -- the iterable of a top-level for statement is fine)"""
            uses = [n for n in ast.walk(h) if isinstance(n, ast.Name) and n.id == pname and isinstance(n.ctx, ast.Load)]
            if len(uses) != 1:
                return False
            u = uses[0]

            def inside_repeated(node: ast.AST, target: ast.AST) -> Optional[bool]:
                for fld, val in ast.iter_fields(node):
                    vals = val if isinstance(val, list) else [val]
                    for v in vals:
                        if not isinstance(v, ast.AST):
                            continue
                        if v is target or any(x is target for x in ast.walk(v)):
                            rep = isinstance(node, (ast.While, ast.ListComp, ast.SetComp, ast.DictComp, ast.GeneratorExp, ast.Lambda, ast.FunctionDef, ast.AsyncFunctionDef)) and node is not h
                            if isinstance(node, (ast.For, ast.AsyncFor)) and fld in ("body", "orelse"):
                                rep = True
                            if rep:
                                return True
                            if v is target:
                                return False
                            return inside_repeated(v, target)
                return False
            return inside_repeated(h, u) is False
        impure = [p_ for p_, x_ in bound.items() if not _pure_arg(x_)]
        # several impure arguments of an expression helper: fine when each parameter is read exactly once, in the order in which
        # the call evaluates the arguments (so every argument is still evaluated once and in the same order)
        ordered_ok = False
        hb_ = _strip_doc(h.body)
        if len(impure) > 1 and len(hb_) == 1 and isinstance(hb_[0], ast.Return) and all(p_ not in stored and single_straight_use(p_) for p_ in impure) \
                and not any(isinstance(n, (ast.Yield, ast.YieldFrom, ast.Await, ast.NamedExpr)) for p_ in impure for n in ast.walk(bound[p_])):
            pos_ = {}
            for n in ast.walk(hb_[0]):
                if isinstance(n, ast.Name) and n.id in impure and isinstance(n.ctx, ast.Load):
                    pos_[n.id] = (n.lineno, n.col_offset)
            call_order = [p_ for p_ in bound if p_ in impure]
            ordered_ok = sorted(call_order, key=lambda p_: pos_.get(p_, (0, 0))) == call_order and len(pos_) == len(impure)
        for p, x in bound.items():
            if p not in stored and _pure_arg(x):
                subst[p] = x
            elif ordered_ok and p in impure:
                subst[p] = x
            elif p not in stored and len(impure) == 1 and single_straight_use(p) and not any(isinstance(n, (ast.Yield, ast.YieldFrom, ast.Await, ast.NamedExpr)) for n in ast.walk(x)):
                subst[p] = x  # the only impure argument, evaluated once where the parameter was read once
            elif p in stored and isinstance(x, ast.Name) and assign_target == x.id:
                subst[p] = x  # x = helper(x): the helper's rebinding of its parameter is the caller's variable
            else:
                new = p if (p not in caller_names) else fresh(p)
                if new != p:
                    rename[p] = new
                caller_names.add(new)
                prelude.append(ast.copy_location(ast.Assign(targets=[ast.Name(id=new, ctx=ast.Store())], value=x, lineno=call.lineno), call))
        # a name bound only as `except ... as name` lives only inside its handler: sharing it with the caller is harmless
        def handler_only(fn: ast.AST) -> Set[str]:
            hn = {n.name for n in _scope_nodes(fn) if isinstance(n, ast.ExceptHandler) and n.name}
            other = {n.id for n in _scope_nodes(fn) if isinstance(n, ast.Name) and isinstance(n.ctx, (ast.Store, ast.Del))}
            other |= {x.arg for x in fn.args.posonlyargs + fn.args.args + fn.args.kwonlyargs}
            return hn - other
        harmless = handler_only(h) & handler_only(caller)
        arg_names = {n.id for x in bound.values() for n in ast.walk(x) if isinstance(n, ast.Name)}
        for loc in sorted(stored - allp):
            if loc in harmless:
                continue
            if assign_target is not None and loc == assign_target and loc not in arg_names:
                continue  # x = helper(...): the helper's local x may be the caller's x (it is overwritten by the result anyway)
            # the same pure alias in both (op = dis.opmap): one variable will do
            def sole_value(fn_: ast.AST, name: str) -> Optional[str]:
                vals = [a_.value for a_ in _scope_nodes(fn_) if isinstance(a_, ast.Assign) and len(a_.targets) == 1 and isinstance(a_.targets[0], ast.Name) and a_.targets[0].id == name]
                for a_ in _scope_nodes(fn_):
                    if isinstance(a_, ast.Assign) and len(a_.targets) == 1 and isinstance(a_.targets[0], ast.Tuple) and isinstance(a_.value, ast.Tuple) and len(a_.value.elts) == len(a_.targets[0].elts):
                        vals += [v_ for t_, v_ in zip(a_.targets[0].elts, a_.value.elts) if isinstance(t_, ast.Name) and t_.id == name]
                stores = [n_ for n_ in _scope_nodes(fn_) if isinstance(n_, ast.Name) and n_.id == name and isinstance(n_.ctx, (ast.Store, ast.Del))]
                if len(vals) == 1 and len(stores) == 1 and _pure_arg(vals[0]) and not isinstance(vals[0], ast.Name):
                    return ast.unparse(vals[0])
                return None
            sv = sole_value(h, loc)
            if sv is not None and sv == sole_value(caller, loc):
                continue
            if loc in caller_names:
                rename[loc] = fresh(loc)
                caller_names.add(rename[loc])
        # free names of a module-level helper must not be shadowed by caller locals
        caller_locals = _assigned_names(caller) | {x.arg for x in caller.args.posonlyargs + caller.args.args + caller.args.kwonlyargs}
        free = {n.id for n in ast.walk(h) if isinstance(n, ast.Name)} - stored - allp - ({selfname} if recv is not None else set())
        # (for a nested helper defined in the caller itself, "free" names are the caller's own: fine)
        return subst, rename, prelude, free & caller_locals

    def body_for(self, h: ast.AST, subst, rename) -> List[ast.stmt]:
        ok_nl = getattr(self, "_nonlocal_ok", (None, set()))
        for n in _scope_nodes(h):
            if isinstance(n, ast.Nonlocal) and ok_nl[0] is h and set(n.names) <= ok_nl[1]:
                continue
            if isinstance(n, (ast.Global, ast.Nonlocal)):
                raise NotInlinable("global / nonlocal")
        for n in ast.walk(h):
            if isinstance(n, (ast.FunctionDef, ast.AsyncFunctionDef, ast.Lambda)) and n is not h:
                inner_bound = {x.arg for x in n.args.posonlyargs + n.args.args + n.args.kwonlyargs}
                if inner_bound & (set(subst) | set(rename)):
                    raise NotInlinable("nested scope rebinds a renamed name")
        body = [copy.deepcopy(s) for s in _strip_doc(h.body) if not (isinstance(s, ast.Nonlocal) and ok_nl[0] is h)]
        tr = _Rename(subst, rename)
        return [ast.fix_missing_locations(tr.visit(s)) for s in body]

    # -- statement-level rewriting
    def inline_stmt(self, s: ast.stmt, caller: ast.AST, scope: List[str]) -> Optional[List[ast.stmt]]:
        call = None
        form = None
        tgt_name = None
        if isinstance(s, ast.Expr) and isinstance(s.value, ast.Call) and isinstance(s.value.func, ast.Attribute) and s.value.func.attr == "extend" \
                and isinstance(s.value.func.value, ast.Name) and len(s.value.args) == 1 and isinstance(s.value.args[0], ast.Call) and not s.value.keywords \
                and self.target(s.value.args[0], scope) is not None and _is_generator(self.target(s.value.args[0], scope)[1]):
            # L.extend(generator_helper(args)): its yields become L.append(...), its `yield from X` L.extend(X)
            call, form = s.value.args[0], "extend"
            extend_to = s.value.func.value.id
        elif isinstance(s, ast.Expr) and isinstance(s.value, ast.Call) and isinstance(s.value.func, ast.Attribute) and s.value.func.attr == "extend" \
                and isinstance(s.value.func.value, ast.Name) and len(s.value.args) == 1 and isinstance(s.value.args[0], ast.Call) and not s.value.keywords \
                and self.target(s.value.args[0], scope) is not None and not _is_generator(self.target(s.value.args[0], scope)[1]):
            # L.extend(list_helper(args)): `return [a, b]` becomes L.append(a); L.append(b), `return X` L.extend(X)
            call, form = s.value.args[0], "extendlist"
            extend_to = s.value.func.value.id
        elif isinstance(s, ast.For) and not s.orelse and isinstance(s.iter, ast.Call) and self.target(s.iter, scope) is not None and _is_generator(self.target(s.iter, scope)[1]):
            # for x in generator_helper(args): BODY   ->   the helper's body with its one `yield E` replaced by `x = E; BODY`
            call, form = s.iter, "genfor"
        elif isinstance(s, ast.Expr) and isinstance(s.value, ast.Call):
            call, form = s.value, "stmt"
        elif isinstance(s, ast.Expr) and isinstance(s.value, ast.YieldFrom) and isinstance(s.value.value, ast.Call):
            call, form = s.value.value, "yieldfrom"
        elif isinstance(s, ast.Assign) and isinstance(s.value, ast.Call) and len(s.targets) == 1:
            call, form = s.value, "assign"
            if isinstance(s.targets[0], ast.Name):
                tgt_name = s.targets[0].id
        elif isinstance(s, ast.AnnAssign) and isinstance(s.value, ast.Call):
            call, form = s.value, "assign"
            if isinstance(s.target, ast.Name):
                tgt_name = s.target.id
        elif isinstance(s, ast.Return) and isinstance(s.value, ast.Call):
            call, form = s.value, "return"
        if call is None:
            return None
        t = self.target(call, scope)
        if t is None:
            return None
        q, h, recv = t
        if h is caller:
            return None
        try:
            if any(self.target(c, q.split(".")[:-1]) and self.target(c, q.split(".")[:-1])[1] is h for c in ast.walk(h) if isinstance(c, ast.Call)):
                raise NotInlinable("recursive helper")
            gen = _is_generator(h)
            if gen != (form in ("yieldfrom", "extend", "genfor")):
                raise NotInlinable("generator helper not used through yield from" if gen else "yield from a non-generator")
            nested_in_caller = any(n is h for n in ast.walk(caller))
            subst, rename, prelude, shadowed = self.bind(h, call, recv, caller, tgt_name)
            if shadowed and not nested_in_caller:
                raise NotInlinable(f"caller locals {sorted(shadowed)} shadow names the helper reads from its module")
            body = self.body_for(h, subst, rename)
            if form == "return":
                new = prelude + body
                if not body or not isinstance(body[-1], ast.Return):
                    new.append(ast.copy_location(ast.Return(value=None), s))
            elif form == "extend":
                if extend_to in _assigned_names(h) or any(isinstance(n, ast.Name) and n.id == extend_to for n in ast.walk(h)):
                    raise NotInlinable("the helper uses the name of the list it is extended into")

                def on_ret(v, at):
                    return []
                b2, _ = _tailify(body, on_ret)

                class Y(ast.NodeTransformer):
                    def visit_Expr(self, n: ast.Expr):
                        if isinstance(n.value, ast.Yield):
                            val = n.value.value if n.value.value is not None else ast.Constant(value=None)
                            return ast.copy_location(ast.Expr(value=ast.Call(func=ast.Attribute(value=ast.Name(id=extend_to, ctx=ast.Load()), attr="append", ctx=ast.Load()), args=[val], keywords=[])), n)
                        if isinstance(n.value, ast.YieldFrom):
                            return ast.copy_location(ast.Expr(value=ast.Call(func=ast.Attribute(value=ast.Name(id=extend_to, ctx=ast.Load()), attr="extend", ctx=ast.Load()), args=[n.value.value], keywords=[])), n)
                        return n

                    def visit_FunctionDef(self, n):
                        return n

                    visit_AsyncFunctionDef = visit_Lambda = visit_FunctionDef

                b2 = [Y().visit(x) for x in b2]
                if any(isinstance(n, (ast.Yield, ast.YieldFrom)) for x in b2 for n in _walk_no_defs(x)):
                    raise NotInlinable("a yield of the helper is used as an expression")
                new = prelude + b2
            elif form == "genfor":
                ys = [n for x in body for n in _walk_no_defs(x) if isinstance(n, (ast.Yield, ast.YieldFrom))]
                yst = [n for x in body for n in _walk_no_defs(x) if isinstance(n, ast.Expr) and isinstance(n.value, ast.Yield)]
                if len(ys) != 1 or len(yst) != 1 or yst[0].value is not ys[0]:
                    raise NotInlinable("generator helper iterated by a for loop does not have exactly one `yield <value>` statement")
                if any(isinstance(n, (ast.Return, ast.Try, ast.With, ast.AsyncWith)) for x in body for n in _walk_no_defs(x)):
                    raise NotInlinable("generator helper iterated by a for loop has return / try / with (closing it early would matter)")

                def own_level_jumps(stmts) -> bool:
                    for st_ in stmts:
                        if isinstance(st_, (ast.Break, ast.Continue)):
                            return True
                        if isinstance(st_, (ast.For, ast.While, ast.AsyncFor)):
                            if own_level_jumps(st_.orelse):
                                return True
                            continue
                        for fld_ in ("body", "orelse", "finalbody"):
                            if own_level_jumps(getattr(st_, fld_, []) or []):
                                return True
                        if isinstance(st_, ast.Try) and any(own_level_jumps(h_.body) for h_ in st_.handlers):
                            return True
                    return False
                if own_level_jumps(s.body):
                    # break / continue of the consumer: the same only when the helper is one loop whose body ends with the yield
                    if not (len(body) == 1 and isinstance(body[0], (ast.For, ast.While)) and not body[0].orelse and body[0].body and body[0].body[-1] is yst[0]):
                        raise NotInlinable("the consuming loop uses break / continue and the generator helper is not a single loop ending in its yield")
                tnames = {n.id for n in ast.walk(s.target) if isinstance(n, ast.Name)}
                if tnames & {n.id for x in body for n in ast.walk(x) if isinstance(n, ast.Name)}:
                    raise NotInlinable("the loop target's name is used inside the generator helper")

                # `yield y` of a helper local into `for t in ...` whose t lives only inside the loop: y simply is t
                yv = yst[0].value.value
                fuse = None
                if isinstance(yv, ast.Name) and isinstance(s.target, ast.Name) and yv.id in set(rename.values()):
                    inside = {id(n) for n in ast.walk(s)}
                    if all(id(n) in inside for n in ast.walk(caller) if isinstance(n, ast.Name) and n.id == s.target.id):
                        fuse = (yv.id, s.target.id)
                if fuse is not None:
                    for x in body:
                        for n in ast.walk(x):
                            if isinstance(n, ast.Name) and n.id == fuse[0]:
                                n.id = fuse[1]

                class G(ast.NodeTransformer):
                    def visit_Expr(self, n: ast.Expr):
                        if n is yst[0]:
                            if fuse is not None:
                                return list(s.body)
                            val = n.value.value if n.value.value is not None else ast.Constant(value=None)
                            tgt_ = copy.deepcopy(s.target)
                            return [ast.copy_location(ast.Assign(targets=[tgt_], value=val, lineno=n.lineno), n)] + list(s.body)
                        return n

                    def visit_FunctionDef(self, n):
                        return n

                    visit_AsyncFunctionDef = visit_Lambda = visit_FunctionDef
                new = prelude + [G().visit(x) for x in body]
                new = [y for x in new for y in (x if isinstance(x, list) else [x])]
            elif form == "extendlist":
                if extend_to in _assigned_names(h) or any(isinstance(n, ast.Name) and n.id == extend_to for n in ast.walk(h)):
                    raise NotInlinable("the helper uses the name of the list it is extended into")

                def mk(attr, val, at):
                    return ast.copy_location(ast.Expr(value=ast.Call(func=ast.Attribute(value=ast.Name(id=extend_to, ctx=ast.Load()), attr=attr, ctx=ast.Load()), args=[val], keywords=[])), at)

                def on_ret(v, at):
                    if v is None:
                        raise NotInlinable("a list helper returns None on some path")
                    if isinstance(v, (ast.List, ast.Tuple)) and not any(isinstance(x, ast.Starred) for x in v.elts):
                        return [mk("append", x, at) for x in v.elts]
                    return [mk("extend", v, at)]
                b2, falls = _tailify(body, on_ret)
                if falls:
                    raise NotInlinable("a list helper can end without a return")
                new = prelude + b2
            elif form == "yieldfrom":
                def on_ret(v, at):
                    return [] if v is None or isinstance(v, (ast.Constant, ast.Name)) else [ast.copy_location(ast.Expr(value=v), at)]
                b2, _ = _tailify(body, on_ret)
                new = prelude + b2
            else:
                if form == "assign":
                    targets = s.targets if isinstance(s, ast.Assign) else [s.target]

                    def on_ret(v, at):
                        val = v if v is not None else ast.Constant(value=None)
                        if len(targets) == 1 and isinstance(targets[0], ast.Name) and isinstance(val, ast.Name) and val.id == targets[0].id:
                            return []
                        sp = _split_parallel(targets, val, at)
                        if sp is not None:
                            return sp
                        return [ast.copy_location(ast.Assign(targets=[copy.deepcopy(x) for x in targets], value=val, lineno=at.lineno), at)]
                else:
                    def on_ret(v, at):
                        return [] if v is None or isinstance(v, (ast.Constant, ast.Name)) else [ast.copy_location(ast.Expr(value=v), at)]
                lt = _loop_tail(body, on_ret)
                if lt is not None:
                    b2, falls = lt, True
                else:
                    b2, falls = _tailify(body, on_ret)
                if form == "assign" and falls and lt is None:
                    # the helper can end without a return: the value is None on that path
                    b2 = b2 + on_ret(None, s) if not _always_assigned(b2) else b2
                if form == "assign" and lt is not None:
                    # loop may end without return: pre-assign None only when the loop can end normally
                    loop = b2[-1]
                    if not (isinstance(loop, ast.While) and isinstance(loop.test, ast.Constant) and loop.test.value is True) and not getattr(loop, "_svx_total", False):
                        raise NotInlinable("valued helper whose final loop may end without return")
                new = prelude + b2
            d0 = [ast.dump(a_) for a_ in new]
            k2 = _known_not_none(new, caller, self.tree)
            if [ast.dump(a_) for a_ in k2] != d0:
                new = _fold_block(k2)
            if any(isinstance(v_, ast.Constant) and (isinstance(v_.value, bool) or v_.value is None) for v_ in subst.values()):
                new = _fold_block(new)
            if not new:
                new = [ast.copy_location(ast.Pass(), s)]
            for n in new:
                ast.fix_missing_locations(n)
            self.log.append(f"{self.modname}: inlined new helper {q} into {'.'.join(scope)} ({form})")
            return new
        except NotInlinable as ex:
            self.log.append(f"{self.modname}: new helper {q} called from {'.'.join(scope)} left as a call: {ex}")
            return None

    def hoist(self, s: ast.stmt, caller: ast.AST, scope: List[str]) -> Optional[List[ast.stmt]]:
        """`for x in f(helper(a))` / `if g(helper(a))` / `y = f(helper(a))` / `return f(helper(a))`: when the helper call is the
        first thing the statement evaluates, give it a temporary first (the assignment form is then inlined)"""
        if isinstance(s, ast.For):
            fld = "iter"
        elif isinstance(s, ast.If):
            fld = "test"
        elif isinstance(s, (ast.Assign, ast.Return, ast.Expr, ast.AnnAssign)):
            fld = "value"
        else:
            return None
        root = getattr(s, fld, None)
        if root is None:
            return None
        if isinstance(s, ast.Assign) and not all(isinstance(t, ast.Name) for t in s.targets):
            return None  # target sub-expressions are evaluated after the value, but keep it simple
        # walk down the "evaluated first" spine
        path: List[Tuple[ast.AST, str, Optional[int]]] = []
        node = root
        found = None
        while True:
            if isinstance(node, ast.Call):
                t = self.target(node, scope)
                if t is not None and (node is not root or isinstance(s, ast.For)) and not _is_generator(t[1]) and _expr_of(t[1]) is None:
                    found = node
                    break
                if not _pure_arg(node.func):
                    if isinstance(node.func, ast.Attribute):
                        path.append((node, "func", None))
                        path.append((node.func, "value", None))
                        node = node.func.value
                        continue
                    return None
                if not node.args:
                    return None
                k = 0
                while k < len(node.args) and _pure_arg(node.args[k]):
                    k += 1
                if k >= len(node.args) or isinstance(node.args[k], ast.Starred):
                    return None
                path.append((node, "args", k))
                node = node.args[k]
                continue
            if isinstance(node, ast.Attribute):
                path.append((node, "value", None))
                node = node.value
                continue
            if isinstance(node, (ast.List, ast.Tuple)) and node.elts:
                k = 0
                while k < len(node.elts) and _pure_arg(node.elts[k]):
                    k += 1
                if k >= len(node.elts) or isinstance(node.elts[k], ast.Starred):
                    return None
                path.append((node, "elts", k))
                node = node.elts[k]
                continue
            if isinstance(node, ast.BinOp):
                path.append((node, "left", None))
                node = node.left
                continue
            if isinstance(node, ast.Subscript):
                path.append((node, "value", None))
                node = node.value
                continue
            return None
        if found is None or (not path and not (isinstance(s, ast.For) and found is root)):
            return None
        names = _all_names(caller)
        k = 1
        while f"_inl_res{k}" in names:
            k += 1
        tmp = f"_inl_res{k}"
        parent, f2, idx = path[-1] if path else (s, "iter", None)     # `for x in helper(a):` -- the iterable is evaluated once, first
        repl = ast.copy_location(ast.Name(id=tmp, ctx=ast.Load()), found)
        if idx is None:
            setattr(parent, f2, repl)
        else:
            getattr(parent, f2)[idx] = repl
        pre = ast.copy_location(ast.Assign(targets=[ast.Name(id=tmp, ctx=ast.Store())], value=found, lineno=s.lineno), s)
        ast.fix_missing_locations(pre)
        self.log.append(f"{self.modname}: call of new helper {self.target(found, scope)[0]} hoisted out of an expression in {'.'.join(scope)}")
        return [pre, s]

    def dewalrus(self, body: List[ast.stmt]) -> List[ast.stmt]:
        """`if (x := E) <op> ...:` -> `x = E; if x <op> ...:`   and   `if A and (x := E) <op> ...: B` (no else) -> `if A: x = E; if x ...: B`"""
        out: List[ast.stmt] = []
        for s in body:
            for fld in ("body", "orelse", "finalbody"):
                sub = getattr(s, fld, None)
                if isinstance(sub, list) and sub and isinstance(sub[0], ast.stmt) and not isinstance(s, (ast.FunctionDef, ast.AsyncFunctionDef, ast.ClassDef)):
                    setattr(s, fld, self.dewalrus(sub))
            if isinstance(s, ast.Try):
                for h in s.handlers:
                    h.body = self.dewalrus(h.body)
            if isinstance(s, ast.If):
                t = s.test
                ops = list(t.values) if isinstance(t, ast.BoolOp) and isinstance(t.op, ast.And) else [t]
                k = next((i for i, o in enumerate(ops) if any(isinstance(x, ast.NamedExpr) for x in ast.walk(o))), None)
                if k is not None and (k == 0 or not s.orelse):
                    o = ops[k]
                    wal = [x for x in ast.walk(o) if isinstance(x, ast.NamedExpr)]
                    # only the simple case: one walrus, evaluated first within its operand
                    if len(wal) == 1 and isinstance(wal[0].target, ast.Name) and not any(isinstance(x, (ast.BoolOp, ast.IfExp, ast.Lambda)) for x in ast.walk(o)):
                        w = wal[0]
                        assign = ast.copy_location(ast.Assign(targets=[ast.Name(id=w.target.id, ctx=ast.Store())], value=w.value, lineno=s.lineno), s)

                        class R(ast.NodeTransformer):
                            def visit_NamedExpr(self, n):
                                return ast.copy_location(ast.Name(id=n.target.id, ctx=ast.Load()), n)
                        o2 = R().visit(copy.deepcopy(o))
                        rest_ops = [o2] + ops[k + 1:]
                        inner_test = rest_ops[0] if len(rest_ops) == 1 else ast.BoolOp(op=ast.And(), values=rest_ops)
                        inner = ast.copy_location(ast.If(test=inner_test, body=s.body, orelse=s.orelse if k == 0 else []), s)
                        if k == 0:
                            new = [assign, inner]
                        else:
                            pre = ops[:k]
                            outer_test = pre[0] if len(pre) == 1 else ast.BoolOp(op=ast.And(), values=pre)
                            new = [ast.copy_location(ast.If(test=outer_test, body=[assign, inner], orelse=[]), s)]
                        for n_ in new:
                            ast.fix_missing_locations(n_)
                        self.log.append(f"{self.modname}: assignment expression `{w.target.id} := ...` in an if-test written as a statement")
                        out.extend(new)
                        continue
            out.append(s)
        return out

    def rewrite_block(self, body: List[ast.stmt], caller: ast.AST, scope: List[str]) -> List[ast.stmt]:
        out: List[ast.stmt] = []
        body = list(body)
        i = 0
        while i < len(body):
            h = self.hoist(body[i], caller, scope) if not isinstance(body[i], (ast.FunctionDef, ast.AsyncFunctionDef, ast.ClassDef)) else None
            if h is not None:
                body[i:i + 1] = h
            i += 1
        for s in body:
            if isinstance(s, (ast.FunctionDef, ast.AsyncFunctionDef, ast.ClassDef)):
                out.append(s)  # handled by the outer driver with its own scope
                continue
            rep = self.inline_stmt(s, caller, scope)
            if rep is not None:
                # the spliced statements may themselves call new helpers
                rep = self.rewrite_block(rep, caller, scope) if self._depth < 4 else rep
                out.extend(rep)
                continue
            for fld in ("body", "orelse", "finalbody"):
                sub = getattr(s, fld, None)
                if isinstance(sub, list) and sub and isinstance(sub[0], ast.stmt):
                    setattr(s, fld, self.rewrite_block(sub, caller, scope))
            if isinstance(s, ast.Try):
                for hd in s.handlers:
                    hd.body = self.rewrite_block(hd.body, caller, scope)
            if hasattr(ast, "Match") and isinstance(s, getattr(ast, "Match")):
                for c in s.cases:
                    c.body = self.rewrite_block(c.body, caller, scope)
            self.inline_exprs(s, caller, scope)
            out.append(s)
        return out

    _depth = 0

    # -- expression-level rewriting (expression helpers only)
    def inline_exprs(self, s: ast.stmt, caller: ast.AST, scope: List[str]) -> None:
        me = self

        class T(ast.NodeTransformer):
            def visit_Call(self, c: ast.Call):
                self.generic_visit(c)
                t = me.target(c, scope)
                if t is None:
                    return c
                q, h, recv = t
                if h is caller or _is_generator(h):
                    return c
                e = _expr_of(h)
                if e is None:
                    return c
                try:
                    if any(isinstance(n, ast.Call) and me.target(n, q.split(".")[:-1]) and me.target(n, q.split(".")[:-1])[1] is h for n in ast.walk(h)):
                        raise NotInlinable("recursive helper")
                    subst, rename, prelude, shadowed = me.bind(h, c, recv, caller, None)
                    if prelude:
                        # an impure argument used in an expression helper: only fine if the parameter is used exactly once
                        raise NotInlinable("argument needs a temporary")
                    nested_in_caller = any(n is h for n in ast.walk(caller))
                    if shadowed and not nested_in_caller:
                        raise NotInlinable("shadowed free names")
                    e2 = _Rename(subst, rename).visit(copy.deepcopy(e))
                    me.log.append(f"{me.modname}: inlined new expression helper {q} into {'.'.join(scope)}")
                    return ast.copy_location(e2, c)
                except NotInlinable as ex:
                    me.log.append(f"{me.modname}: new helper {q} called from {'.'.join(scope)} left as a call: {ex}")
                    return c

            def visit_FunctionDef(self, n):
                return n

            visit_AsyncFunctionDef = visit_Lambda = visit_ClassDef = visit_FunctionDef

        # only the statement's own expressions (not nested statement lists, which rewrite_block handles)
        for fld, val in list(ast.iter_fields(s)):
            if isinstance(val, ast.expr):
                setattr(s, fld, T().visit(val))
            elif isinstance(val, list) and val and isinstance(val[0], ast.expr):
                setattr(s, fld, [T().visit(v) for v in val])
            elif isinstance(val, list) and val and isinstance(val[0], ast.withitem):
                for w in val:
                    w.context_expr = T().visit(w.context_expr)

    def run(self) -> ast.Module:
        self.new_helpers()
        self.flatten_record_params()
        for fn_ in [n for n in ast.walk(self.tree) if isinstance(n, (ast.FunctionDef, ast.AsyncFunctionDef))]:
            if any(isinstance(x, ast.NamedExpr) for x in ast.walk(fn_)):
                fn_.body = self.dewalrus(fn_.body)
        if not self.helpers:
            self.scalar_replace()
            ast.fix_missing_locations(self.tree)
            return self.tree

        new_classes = {c.name for c in ast.walk(self.tree) if isinstance(c, ast.ClassDef) and self.reference is not None and c.name not in self.reference}

        def local_records(fn: ast.AST) -> Dict[str, str]:
            out: Dict[str, str] = {}
            for a in _scope_nodes(fn):
                if isinstance(a, ast.Assign) and len(a.targets) == 1 and isinstance(a.targets[0], ast.Name) and isinstance(a.value, ast.Call) \
                        and isinstance(a.value.func, ast.Name) and a.value.func.id in new_classes:
                    stores = [n for n in ast.walk(fn) if isinstance(n, ast.Name) and n.id == a.targets[0].id and isinstance(n.ctx, (ast.Store, ast.Del))]
                    if len(stores) == 1:
                        out[a.targets[0].id] = a.value.func.id
            return out

        def drive(node: ast.AST, scope: List[str], inherited: Optional[Dict[str, str]] = None) -> None:
            for ch in ast.iter_child_nodes(node):
                if isinstance(ch, (ast.FunctionDef, ast.AsyncFunctionDef)):
                    sc = scope + [ch.name]
                    recs = dict(inherited or {})
                    recs.update(local_records(ch))
                    for p_ in ch.args.posonlyargs + ch.args.args + ch.args.kwonlyargs:
                        recs.pop(p_.arg, None)
                    self._cur_records = recs
                    for _ in range(3):
                        before = len([l for l in self.log if "inlined" in l])
                        ch.body = self.rewrite_block(ch.body, ch, sc)
                        if len([l for l in self.log if "inlined" in l]) == before:
                            break
                    drive(ch, sc, recs)
                    self._cur_records = dict(inherited or {})
                elif isinstance(ch, ast.ClassDef):
                    drive(ch, scope + [ch.name], None)
                else:
                    drive(ch, scope, inherited)

        drive(self.tree, [])
        self.fuse_accumulators()
        self.scalar_replace()
        ast.fix_missing_locations(self.tree)
        return self.tree

    # -- a helper's private result list that is at once extended into the caller's list: one list will do
    def fuse_accumulators(self) -> None:
        for fn in [n for n in ast.walk(self.tree) if isinstance(n, (ast.FunctionDef, ast.AsyncFunctionDef))]:
            self._fuse_in_block(fn.body, fn)

    def _fuse_in_block(self, body: List[ast.stmt], fn: ast.AST) -> None:
        for st in body:
            for fld in ("body", "orelse", "finalbody"):
                sub = getattr(st, fld, None)
                if isinstance(sub, list) and sub and isinstance(sub[0], ast.stmt) and not isinstance(st, (ast.FunctionDef, ast.AsyncFunctionDef, ast.ClassDef)):
                    self._fuse_in_block(sub, fn)
            if isinstance(st, ast.Try):
                for h in st.handlers:
                    self._fuse_in_block(h.body, fn)
        changed = True
        while changed:
            changed = False
            for i, a in enumerate(body):
                tg = a.targets[0] if isinstance(a, ast.Assign) and len(a.targets) == 1 else (a.target if isinstance(a, ast.AnnAssign) else None)
                if not (isinstance(tg, ast.Name) and isinstance(getattr(a, "value", None), ast.List) and not a.value.elts):
                    continue
                T = tg.id
                via_res = any(isinstance(z, ast.Assign) and len(z.targets) == 1 and isinstance(z.targets[0], ast.Name) and z.targets[0].id.startswith("_inl_res") and isinstance(z.value, ast.Name) and z.value.id == T for z in body[i + 1:])
                if not (T.startswith("_inl") or (via_res and sum(1 for n in ast.walk(fn) if isinstance(n, ast.Name) and n.id == T and isinstance(n.ctx, ast.Store)) == 1)):
                    continue
                # find the closing `X.extend(T)` (possibly through `R = T`)
                for j in range(i + 1, len(body)):
                    z = body[j]
                    R = None
                    if isinstance(z, ast.Assign) and len(z.targets) == 1 and isinstance(z.targets[0], ast.Name) and z.targets[0].id.startswith("_inl_res") \
                            and isinstance(z.value, ast.Name) and z.value.id == T and j + 1 < len(body):
                        R = z.targets[0].id
                        z2 = body[j + 1]
                    else:
                        z2 = z
                    if isinstance(z2, ast.Expr) and isinstance(z2.value, ast.Call) and isinstance(z2.value.func, ast.Attribute) and z2.value.func.attr == "extend" \
                            and isinstance(z2.value.func.value, ast.Name) and len(z2.value.args) == 1 and isinstance(z2.value.args[0], ast.Name) and z2.value.args[0].id == (R or T):
                        X = z2.value.func.value.id
                        between = body[i + 1:j]
                        uses_ok = True
                        for b in between:
                            for n in ast.walk(b):
                                if isinstance(n, ast.Name) and n.id == X:
                                    uses_ok = False
                                if isinstance(n, ast.Name) and n.id == T:
                                    par_ok = False
                                    for c in ast.walk(b):
                                        if isinstance(c, ast.Call) and isinstance(c.func, ast.Attribute) and c.func.value is n and c.func.attr in ("append", "extend"):
                                            par_ok = True
                                    if not par_ok:
                                        uses_ok = False
                        later = body[(j + 2 if R else j + 1):]
                        if any(isinstance(n, ast.Name) and n.id in (T, R) for b in later for n in ast.walk(b)):
                            uses_ok = False
                        if uses_ok:
                            for b in between:
                                for n in ast.walk(b):
                                    if isinstance(n, ast.Name) and n.id == T:
                                        n.id = X
                            del body[j:(j + 2 if R else j + 1)]
                            del body[i]
                            self.log.append(f"{self.modname}: the inlined helper's result list {T} is the caller's `{X}` (it was extended into it at once)")
                            changed = True
                        break
                if changed:
                    break

    # -- parameter objects passed between functions: def f(self, opts: NewRecord) -> def f(self, a, b)
    def flatten_record_params(self) -> None:
        """a record class that the reference tree does not have, used as the type of a parameter: the parameter is replaced by
        the record's fields (reads `p.f` become `f`), and every call in the module that passes such a record -- a fresh
        `Rec(x, y)`, a local bound to one, or the caller's own record parameter -- passes the fields instead.  All or nothing
        per record class: if one use is not of these forms the tree is left as written."""
        if self.reference is None:
            return
        recs: Dict[str, List[str]] = {}
        for ch in ast.walk(self.tree):
            if isinstance(ch, ast.ClassDef) and ch.name not in self.reference:
                body = _strip_doc(ch.body)
                if body and all(isinstance(b, ast.AnnAssign) and isinstance(b.target, ast.Name) for b in body):
                    recs[ch.name] = [b.target.id for b in body]
        for rname, fields in recs.items():
            trial = copy.deepcopy(self.tree)
            try:
                n = self._flatten_one(trial, rname, fields)
            except NotInlinable as ex:
                self.log.append(f"{self.modname}: parameters of the new record type {rname} left as written: {ex}")
                continue
            if n:
                self.tree.body[:] = trial.body
                self.log.append(f"{self.modname}: {n} parameter(s) of the new record type {rname} replaced by its fields {fields}")

    def _flatten_one(self, tree: ast.Module, rname: str, fields: List[str]) -> int:
        def is_rec_ann(a: Optional[ast.AST]) -> bool:
            if a is None:
                return False
            t = ast.unparse(a).strip("'\"")
            return t == rname
        fns = [f for f in ast.walk(tree) if isinstance(f, (ast.FunctionDef, ast.AsyncFunctionDef))]
        flat: Dict[str, Tuple[int, str, bool]] = {}  # function name -> (index among positional params excluding self, param name, is method)
        for f in fns:
            allp = f.args.posonlyargs + f.args.args
            hits = [i for i, a in enumerate(allp) if is_rec_ann(a.annotation)]
            kwhits = [a for a in f.args.kwonlyargs if is_rec_ann(a.annotation)]
            if kwhits or len(hits) > 1:
                raise NotInlinable("keyword-only or several record parameters")
            if not hits:
                continue
            is_method = bool(allp) and allp[0].arg in ("self", "cls")
            idx = hits[0] - (1 if is_method else 0)
            if f.name in flat and flat[f.name][:2] != (idx, allp[hits[0]].arg):
                raise NotInlinable(f"functions called {f.name} take the record at different positions")
            flat[f.name] = (idx, allp[hits[0]].arg, is_method)
            if any(x.arg in fields for x in allp + f.args.kwonlyargs if x is not allp[hits[0]]):
                raise NotInlinable("a field name is already a parameter name")
            if len(f.args.defaults) > len(allp) - hits[0] - 1 and len(f.args.defaults) >= len(allp) - hits[0]:
                raise NotInlinable("the record parameter has a default")
        if not flat:
            return 0
        # locals bound once to Rec(...)
        def local_records(f: ast.AST) -> Dict[str, ast.Call]:
            out: Dict[str, ast.Call] = {}
            for a in _scope_nodes(f):
                if isinstance(a, ast.Assign) and len(a.targets) == 1 and isinstance(a.targets[0], ast.Name) and isinstance(a.value, ast.Call) and isinstance(a.value.func, ast.Name) and a.value.func.id == rname:
                    stores = [n for n in ast.walk(f) if isinstance(n, ast.Name) and n.id == a.targets[0].id and isinstance(n.ctx, (ast.Store, ast.Del))]
                    if len(stores) == 1:
                        out[a.targets[0].id] = a.value
            return out

        def ctor_args(c: ast.Call) -> List[ast.AST]:
            if any(isinstance(x, ast.Starred) for x in c.args) or any(k.arg is None for k in c.keywords):
                raise NotInlinable("star arguments in a record construction")
            b: Dict[str, ast.AST] = {}
            for nm, x in zip(fields, c.args):
                b[nm] = x
            for k in c.keywords:
                b[k.arg] = k.value
            if set(b) != set(fields):
                raise NotInlinable("record constructed with defaults")
            return [b[nm] for nm in fields]

        count = 0
        for f in fns:
            allp = f.args.posonlyargs + f.args.args
            own = next((a.arg for a in allp if is_rec_ann(a.annotation)), None)
            locs = local_records(f)

            def expand(e: ast.AST) -> Optional[List[ast.AST]]:
                if isinstance(e, ast.Call) and isinstance(e.func, ast.Name) and e.func.id == rname:
                    return ctor_args(e)
                if isinstance(e, ast.Name) and e.id == own:
                    return [ast.Name(id=nm, ctx=ast.Load()) for nm in fields]
                if isinstance(e, ast.Name) and e.id in locs:
                    return [copy.deepcopy(x) for x in ctor_args(locs[e.id])] if all(_pure_arg(x) for x in ctor_args(locs[e.id])) else None
                return None

            for c in [n for n in _scope_nodes(f) if isinstance(n, ast.Call)]:
                nm = c.func.id if isinstance(c.func, ast.Name) else (c.func.attr if isinstance(c.func, ast.Attribute) else None)
                if nm not in flat:
                    continue
                idx, pname, is_method = flat[nm]
                pos = idx if (isinstance(c.func, ast.Attribute) or not is_method) else idx + 1
                done = False
                if pos < len(c.args):
                    ex = expand(c.args[pos])
                    if ex is None:
                        raise NotInlinable(f"call `{ast.unparse(c)[:50]}` passes the record in a form that cannot be expanded")
                    c.args[pos:pos + 1] = ex
                    done = True
                else:
                    for k in list(c.keywords):
                        if k.arg == pname:
                            ex = expand(k.value)
                            if ex is None:
                                raise NotInlinable(f"call `{ast.unparse(c)[:50]}` passes the record in a form that cannot be expanded")
                            i = c.keywords.index(k)
                            c.keywords[i:i + 1] = [ast.keyword(arg=fn_, value=v_) for fn_, v_ in zip(fields, ex)]
                            done = True
                if not done:
                    raise NotInlinable(f"call `{ast.unparse(c)[:50]}` does not pass the record parameter")
            if own is not None:
                # reads p.f -> f ; any other use of p must be gone by now
                class R(ast.NodeTransformer):
                    def visit_Attribute(self, n: ast.Attribute):
                        self.generic_visit(n)
                        if isinstance(n.value, ast.Name) and n.value.id == own and n.attr in fields and isinstance(n.ctx, ast.Load):
                            return ast.copy_location(ast.Name(id=n.attr, ctx=ast.Load()), n)
                        return n
                for i_, st in enumerate(f.body):
                    f.body[i_] = R().visit(st)
                if any(isinstance(n, ast.Name) and n.id == own for st in f.body for n in ast.walk(st)):
                    raise NotInlinable(f"{f.name} uses its record parameter other than through its fields")
                for lst in (f.args.posonlyargs, f.args.args):
                    for i_, a in enumerate(lst):
                        if a.arg == own:
                            lst[i_:i_ + 1] = [ast.arg(arg=nm, annotation=None) for nm in fields]
                count += 1
        return count

    # -- parameter objects: v = NewRecord(a=x, b=y) ... v.a  ->  x
    def scalar_replace(self) -> None:
        """a local bound once to a constructor call of a record class that the reference tree does not have (NamedTuple /
        dataclass: fields only) with pure arguments: reads `v.field` in that function and its closures become the argument"""
        if self.reference is None:
            return
        records: Dict[str, List[Tuple[str, Optional[ast.AST]]]] = {}
        for ch in ast.walk(self.tree):
            if isinstance(ch, ast.ClassDef) and ch.name not in self.reference and "." not in ch.name:
                body = _strip_doc(ch.body)
                flds = [b for b in body if isinstance(b, ast.AnnAssign) and isinstance(b.target, ast.Name)]
                meths = [b for b in body if isinstance(b, ast.FunctionDef)]
                if flds and len(flds) + len(meths) == len(body) and not any(m.name.startswith("__") or m.decorator_list for m in meths):
                    records[ch.name] = [(b.target.id, b.value) for b in flds]
        if not records:
            return
        for fn in [n for n in ast.walk(self.tree) if isinstance(n, (ast.FunctionDef, ast.AsyncFunctionDef))]:
            for a in list(_scope_nodes(fn)):
                if not (isinstance(a, ast.Assign) and len(a.targets) == 1 and isinstance(a.targets[0], ast.Name) and isinstance(a.value, ast.Call)
                        and isinstance(a.value.func, ast.Name) and a.value.func.id in records):
                    continue
                v = a.targets[0].id
                c = a.value
                if any(isinstance(x, ast.Starred) for x in c.args) or any(k.arg is None for k in c.keywords):
                    continue
                flds = records[c.func.id]
                bound: Dict[str, ast.AST] = {}
                for (nm, dflt), x in zip(flds, c.args):
                    bound[nm] = x
                for k in c.keywords:
                    bound[k.arg] = k.value
                for nm, dflt in flds:
                    if nm not in bound and dflt is not None:
                        bound[nm] = dflt
                if set(bound) != {nm for nm, _ in flds} or not all(_pure_arg(x) for x in bound.values()):
                    continue
                # v bound exactly once in fn (nowhere in nested scopes), argument names never rebound in fn
                stores = [n for n in ast.walk(fn) if isinstance(n, ast.Name) and n.id == v and isinstance(n.ctx, (ast.Store, ast.Del))]
                inner_params = [x for f2 in ast.walk(fn) if isinstance(f2, (ast.FunctionDef, ast.AsyncFunctionDef, ast.Lambda)) and f2 is not fn
                                for x in f2.args.posonlyargs + f2.args.args + f2.args.kwonlyargs if x.arg == v]
                if len(stores) != 1 or inner_params:
                    continue
                argnames = {n.id for x in bound.values() for n in ast.walk(x) if isinstance(n, ast.Name)}
                rebound = [n for n in ast.walk(fn) if isinstance(n, ast.Name) and n.id in argnames and isinstance(n.ctx, (ast.Store, ast.Del))]
                if rebound:
                    continue
                count = [0]

                class R(ast.NodeTransformer):
                    def visit_Attribute(self, n: ast.Attribute):
                        self.generic_visit(n)
                        if isinstance(n.value, ast.Name) and n.value.id == v and isinstance(n.ctx, ast.Load) and n.attr in bound:
                            count[0] += 1
                            return ast.copy_location(copy.deepcopy(bound[n.attr]), n)
                        return n

                R().visit(fn)
                if count[0]:
                    self.log.append(f"{self.modname}: {count[0]} read(s) of fields of the new record `{v} = {c.func.id}(...)` in {fn.name} replaced by the constructor arguments")


def _always_assigned(stmts: List[ast.stmt]) -> bool:
    return False


def _split_parallel(targets: List[ast.AST], val: ast.AST, at: ast.AST) -> Optional[List[ast.stmt]]:
    """`a, b = (x, y)` produced by splicing `return x, y` into `a, b = helper(...)`: identity pairs dropped, the rest as
    single assignments in an order in which no right-hand side reads a name that was already overwritten"""
    if not (len(targets) == 1 and isinstance(targets[0], ast.Tuple) and isinstance(val, ast.Tuple) and len(val.elts) == len(targets[0].elts)
            and all(isinstance(t, ast.Name) for t in targets[0].elts)):
        return None
    pairs = [(t.id, v) for t, v in zip(targets[0].elts, val.elts) if not (isinstance(v, ast.Name) and v.id == t.id)]
    order: List[Tuple[str, ast.AST]] = []
    rest = list(pairs)
    while rest:
        pick = None
        for cand in rest:
            others = [o for o in rest if o is not cand]
            if not any(isinstance(n, ast.Name) and n.id == cand[0] for o in others for n in ast.walk(o[1])):
                pick = cand
                break
        if pick is None:
            return None
        order.append(pick)
        rest.remove(pick)
    return [ast.copy_location(ast.Assign(targets=[ast.Name(id=nm, ctx=ast.Store())], value=copy.deepcopy(v), lineno=at.lineno), at) for nm, v in order]


def normalize(tree: ast.Module, modname: str) -> Tuple[ast.Module, List[str]]:
    inv = load_inventory()
    ref = inv.get(modname)
    if ref is None:
        return tree, []
    backup = copy.deepcopy(tree)
    inl = Inliner(tree, modname, ref)
    try:
        out = inl.run()
        fold_new_options(out, modname, inl.log)
        propagate_new_aliases(out, modname, inl.log)
        cn = _Canon(inl.log, modname)
        out = cn.visit(out)
        ast.fix_missing_locations(out)
        if cn.n:
            inl.log.append(f"{modname}: {cn.n} expression(s) respelled (getattr(x, 'name') -> x.name; not (a is b) -> a is not b)")
        # the result must still be a valid program
        import warnings
        with warnings.catch_warnings():
            warnings.simplefilter("ignore")
            compile(ast.fix_missing_locations(copy.deepcopy(out)), f"<normalised {modname}>", "exec")
        return out, inl.log
    except Exception as ex:  # pragma: no cover - fail safe: analyse the tree as written
        return backup, inl.log + [f"{modname}: normalisation abandoned ({type(ex).__name__}: {ex}); analysing the tree as written"]
