"""Testing the checker both ways (DESIGN.md section 6).

Variants are single-site source edits of a scratch copy of the package: *mutants*
break one rule instance (the checker must report the named rule), *twins* are
behaviour-preserving rewrites (the checker must stay silent).  A variant whose
anchor text is not present in the tree under test (because that tree was edited)
is skipped and counted.  Scratch copies live under /dev/shm (or $TMPDIR) and
are removed as soon as the variant has been analysed.
"""
from __future__ import annotations

import concurrent.futures as cf
import os
import shutil
import tempfile
import time
from typing import Any, Dict, List, Optional

from .model import AnalysisError
from .report import load_known, match_known


def scratch_root() -> str:
    base = "/dev/shm" if os.path.isdir("/dev/shm") and os.access("/dev/shm", os.W_OK) else tempfile.gettempdir()
    return tempfile.mkdtemp(prefix="svx_st_", dir=base)


def _copy_pkg(repo: str, dst: str) -> None:
    os.makedirs(dst)
    shutil.copytree(os.path.join(repo, "stackscope"), os.path.join(dst, "stackscope"),
                    ignore=shutil.ignore_patterns("_tests", "__pycache__", "*.pyc"))
    sp = os.path.join(repo, "setup.py")
    if os.path.exists(sp):
        shutil.copy(sp, os.path.join(dst, "setup.py"))


def _run_variant(args) -> Dict[str, Any]:
    var, repo, root = args
    from .__main__ import analyse
    vid = var["id"]
    dst = os.path.join(root, vid.replace("/", "_") + "__" + var["prop"])
    res: Dict[str, Any] = {"id": vid, "kind": var.get("kind", "mutant"), "prop": var["prop"], "expect": var.get("expect")}
    try:
        if "patch" in var:
            return _run_patch_variant(var, repo, dst, res)
        path = os.path.join(repo, "stackscope", var["file"])
        src = open(path, encoding="utf-8").read()
        if src.count(var["old"]) != 1:
            res["status"] = "skipped"
            res["why"] = f"anchor text occurs {src.count(var['old'])} times"
            return res
        _copy_pkg(repo, dst)
        newsrc = src.replace(var["old"], var["new"])
        for o2, n2 in var.get("extra", []):
            if newsrc.count(o2) != 1:
                res["status"] = "skipped"
                res["why"] = "extra anchor text not unique"
                return res
            newsrc = newsrc.replace(o2, n2)
        with open(os.path.join(dst, "stackscope", var["file"]), "w", encoding="utf-8") as f:
            f.write(newsrc)
        try:
            compile(newsrc, var["file"], "exec")
        except SyntaxError as ex:
            res["status"] = "broken-variant"
            res["why"] = f"variant does not compile: {ex}"
            return res
        try:
            R, _ = analyse(var["prop"], "quick", dst)
            known = load_known()
            rules = sorted({f.rule for f in R.findings if not match_known(var["prop"], f, known)})
            res["fired"] = rules
            res["messages"] = [f.text()[:300] for f in R.findings if not match_known(var["prop"], f, known)][:4]
            res["analysis_error"] = "; ".join(R.errors)[:300] or None
        except AnalysisError as ex:
            res["fired"] = []
            res["analysis_error"] = str(ex)[:300]
        if res["kind"] == "twin":
            res["status"] = "ok" if (not res["fired"] and not res["analysis_error"]) else "twin-alarmed"
        else:
            exp = var["expect"]
            exps = exp if isinstance(exp, list) else [exp]
            hit = any(e in res["fired"] for e in exps)
            if not hit and res["analysis_error"] and var.get("accept_analysis_error"):
                hit = True
            res["status"] = "ok" if hit else "undetected"
        return res
    finally:
        shutil.rmtree(dst, ignore_errors=True)


def _run_patch_variant(var, repo, dst, res):
    """a variant given as a unified diff (independently written behaviour-preserving edits, seeded changes)"""
    import subprocess
    from .__main__ import analyse
    _copy_pkg(repo, dst)
    r = subprocess.run(["patch", "-p1", "-s", "-f", "-d", dst, "-i", var["patch"]], capture_output=True, text=True)
    if r.returncode != 0:
        res["status"] = "skipped"
        res["why"] = "patch does not apply to the tree under test"
        return res
    known = load_known()
    try:
        R, _ = analyse(var["prop"], "quick", dst)
        res["fired"] = sorted({f.rule for f in R.findings if not match_known(var["prop"], f, known)})
        res["analysis_error"] = "; ".join(R.errors)[:300] or None
    except AnalysisError as ex:
        res["fired"] = []
        res["analysis_error"] = str(ex)[:300]
    if res["kind"] == "twin":
        # an independently written behaviour-preserving edit: a VIOLATION would be a false alarm;
        # "cannot decide" (exit 2) is tolerated and recorded
        res["status"] = "twin-alarmed" if res["fired"] else "ok"
    else:
        exps = var["expect"] if isinstance(var["expect"], list) else [var["expect"]]
        res["status"] = "ok" if any(e in res["fired"] for e in exps) else "undetected"
    return res


def run_selftest(prop: Optional[str], repo: str, verbose: bool = False) -> Dict[str, Any]:
    from .variants import VARIANTS
    t0 = time.time()
    vs = [v for v in VARIANTS if prop is None or v["prop"] == prop]
    root = scratch_root()
    try:
        with cf.ProcessPoolExecutor(max_workers=min(16, os.cpu_count() or 4)) as ex:
            results = list(ex.map(_run_variant, [(v, repo, root) for v in vs]))
    finally:
        shutil.rmtree(root, ignore_errors=True)
    out = {
        "variants": len(vs),
        "mutants_detected": sum(1 for r in results if r["kind"] != "twin" and r["status"] == "ok"),
        "twins_silent": sum(1 for r in results if r["kind"] == "twin" and r["status"] == "ok"),
        "skipped": [r["id"] for r in results if r["status"] == "skipped"],
        "twins_undecided": [r["id"] for r in results if r["kind"] == "twin" and r["status"] == "ok" and r.get("analysis_error")],
        "undetected": [r["id"] for r in results if r["status"] in ("undetected", "broken-variant")],
        "twins_alarmed": [r["id"] for r in results if r["status"] == "twin-alarmed"],
        "wall_s": round(time.time() - t0, 2),
        "detail": [{k: r.get(k) for k in ("id", "kind", "status", "expect", "fired", "analysis_error", "why")} for r in results],
    }
    if verbose:
        out["messages"] = {r["id"]: r.get("messages") for r in results}
    return out


def print_selftest(st: Dict[str, Any]) -> None:
    for d in st["detail"]:
        flag = "" if d["status"] == "ok" else "   <<<<<<"
        print(f"{d['status']:14s} {d['kind']:6s} {d['id']:45s} expect={d['expect']} fired={d.get('fired')} {d.get('analysis_error') or ''} {d.get('why') or ''}{flag}")
    if "messages" in st:
        for k, v in st["messages"].items():
            for m in v or []:
                print("   ", k, "::", m)
    print(f"variants={st['variants']} detected={st['mutants_detected']} twins_silent={st['twins_silent']} "
          f"skipped={len(st['skipped'])} undetected={st['undetected']} twins_alarmed={st['twins_alarmed']} wall={st['wall_s']}s")
