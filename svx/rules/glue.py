"""GLUE-1..8 (C17): the lazy glue installer protocol."""
from __future__ import annotations

import ast
import itertools
from typing import Dict, List, Optional, Set, Tuple

from ..ctx import Ctx
from ..model import AnalysisError, Mod, norm, walk_scope, calls_in
from ..util import Atomizer, broad_handlers, contains, enclosing_tries, in_body
from .opcodes import guards_of

PENDING = "builtin_glue_pending"
MODULE_ATTR = "_stackscope_install_glue_"


def _lock_held_at(m: Mod, node: ast.AST, names=("glue_lock", "_glue.glue_lock")) -> bool:
    """inside `with glue_lock:` or inside the try of `glue_lock.acquire(); try: ... finally: glue_lock.release()`"""
    for a in m.ancestors(node):
        if isinstance(a, ast.With) and any(norm(i.context_expr) in names for i in a.items):
            return True
        if isinstance(a, ast.Try) and any(isinstance(f_, ast.Expr) and norm(f_.value) in tuple(f"{n_}.release()" for n_ in names) for f_ in a.finalbody) \
                and not any(any(x is node for x in ast.walk(f_)) for f_ in a.finalbody):
            par = m.parent_of(a)
            for fld in ("body", "orelse", "finalbody"):
                blk = getattr(par, fld, None)
                if isinstance(blk, list) and a in blk and blk.index(a) > 0 and isinstance(blk[blk.index(a) - 1], ast.Expr) and norm(blk[blk.index(a) - 1].value) in tuple(f"{n_}.acquire()" for n_ in names):
                    return True
    return False


def _glue_sources(fn: ast.AST) -> List[Tuple[str, str, ast.AST, bool]]:
    """(local name, kind 'builtin'|'module', assignment, removing?) for every value taken from the two registries"""
    out: List[Tuple[str, str, ast.AST, bool]] = []
    for st in walk_scope(fn):
        if isinstance(st, ast.Assign) and len(st.targets) == 1 and isinstance(st.targets[0], ast.Name):
            v = st.value
            name = st.targets[0].id
            if isinstance(v, ast.Call) and isinstance(v.func, ast.Attribute):
                recv = norm(v.func.value)
                if recv == PENDING and v.func.attr in ("pop", "get", "setdefault"):
                    out.append((name, "builtin", st, v.func.attr == "pop"))
                elif v.args and isinstance(v.args[0], ast.Constant) and v.args[0].value == MODULE_ATTR and v.func.attr in ("pop", "get"):
                    out.append((name, "module", st, v.func.attr == "pop"))
            if isinstance(v, ast.Call) and norm(v.func) == "getattr" and len(v.args) >= 2 and isinstance(v.args[1], ast.Constant) and v.args[1].value == MODULE_ATTR:
                out.append((name, "module", st, False))
            if isinstance(v, ast.Subscript) and norm(v.value) == PENDING:
                out.append((name, "builtin", st, False))
            if isinstance(v, ast.Attribute) and v.attr == MODULE_ATTR:
                out.append((name, "module", st, False))
            if isinstance(v, (ast.BoolOp, ast.IfExp)):
                # `x = a or REG.pop(k, None)` / `x = a if a else REG.pop(k, None)`: the registry read sits in a short-circuited
                # operand, so it happens on some paths only.  Such a source is marked "cond": it is a read of that registry
                # (x may hold its glue) but never counts as the removal that must precede a glue call.
                guarded = list(v.values[1:]) if isinstance(v, ast.BoolOp) else [v.body, v.orelse]
                for op in guarded:
                    for c in ast.walk(op):
                        if isinstance(c, ast.Call) and isinstance(c.func, ast.Attribute):
                            if norm(c.func.value) == PENDING and c.func.attr in ("pop", "get", "setdefault"):
                                out.append((name, "builtin", st, "cond" if c.func.attr == "pop" else False))
                            elif c.args and isinstance(c.args[0], ast.Constant) and c.args[0].value == MODULE_ATTR and c.func.attr in ("pop", "get"):
                                out.append((name, "module", st, "cond" if c.func.attr == "pop" else False))
    return out


def _callers_hold_lock(ctx: Ctx, mod: Mod, fname: str) -> Tuple[bool, List[str]]:
    """is every call of module-level function fname lexically inside `with glue_lock`?"""
    sites = []
    ok = True
    for m in ctx.P.analysed_mods():
        for c in ast.walk(m.tree):
            if isinstance(c, ast.Call) and ((isinstance(c.func, ast.Name) and c.func.id == fname and m is mod)
                                            or (isinstance(c.func, ast.Attribute) and c.func.attr == fname and norm(c.func.value) in ("_glue", "stackscope._glue"))):
                held = _lock_held_at(m, c)
                sites.append(f"{m.name}.{m.qualname_of(c)}{'' if held else ' (NOT under glue_lock)'}")
                ok = ok and held
    return ok, sites


def _under_lock(mod: Mod, node: ast.AST) -> bool:
    return _lock_held_at(mod, node)


def glue_rules(ctx: Ctx) -> None:
    mod = ctx.P.mod("_glue")
    add = mod.fn("add_glue_as_needed")
    dec = mod.fn("builtin_glue.decorate")
    ctx.R.saw(mod, "add_glue_as_needed")
    ctx.R.saw(mod, "builtin_glue.decorate")
    # ---- locate every glue call in the package (GLUE-8: who may call)
    installers: List[ast.AST] = []
    for m in ctx.P.analysed_mods():
        for q, fn in m.defs.items():
            if not isinstance(fn, (ast.FunctionDef, ast.AsyncFunctionDef)):
                continue
            srcs = {x[0] for x in _glue_sources(fn)}
            for c in calls_in(fn, scope_only=True):
                if isinstance(c.func, ast.Name) and c.func.id in srcs:
                    if m is mod and fn not in installers:
                        installers.append(fn)
                    elif m is not mod:
                        ctx.R.fail("GLUE-8", m, c, "a glue function is called outside stackscope._glue's installer")
    dparam = dec.args.args[0].arg
    for c in calls_in(dec, scope_only=True):
        if isinstance(c.func, ast.Name) and c.func.id == dparam:
            ctx.R.fail("GLUE-8", mod, c,
                       "builtin_glue's decorator calls the built-in glue function directly: outside the try that turns failures into warnings, outside glue_lock, "
                       "and without looking for a module-provided _stackscope_install_glue_ (which then also runs at the first extraction: both kinds for one module)",
                       construct=f"{norm(c)} in decorate")
    if len(installers) != 1:
        if not installers:
            raise AnalysisError("GLUE: no function calls a value taken from the glue registries")
        ctx.R.fail("GLUE-8", mod, installers[1], f"glue functions are called from {len(installers)} different functions ({[mod.qualname_of(f) for f in installers]}): there must be one installer",
                   construct="multiple installers")
    inst = installers[0]
    iq = mod.qualname_of(inst)
    ctx.R.saw(mod, iq)
    ctx.R.ok("GLUE-8", f"single installer: _glue.{iq}")
    srcs = _glue_sources(inst)
    names = {x[0] for x in srcs}
    bsrc = [x for x in srcs if x[1] == "builtin"]
    msrc = [x for x in srcs if x[1] == "module"]
    if not bsrc or not msrc:
        raise AnalysisError(f"GLUE: installer takes {len(bsrc)} built-in and {len(msrc)} module-provided references (>= 1 each expected)")
    g = ctx.cfg(inst)
    gcalls = [c for c in calls_in(inst, True) if isinstance(c.func, ast.Name) and c.func.id in names]
    if not gcalls:
        raise AnalysisError("GLUE: installer does not call any glue reference")

    def src_node(st: ast.AST):
        # a read inside `try: x = ...pop() except: x = None` is represented by the try statement (its
        # handler rebinds the name, so the assignment itself does not dominate what follows)
        tr = [a for a in mod.ancestors(st) if isinstance(a, ast.Try)]
        return g.node_of(tr[0]) if tr and in_body(tr[0].body, st, mod) else g.node_of(st)

    # ---- GLUE-1 pop-before-call: for each registry, a *removing* read dominates every glue call
    for name, kind, st, removing in srcs:
        if removing == "cond":
            continue  # decided below: a conditional removal cannot be the one that dominates a glue call
        if not removing:
            ctx.R.fail("GLUE-1", mod, st, f"the {kind} glue reference is read without being removed from its registry: the same glue runs again at the next scan (never twice is violated)",
                       construct=f"{name} = {norm(st.value)[:80]}")
        else:
            ctx.R.ok("GLUE-1", f"{name} = {norm(st.value)[:70]}", "removing read")
    for c in gcalls:
        cn = g.node_of(_stmt(mod, c))
        for kind, lst in (("built-in", bsrc), ("module-provided", msrc)):
            if any(removing is True and g.dominates(src_node(st), cn) for _, _, st, removing in lst):
                ctx.R.ok("GLUE-1", f"`{norm(c)}`: the {kind} reference was already removed from its registry")
            else:
                condn = [norm(st.value)[:80] for _, _, st, removing in lst if removing == "cond"]
                ctx.R.fail("GLUE-1", mod, c, f"`{norm(c)}` can run while the {kind} glue reference of the same module is still registered: it is left behind and runs at a later scan "
                           "(both kinds for one module / the same glue twice)"
                           + (f"; the only removal, in `{condn[0]}`, is short-circuited away whenever the other operand is truthy" if condn else ""),
                           construct=f"{norm(c)} not dominated by the {kind} pop")
    # ---- GLUE-2 exclusive, module-provided first
    bn = bsrc[0][0]
    mn = msrc[0][0]
    ok2 = False
    detail = ""
    if bn != mn:
        ifs = [s for s in ast.walk(inst) if isinstance(s, ast.If) and any(isinstance(c, ast.Call) and isinstance(c.func, ast.Name) and c.func.id in names for b in s.body for c in ast.walk(b))]
        top = [s for s in ifs if not any(s in ast.walk(o) and s is not o for o in ifs)]
        if len(top) == 1:
            s_ = top[0]
            first_calls = [c.func.id for b in s_.body for c in ast.walk(b) if isinstance(c, ast.Call) and isinstance(c.func, ast.Name) and c.func.id in names]
            else_calls = [c.func.id for b in s_.orelse for c in ast.walk(b) if isinstance(c, ast.Call) and isinstance(c.func, ast.Name) and c.func.id in names]
            if first_calls == [mn] and else_calls == [bn] and norm(s_.test) == f"{mn} is not None" and len(s_.orelse) == 1 and isinstance(s_.orelse[0], ast.If) \
                    and norm(s_.orelse[0].test) == f"{bn} is not None" and len(gcalls) == 2:
                ok2 = True
                detail = f"if {mn} is not None: {mn}() elif {bn} is not None: {bn}()"
        anchor = top[0] if top else inst
    else:
        # one variable: bound from the module first, from the built-in registry only while still None
        anchor = inst
        mst, bst = msrc[0][2], bsrc[0][2]
        gsb = [(norm(gx), pol) for gx, pol in guards_of(mod, bst, inst)]
        if len(gcalls) == 1 and g.dominates(src_node(mst), g.node_of(bst)) and ((f"{bn} is None", True) in gsb or (f"{bn} is not None", False) in gsb or (f"not {bn}", True) in gsb):
            ok2 = True
            detail = f"{bn} = <module glue>; if {bn} is None: {bn} = <built-in glue>; one call"
    if ok2:
        ctx.R.ok("GLUE-2", detail, "exclusive, module-provided first")
    else:
        ctx.R.fail("GLUE-2", mod, anchor, "the module-provided and the built-in glue must be mutually exclusive with the module-provided one preferred "
                   "(never both kinds for one module; module-provided beats built-in)", construct="if module_fn / elif builtin_fn")
    # ---- GLUE-3 lock coverage
    lock_ok = True
    inst_is_add = inst is add
    if not inst_is_add:
        held, sites = _callers_hold_lock(ctx, mod, inst.name)
        if not sites:
            raise AnalysisError(f"GLUE-3: installer {iq} has no callers")
        if held:
            ctx.R.ok("GLUE-3", f"every caller of {iq} holds glue_lock", "; ".join(sites))
        else:
            lock_ok = False
            ctx.R.fail("GLUE-3", mod, inst, f"{iq} is called without glue_lock held: {sites}: two threads can pop and run glue concurrently", construct=f"callers of {iq}")
    for fn in ([add] if inst_is_add else [add]):
        for n in ast.walk(fn):
            if isinstance(n, ast.Name) and n.id == PENDING and not _under_lock(mod, n):
                lock_ok = False
                ctx.R.fail("GLUE-3", mod, n, f"{PENDING} is accessed in add_glue_as_needed outside `with glue_lock`")
    if inst_is_add:
        for c in gcalls:
            if not _under_lock(mod, c):
                lock_ok = False
                ctx.R.fail("GLUE-3", mod, c, "a glue function is called outside `with glue_lock`")
        for _n, _k, _st, _r in srcs:
            if not _under_lock(mod, _st):
                lock_ok = False
                ctx.R.fail("GLUE-3", mod, _st, "a glue reference is taken outside `with glue_lock`")
    # the scan loop itself is under the lock
    loops = [s for s in ast.walk(add) if isinstance(s, ast.For)]
    if len(loops) != 1:
        raise AnalysisError("GLUE: the module scan loop of add_glue_as_needed vanished")
    loop = loops[0]
    if not _under_lock(mod, loop):
        lock_ok = False
        ctx.R.fail("GLUE-3", mod, loop, "the module scan runs outside `with glue_lock`")
    lk = mod.toplevel_assign("glue_lock")
    if lk is None or norm(lk.value) not in ("threading.Lock()", "threading.RLock()"):
        lock_ok = False
        ctx.R.fail("GLUE-3", mod, lk, "glue_lock must be a module-level threading.Lock()", qualname="_glue.glue_lock")
    if lock_ok:
        ctx.R.ok("GLUE-3", "registry accesses, the scan loop and both glue calls are covered by glue_lock")
    # ---- GLUE-4 containment per module
    for c in gcalls:
        tries = enclosing_tries(mod, c)
        bh = broad_handlers(tries[0]) if tries else []
        if not bh:
            ctx.R.fail("GLUE-4", mod, c, "a glue call is not inside try/except Exception: a failing glue function makes extract() raise and the remaining modules are skipped")
            continue
        esc = [n for n in ast.walk(bh[0]) if isinstance(n, (ast.Raise, ast.Return, ast.Break))]
        warns = [n for n in ast.walk(bh[0]) if isinstance(n, ast.Call) and norm(n.func) == "warnings.warn"]
        if esc:
            ctx.R.fail("GLUE-4", mod, esc[0], "the glue failure handler leaves (raise/return/break) instead of only warning")
        elif not warns:
            ctx.R.fail("GLUE-4", mod, bh[0], "a glue failure must produce a warning")
        else:
            ctx.R.ok("GLUE-4", f"`{norm(c)}` failure -> warnings.warn only")
        # the try is per module: inside the loop body or in the per-module installer
        if inst_is_add and not in_body(loop.body, tries[0], mod):
            ctx.R.fail("GLUE-4", mod, tries[0], "the try must be inside the per-module loop body, otherwise one failure ends the scan")
    esc = [n for n in contains(loop, (ast.Break, ast.Return, ast.Raise))]
    if esc:
        ctx.R.fail("GLUE-4", mod, esc[0], "the module scan loop can be left early: the remaining modules' glue is not installed")
    else:
        ctx.R.ok("GLUE-4", "the scan loop has no break/return/raise")
    if not inst_is_add:
        body_calls = [c for c in calls_in(loop, True) if isinstance(c.func, ast.Name) and c.func.id == inst.name]
        if len(body_calls) == 1 and norm(body_calls[0].args[0]) == norm(loop.target):
            ctx.R.ok("GLUE-4", f"the loop installs glue for each module name: {norm(body_calls[0])}")
        else:
            ctx.R.fail("GLUE-4", mod, loop, f"the scan loop must call {inst.name}(<loop variable>) once per module", construct="scan loop body")
    # ---- GLUE-5 cache write
    cache_param = [a.arg for a in add.args.kwonlyargs + add.args.args if "cache" in a.arg]
    if len(cache_param) != 1:
        raise AnalysisError("GLUE-5: length cache parameter vanished")
    cp = cache_param[0]
    stores = [s for s in ast.walk(add) if isinstance(s, ast.Assign) and isinstance(s.targets[0], ast.Subscript) and norm(s.targets[0].value) == cp]
    snap = [s for s in ast.walk(add) if isinstance(s, ast.Assign) and norm(s.targets[0]) == norm(loop.iter)]
    why5 = None
    undec5 = None
    if len(stores) != 1:
        why5 = f"{len(stores)} stores into the length cache (1 expected)"
    elif len(snap) != 1 or norm(snap[0].value) not in ("tuple(sys.modules)", "list(sys.modules)"):
        why5 = "the scan does not run over one snapshot `tuple(sys.modules)` bound to a name"
    else:
        s = stores[0]
        g5 = ctx.cfg(add)
        in_loop = any(a is loop for a in mod.ancestors(s))
        locked = lambda n_: _lock_held_at(mod, n_)
        cleanup = [a for a in mod.ancestors(s) if isinstance(a, ast.Try) and (any(s is y or any(s is z for z in ast.walk(y)) for h in a.handlers for y in h.body)
                                                                         or any(s is y or any(s is z for z in ast.walk(y)) for y in a.finalbody))]
        if norm(s.value) != f"len({norm(loop.iter)})":
            why5 = f"the cache is written from `{norm(s.value)}`, not from the length of the snapshot that was scanned"
        elif in_loop:
            why5 = "the cache is written inside the scan loop"
        elif not locked(s) or not locked(snap[0]) or not locked(loop):
            why5 = "the snapshot, the scan and the cache write are not all inside `with glue_lock`"
        elif not g5.dominates(g5.node_of(snap[0]), g5.node_of(loop)):
            why5 = "the snapshot is not taken before the scan on every path"
        elif not g5.dominates(g5.node_of(loop), g5.node_of(s)):
            why5 = "the cache write is not preceded by the scan on every path (written before the scan, a concurrent extraction takes the lock-free fast path while glue is still being installed)"
        elif cleanup:
            undec5 = "the cache is written in an exception handler / finally clause: cannot tell whether that is only after a complete scan"
    if why5 is None and undec5 is None:
        ctx.R.ok("GLUE-5", "the length cache is written after the loop, inside the lock, from the snapshot taken before the loop", "CFG dominance: snapshot -> scan loop -> cache store")
    elif why5 is None:
        ctx.R.undecided("GLUE-5", undec5)
    else:
        ctx.R.fail("GLUE-5", mod, stores[0] if stores else add, "the length cache must be written after the scan, inside glue_lock, from the module snapshot taken (inside the lock) before the scan: "
                   f"written earlier or from a fresh len(sys.modules), a concurrent extraction or a module imported during the scan is skipped; here: {why5}", construct="length cache store")
    # ---- GLUE-6 decoration time
    run_sites = [c for c in calls_in(dec, True) if isinstance(c.func, ast.Name) and (c.func.id == dparam or c.func.id == inst.name)]
    mod_alias = {}
    for st in walk_scope(dec):
        if isinstance(st, ast.Assign) and norm(st.value) in ("sys.modules.get(needs_module)", "sys.modules.get(needs_module, None)"):
            mod_alias[norm(st.targets[0])] = True
    from .opcodes import path_guards_of
    for c in run_sites:
        gs = path_guards_of(mod, c, dec)
        az = Atomizer()
        fs = [(az.compile(gx), pol) for gx, pol in gs]
        imp_atoms = [i for i, a in enumerate(az.atoms) if a == "needs_module in sys.modules" or any(a == f"{al} is None" for al in mod_alias)]
        ok = False
        if imp_atoms:
            ok = True
            for vals in itertools.product([False, True], repeat=len(az.atoms)):
                if all(f(vals) == pol for f, pol in fs):
                    # the guard holds: the module must be imported
                    imported = any((vals[i] if az.atoms[i] == "needs_module in sys.modules" else not vals[i]) for i in imp_atoms)
                    if not imported:
                        ok = False
        if ok:
            ctx.R.ok("GLUE-6", f"decorate runs glue (`{norm(c)}`) only under a condition that implies the module is already imported")
        else:
            ctx.R.fail("GLUE-6", mod, c, "at decoration time glue can run although the module it needs is not in sys.modules (its `import` would pull the library in, or fail)",
                       construct=f"guard of {norm(c)} in decorate")
        if len(c.args) == 1 and norm(c.args[0]) != "needs_module" and c.func.id == inst.name:
            ctx.R.fail("GLUE-6", mod, c, "the eager path must install glue for the module this decorator is about")
    pend = [s for s in walk_scope(dec) if isinstance(s, ast.Assign) and norm(s.targets[0]) == f"{PENDING}[needs_module]" and norm(s.value) == dparam]
    gd = ctx.cfg(dec)
    direct = [c for c in run_sites if c.func.id == dparam]
    if not pend:
        ctx.R.fail("GLUE-6", mod, dec, "the decorated function is never recorded in builtin_glue_pending: lazily imported modules never get their glue", construct="pending store")
    else:
        pn = {gd.node_of(s).idx for s in pend}
        via = {gd.node_of(_stmt(mod, c)).idx for c in run_sites}
        if gd.all_paths_pass(gd.entry, {gd.exit.idx}, pn | via):
            ctx.R.ok("GLUE-6", "on every path the glue either runs or is recorded as pending")
        else:
            ctx.R.fail("GLUE-6", mod, dec, "there is a path through the decorator on which the glue neither runs nor is recorded as pending", construct="decorate paths")
        for c in direct:
            cn = gd.node_of(_stmt(mod, c))
            for s in pend:
                sn = gd.node_of(s)
                if sn.idx in gd.reachable_from(cn) or cn.idx in gd.reachable_from(sn):
                    ctx.R.fail("GLUE-6", mod, c, "the glue can be both run directly and left pending: it runs a second time at the first extraction")
    if not run_sites:
        ctx.R.note("GLUE-6: decorate never runs glue eagerly (always pending)")
    # ---- GLUE-7 fast path predicate
    fast = [s for s in add.body if isinstance(s, ast.If) and s.body and isinstance(s.body[-1], ast.Return) and not _under_lock(mod, s)]
    for s in fast:
        uses = [n for n in ast.walk(s.test) if norm(n) == "sys.modules"]
        only_len = uses and all(isinstance(mod.parent_of(u), ast.Call) and norm(mod.parent_of(u).func) == "len" for u in uses)
        if only_len:
            ctx.R.fail("GLUE-7", mod, s.test,
                       "the fast path skips the scan whenever len(sys.modules) equals the cached length: after `remove module a, add module b` the length is unchanged "
                       "and b's glue is not installed by the extraction that follows (only after some later import)",
                       qualname="_glue.add_glue_as_needed", construct="fast-path test depends on sys.modules only via len()")
        else:
            ctx.R.ok("GLUE-7", f"fast path predicate: {norm(s.test)[:80]}")
    if not fast:
        ctx.R.ok("GLUE-7", "no fast path: every extraction scans")
    # cache default is a mutable list shared across calls (that is the cache)
    ctx.R.expect_min("GLUE-1", 4)


def _stmt(mod: Mod, n: ast.AST) -> ast.AST:
    while not isinstance(n, ast.stmt):
        n = mod.parent_of(n)
    return n


def glue9(ctx: Ctx) -> None:
    """GLUE-9 every way into the extraction engine installs pending glue first: in the engine module, every call of a
    hook dispatcher (unwrap_stackitem / elaborate_frame / ...) inside the engine generator is dominated by
    add_glue_as_needed(), or every function that starts that generator calls add_glue_as_needed() on every path before it does"""
    mod = ctx.P.mod("_extract")
    eng = mod.fn("extract_iter")
    ctx.R.saw(mod, "extract_iter")

    def glue_calls(fn: ast.AST) -> List[ast.AST]:
        out = []
        for c in calls_in(fn, scope_only=True):
            cal = ctx.P.resolve_call(mod, c)
            if cal.kind == "pkg" and cal.name.endswith("_glue.add_glue_as_needed"):
                out.append(_stmt(mod, c))
        return out

    def dominated(fn: ast.AST, targets: List[ast.AST]) -> Optional[ast.AST]:
        """first target statement some path reaches without passing an add_glue_as_needed() statement (None: all covered)"""
        g = ctx.cfg(fn)
        gs = {g.node_of(s).idx for s in glue_calls(fn)}
        for t in targets:
            tn = g.node_of(t)
            if tn.idx in gs:
                continue
            if not gs or not g.all_paths_pass(g.entry, {tn.idx}, gs):
                return t
        return None

    hooks = ("unwrap_stackitem", "elaborate_frame")
    dispatch = [_stmt(mod, c) for c in calls_in(eng, scope_only=True) if isinstance(c.func, ast.Name) and c.func.id in hooks]
    if not dispatch:
        raise AnalysisError("GLUE-9: extract_iter no longer dispatches to the hooks")
    miss = dominated(eng, dispatch)
    if miss is None:
        ctx.R.ok("GLUE-9", f"extract_iter: add_glue_as_needed() precedes all {len(dispatch)} hook dispatches on every path",
                 "every extraction (extract, extract_outermost, extract_child, extract_since/until) runs through extract_iter")
        return
    # the engine does not do it itself: every starter must
    starters = []
    for q, fn in mod.defs.items():
        if fn is eng or not isinstance(fn, (ast.FunctionDef, ast.AsyncFunctionDef)):
            continue
        cs = [c for c in calls_in(fn, scope_only=True) if ctx.P.resolve_call(mod, c).is_pkg("_extract", "extract_iter")]
        if cs:
            starters.append((q, fn, cs))
    if not starters:
        raise AnalysisError("GLUE-9: nothing calls extract_iter")
    def uncovered(q: str, fn: ast.AST, cs: List[ast.AST], depth: int = 0) -> List[Tuple[str, ast.AST]]:
        """entry points through which the engine is reached without glue: (qualname, offending statement)"""
        ctx.R.saw(mod, q)
        m2 = dominated(fn, [_stmt(mod, c) for c in cs])
        if m2 is None:
            return []
        # q itself does not install glue on that path: it is fine if every function of the engine module that calls q does
        callers = []
        for q3, f3 in mod.defs.items():
            if f3 is fn or not isinstance(f3, (ast.FunctionDef, ast.AsyncFunctionDef)):
                continue
            c3 = [c for c in calls_in(f3, scope_only=True) if ctx.P.resolve_call(mod, c).is_pkg("_extract", q)]
            if c3:
                callers.append((q3, f3, c3))
        if not callers or depth >= 3:
            return [(q, m2)]
        out: List[Tuple[str, ast.AST]] = []
        for q3, f3, c3 in callers:
            out += uncovered(q3, f3, c3, depth + 1)
        return out

    bad: List[Tuple[str, ast.AST]] = []
    for q, fn, cs in starters:
        b = uncovered(q, fn, cs)
        if not b:
            ctx.R.ok("GLUE-9", f"{q}: add_glue_as_needed() on every path before the engine starts (here or in every caller inside the engine module)")
        bad += b
    seen = set()
    for q, st in bad:
        if q in seen:
            continue
        seen.add(q)
        ctx.R.fail("GLUE-9", mod, st, f"{q} starts the extraction engine on a path that has not called add_glue_as_needed(), and the engine does not call it itself before dispatching to hooks: "
                   "glue of a module imported since the last extraction is not installed by an extraction that enters here", construct=f"{q}: extract_iter without add_glue_as_needed")


def glue10(ctx: Ctx) -> None:
    """GLUE-10 a full scan examines every module: inside the scan loop of add_glue_as_needed no path reaches the next
    iteration without the installer call (or the two registry pops); a skip decided by a memo that persists across scans
    (module-level or default-argument container other than the pending registry) is a violation -- a module re-imported
    under a remembered name is a new object whose glue would never run"""
    mod = ctx.P.mod("_glue")
    add = mod.fn("add_glue_as_needed")
    loops = [s for s in ast.walk(add) if isinstance(s, ast.For)]
    if len(loops) != 1:
        raise AnalysisError("GLUE-10: the module scan loop of add_glue_as_needed vanished")
    loop = loops[0]
    inst = []
    for c in ast.walk(loop):
        if isinstance(c, ast.Call):
            cal = ctx.P.resolve_call(mod, c)
            if (cal.kind == "pkg" and cal.name.endswith("install_glue_for_module")) or (isinstance(c.func, ast.Attribute) and c.func.attr == "pop" and PENDING in norm(c.func.value)):
                inst.append(_stmt(mod, c))
    if not inst:
        raise AnalysisError("GLUE-10: the scan loop neither calls the installer nor pops the pending registry")
    g = ctx.cfg(add)
    header = g.node_of(loop)
    first = g.node_of(loop.body[0])
    through = {g.node_of(s).idx for s in inst}
    if first.idx in through or g.all_paths_pass(header, {header.idx}, through | {n.idx for n in g.nodes if n.idx not in g.reachable_from(first)}):
        ctx.R.ok("GLUE-10", "every iteration of the module scan reaches the installer: no module in sys.modules is skipped")
        return
    # some path skips: who decides?
    skips = [x for x in ast.walk(loop) if isinstance(x, (ast.Continue, ast.Break))]
    persistent = set()
    for a in add.args.args + add.args.kwonlyargs:
        persistent.add(a.arg)
    for st in mod.tree.body:
        if isinstance(st, (ast.Assign, ast.AnnAssign)) and st.value is not None:
            tg = st.targets[0] if isinstance(st, ast.Assign) else st.target
            if isinstance(tg, ast.Name) and (isinstance(st.value, (ast.Set, ast.Dict, ast.List)) or (isinstance(st.value, ast.Call) and norm(st.value.func).split(".")[-1] in ("set", "dict", "list", "WeakSet", "WeakValueDictionary", "WeakKeyDictionary", "defaultdict"))):
                persistent.add(tg.id)
    persistent.discard(PENDING)
    reported = False
    for sk in skips:
        for gx, pol in guards_of(mod, sk, add):
            if not any(gx is t or any(gx is y for y in ast.walk(t)) for t in [x.test for x in ast.walk(loop) if isinstance(x, ast.If)]):
                continue
            # keyed by the module *name* (the loop variable): `name in memo` / `memo.get(name)` / `memo[name]`
            lv = norm(loop.target)
            memo = sorted({norm(c.comparators[0]) for c in ast.walk(gx) if isinstance(c, ast.Compare) and len(c.ops) == 1 and isinstance(c.ops[0], (ast.In, ast.NotIn))
                           and norm(c.left) == lv and norm(c.comparators[0]) in persistent}
                          | {norm(c.value) for c in ast.walk(gx) if isinstance(c, ast.Subscript) and norm(c.slice) == lv and norm(c.value) in persistent}
                          | {norm(c.func.value) for c in ast.walk(gx) if isinstance(c, ast.Call) and isinstance(c.func, ast.Attribute) and c.func.attr == "get" and c.args and norm(c.args[0]) == lv and norm(c.func.value) in persistent})
            if memo:
                reported = True
                ctx.R.fail("GLUE-10", mod, sk, f"the scan skips a module when `{norm(gx)[:60]}`, decided by {memo}, which persists across scans: a module removed and imported again (a new module object, "
                           "possibly with its own _stackscope_install_glue_) under a remembered name is never examined again", construct=f"scan skip by persistent memo {memo}")
    if not reported:
        # a skip by membership of the module's name in sys.stdlib_module_names: decidable against the glue registrations
        stdlib_alias = {norm(a_.targets[0]) for a_ in mod.tree.body if isinstance(a_, (ast.Assign, ast.AnnAssign)) and getattr(a_, "value", None) is not None
                        and "stdlib_module_names" in norm(a_.value) for a_ in [a_] if isinstance(a_, ast.Assign)} | \
                       {norm(a_.target) for a_ in mod.tree.body if isinstance(a_, ast.AnnAssign) and a_.value is not None and "stdlib_module_names" in norm(a_.value)} | {"sys.stdlib_module_names"}
        for sk in skips:
            for gx, pol in guards_of(mod, sk, add):
                if any(al in norm(gx) for al in stdlib_alias) and norm(loop.target) in norm(gx):
                    targets = [d.args[0].value for f_ in ast.walk(mod.tree) if isinstance(f_, ast.FunctionDef) for d in f_.decorator_list
                               if isinstance(d, ast.Call) and norm(d.func) == "builtin_glue" and d.args and isinstance(d.args[0], ast.Constant)]
                    imported = set()
                    for m_ in ctx.P.analysed_mods():
                        for st in m_.tree.body:
                            if isinstance(st, ast.Import):
                                imported |= {a.name.split(".")[0] for a in st.names}
                            elif isinstance(st, ast.ImportFrom) and st.level == 0 and st.module:
                                imported.add(st.module.split(".")[0])
                    lost = {}
                    for v in ctx.V.all:
                        names = set(ctx.F["interp"][v].get("stdlib_module_names", []))
                        bad = sorted(t for t in targets if t.split(".")[0] in names and t.split(".")[0] not in imported and t != "builtins")
                        if bad:
                            lost[v] = bad
                    if lost:
                        reported = True
                        ctx.R.fail("GLUE-10", mod, sk, f"the scan skips every module whose top-level name is in sys.stdlib_module_names; stackscope has built-in glue for {sorted({t for b in lost.values() for t in b})}, "
                                   f"which are standard-library modules (CPython {sorted(lost)}) that stackscope does not import itself: imported later by the program, their glue is never installed",
                                   construct="scan skips standard-library module names")
    if not reported:
        ctx.R.undecided("GLUE-10", "some path through the scan loop skips the installer call; cannot decide whether the skipped modules can have pending glue")


def glue11(ctx: Ctx) -> None:
    """GLUE-11 the per-module installer settles the module it is given: on every path to a normal return both references have been
    taken (the pending built-in entry popped, the module's own attribute popped or found absent).  A path that returns early
    leaves glue pending for a module that the scan has already counted as visited (the length cache then covers it): that
    glue waits for some unrelated later import"""
    mod = ctx.P.mod("_glue")
    if not mod.has("install_glue_for_module"):
        ctx.R.note("GLUE-11: no separate installer function (pops are in add_glue_as_needed: covered by GLUE-10)")
        return
    fn = mod.fn("install_glue_for_module")
    ctx.R.saw(mod, "install_glue_for_module")
    g = ctx.cfg(fn)
    pops = [_stmt(mod, c) for c in ast.walk(fn) if isinstance(c, ast.Call) and isinstance(c.func, ast.Attribute) and c.func.attr == "pop" and PENDING in norm(c.func.value)]
    if not pops:
        raise AnalysisError("GLUE-11: install_glue_for_module no longer pops the pending registry")
    through = {g.node_of(p_).idx for p_ in pops}
    rets = [r for r in ast.walk(fn) if isinstance(r, ast.Return) and mod.enclosing_def(r) is fn]
    bad = None
    for r in rets:
        rn = g.node_of(r)
        if not g.all_paths_pass(g.entry, {rn.idx}, through):
            bad = r
            break
    if bad is None:
        ctx.R.ok("GLUE-11", "every return of install_glue_for_module has taken the pending built-in entry first")
    else:
        conds = [norm(gx)[:60] for gx, pol in guards_of(mod, bad, fn)]
        ctx.R.fail("GLUE-11", mod, bad, f"install_glue_for_module returns (under {conds or 'some condition'}) before taking the module's pending glue: the module counts as visited by the scan, the length "
                   "cache then skips it, and its glue runs only after some unrelated later import", construct="installer returns with glue still pending")


def glue14(ctx: Ctx) -> None:
    """GLUE-14 what the package does not know how to unwrap stays irreducible: no module of the package registers a catch-all
    (`object`) implementation of unwrap_stackitem / unwrap_context that can return something.  The default "None: a leaf" is what
    ends every chain; a catch-all that follows referents or attributes of arbitrary objects continues chains through objects
    that do not forward send()/throw() (enumerate(gen), filter(f, gen), ...) and replaces the leaf"""
    n = 0
    for mod in ctx.P.analysed_mods():
        for q, fn in mod.defs.items():
            if not isinstance(fn, (ast.FunctionDef, ast.AsyncFunctionDef)):
                continue
            for d in fn.decorator_list:
                if isinstance(d, ast.Call) and isinstance(d.func, ast.Attribute) and d.func.attr == "register" and norm(d.func.value) in ("unwrap_stackitem", "unwrap_context", "_customization.unwrap_stackitem", "_customization.unwrap_context"):
                    n += 1
                    if any(norm(a) in ("object", "builtins.object") for a in d.args):
                        rets = [r for r in walk_scope(fn) if isinstance(r, ast.Return) and r.value is not None and not (isinstance(r.value, ast.Constant) and r.value.value is None)]
                        if rets:
                            ctx.R.fail("GLUE-14", mod, fn, f"{mod.name}.{q} is registered as the {norm(d.func.value)} implementation for `object` and can return `{norm(rets[0].value)[:50]}`: it replaces the "
                                       "'irreducible' default for every type nobody registered, so chains continue through (and leaves are replaced by) whatever such objects happen to refer to",
                                       construct=f"{norm(d.func.value)}.register(object): {q}")
                        else:
                            ctx.R.ok("GLUE-14", f"{mod.name}.{q}: catch-all that only returns None")
    if n < 8:
        raise AnalysisError(f"GLUE-14: only {n} unwrap hook registrations found")
    ctx.R.ok("GLUE-14", f"{n} unwrap_stackitem / unwrap_context registrations", "none for `object` that can return something")


def glue13(ctx: Ctx) -> None:
    """GLUE-13 the look-up of the module-provided glue reference tolerates every kind of sys.modules entry: the scan walks a
    snapshot, so by the time a name's turn comes the module may be gone (KeyError), the entry may be any object (no __dict__), or
    a lazy module whose first attribute access runs its import; all of these mean "no module-provided glue", none may escape"""
    mod = ctx.P.mod("_glue")
    insts = []
    for q, fn in mod.defs.items():
        if isinstance(fn, (ast.FunctionDef, ast.AsyncFunctionDef)):
            srcs_ = _glue_sources(fn)
            names_ = {x[0] for x in srcs_}
            if any(isinstance(c.func, ast.Name) and c.func.id in names_ for c in calls_in(fn, scope_only=True)):
                insts.append((fn, srcs_))
    if len(insts) != 1:
        raise AnalysisError(f"GLUE-13: {len(insts)} glue installers found (1 expected; see GLUE-8)")
    inst, srcs = insts[0]
    bsrc = [x for x in srcs if x[1] == "builtin"]
    msrc = [x for x in srcs if x[1] == "module"]
    if not msrc:
        raise AnalysisError("GLUE-13: the installer takes no module-provided reference")

    def builtin_src_before(st_: ast.AST) -> bool:
        return any(removing is True and b_.lineno < st_.lineno for _, _, b_, removing in bsrc)

    look = [st for _, _, st, _ in msrc]
    for st in walk_scope(inst):
        if isinstance(st, ast.stmt) and not isinstance(st, (ast.Try, ast.If, ast.For, ast.While, ast.With, ast.FunctionDef)) and st not in look \
                and any(isinstance(x, ast.Subscript) and norm(x.value) == "sys.modules" and isinstance(x.ctx, ast.Load) for x in ast.walk(st)):
            look.append(st)
    for st in look:
        tries = enclosing_tries(mod, st)
        subs = [x for x in ast.walk(st) if isinstance(x, ast.Subscript) and norm(x.value) == "sys.modules"]
        if any(broad_handlers(t) for t in tries):
            t = [t for t in tries if broad_handlers(t)][0]
            h = broad_handlers(t)[0]
            if any(isinstance(n, (ast.Raise, ast.Return)) for n in ast.walk(h)) and builtin_src_before(st):
                ctx.R.fail("GLUE-13", mod, h, "the handler of the module look-up leaves the installer after the built-in reference was already taken from its registry: that glue is lost")
            else:
                ctx.R.ok("GLUE-13", f"`{norm(st)[:70]}`", "any failure of the look-up (module gone from sys.modules, entry without a usable __dict__, lazy module failing to load) means: no module-provided glue")
        elif tries:
            caught = sorted({norm(h.type) for t in tries for h in t.handlers if h.type is not None})
            ctx.R.fail("GLUE-13", mod, tries[0].handlers[0], f"the look-up `{norm(st)[:60]}` is guarded only against {caught}: the scan walks a snapshot of sys.modules, so the entry can be gone (KeyError), "
                       "be an object without a __dict__ (AttributeError), or be a lazy module whose first attribute access runs its import and raises anything; whatever is not caught escapes from "
                       "extract() (add_glue_as_needed runs outside every guard), the remaining modules are skipped, and a built-in reference already popped for this name is lost",
                       construct="module look-up handler narrower than Exception")
        elif subs:
            ctx.R.fail("GLUE-13", mod, subs[0], f"`{norm(subs[0])}` is evaluated outside any handler: the scan walks a snapshot of sys.modules taken earlier, glue functions and other threads remove modules, "
                       "so KeyError escapes from extract()", construct="unguarded sys.modules[...]")
        else:
            ctx.R.undecided("GLUE-13", f"the look-up `{norm(st)[:70]}` is outside any try: cannot decide which entries of sys.modules it tolerates")


def glue12(ctx: Ctx) -> None:
    """GLUE-12 the scan iterates over a snapshot of sys.modules: glue functions import modules (their own helpers, the library's
    submodules), and so do other threads, so iterating the live dict raises `RuntimeError: dictionary changed size during
    iteration` out of add_glue_as_needed -- which extract() calls outside any handler"""
    mod = ctx.P.mod("_glue")
    add = mod.fn("add_glue_as_needed")
    loops = [s_ for s_ in ast.walk(add) if isinstance(s_, ast.For)]
    if len(loops) != 1:
        raise AnalysisError("GLUE-12: the module scan loop of add_glue_as_needed vanished")
    it = loops[0].iter
    src = it
    if isinstance(it, ast.Name):
        a_ = [x.value for x in ast.walk(add) if isinstance(x, ast.Assign) and len(x.targets) == 1 and norm(x.targets[0]) == it.id]
        if len(a_) == 1:
            src = a_[0]
    txt = norm(src)
    live = "sys.modules" in txt and not (isinstance(src, ast.Call) and norm(src.func) in ("tuple", "list", "sorted", "set", "frozenset", "dict") and src.args and "sys.modules" in norm(src.args[0])
                                         and not (isinstance(src.args[0], ast.Call) and norm(src.args[0].func).endswith("islice")))
    if isinstance(src, ast.Call) and norm(src.func) in ("tuple", "list", "sorted", "set", "frozenset") and src.args and isinstance(src.args[0], ast.Call) and norm(src.args[0].func).endswith("islice"):
        live = False  # materialised before the loop body runs
    if "sys.modules" not in txt:
        ctx.R.undecided("GLUE-12", f"the scan iterates over `{txt[:60]}`")
    elif live:
        ctx.R.fail("GLUE-12", mod, loops[0], f"the module scan iterates over `{txt[:60]}`, the live sys.modules (or a lazy view of it), while glue functions run inside the loop: a glue function that imports "
                   "anything new (or an import on another thread) changes the dict during iteration and RuntimeError escapes from extract()", construct="scan over live sys.modules")
    else:
        ctx.R.ok("GLUE-12", f"the scan iterates over a snapshot: {txt[:60]}")


C17 = [glue_rules, glue9, glue10, glue11, glue12, glue13]
