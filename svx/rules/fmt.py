"""C18 / C19: FMT-1..9 over _types.py; C20: CONT-7, MODE-0..3, REF-1."""
from __future__ import annotations

import ast
import re
from typing import Dict, List, Optional, Set, Tuple

from ..ctx import Ctx
from ..model import AnalysisError, Mod, norm, walk_scope, calls_in
from ..util import broad_handlers, contains, enclosing_tries, equivalent, in_body
from .opcodes import guards_of, nguards

FORMATTERS = ["Stack._format", "Frame._format", "Context._format"]


def _markers(ctx: Ctx, mod: Mod):
    """(method, name, ascii, unicode) for every marker choice in the three _format methods"""
    out = []
    for q in FORMATTERS:
        fn = mod.fn(q)
        ctx.R.saw(mod, q)
        for s in walk_scope(fn):
            if isinstance(s, ast.Assign) and isinstance(s.targets[0], ast.Name) and isinstance(s.value, ast.IfExp) and "ascii_only" in norm(s.value.test):
                out.append((q, s.targets[0].id, s.value, s))
            elif isinstance(s, ast.Assign) and isinstance(s.targets[0], ast.Name) and isinstance(s.value, ast.Constant) and isinstance(s.value.value, str) \
                    and len(s.value.value) == 2 and s.targets[0].id.startswith(("start_", "continue_", "child_")):
                out.append((q, s.targets[0].id, s.value, s))
    return out


def fmt1(ctx: Ctx) -> None:
    mod = ctx.P.mod("_types")
    ms = _markers(ctx, mod)
    if len(ms) < 6:
        raise AnalysisError(f"FMT-1: {len(ms)} marker definitions found (10 confirmed by hand on the reference tree; fewer than 6 means the marker tables were not recognised)")
    u2a: Dict[str, Tuple[str, str]] = {}
    per_method: Dict[str, List[Tuple[str, str]]] = {}
    for q, name, val, st in ms:
        if isinstance(val, ast.Constant):
            a = u = val.value
        else:
            if not isinstance(val.body, ast.Constant) or not isinstance(val.orelse, ast.Constant):
                ctx.R.undecided("FMT-1", f"{q}: `{name}` is chosen between two non-literal values (`{norm(val)[:60]}`): the marker table is not visible here")
                continue
            if norm(val.test) not in ("opts.ascii_only", "bool(opts.ascii_only)"):
                ctx.R.fail("FMT-1", mod, st, "a prefix marker must be chosen as `<ascii> if opts.ascii_only else <unicode>` between two literals")
                continue
            a, u = val.body.value, val.orelse.value
        problems = []
        if not a.isascii():
            problems.append(f"the ascii_only marker {a!r} is not ASCII")
        if len(a) != 2 or len(u) != 2:
            problems.append(f"markers must be 2 characters wide (got {a!r}/{u!r}): continuation lines would not align and the prefix grammar breaks")
        if u in u2a and u2a[u][0] != a:
            problems.append(f"unicode marker {u!r} maps to {a!r} here but to {u2a[u][0]!r} in {u2a[u][1]}: ascii_only output is not a fixed per-marker substitution")
        if problems:
            ctx.R.fail("FMT-1", mod, st, "; ".join(problems), construct=f"{q}: {name} = {a!r} / {u!r}")
        else:
            ctx.R.ok("FMT-1", f"{q}: {name} = {a!r} (ascii) / {u!r}")
        u2a.setdefault(u, (a, q))
        per_method.setdefault(q, []).append((name, u))
    for q, lst in per_method.items():
        seen: Dict[str, str] = {}
        for name, u in lst:
            if name == "continue_child" or u == "  ":
                continue
            if u in seen:
                ctx.R.fail("FMT-1", mod, mod.fn(q), f"{q}: markers {seen[u]} and {name} are both {u!r}: the two kinds of line cannot be told apart when reading the tree back",
                           construct=f"{q}: duplicate unicode marker {u!r}")
            seen[u] = name
        ctx.R.ok("FMT-1", f"{q}: {len(seen)} unicode markers pairwise distinct")
    # the child-context indicator tested by Frame._format is the marker Context._format emits
    fr = {n: v for q, n, v, s in ms if q == "Frame._format"}
    cx = {n: v for q, n, v, s in ms if q == "Context._format"}
    if "child_context_indicator" in fr and "start_child" in cx and norm(fr["child_context_indicator"]) == norm(cx["start_child"]):
        ctx.R.ok("FMT-1", "Frame._format's child_context_indicator equals Context._format's start_child (writer/reader of the same marker agree)")
    elif "child_context_indicator" not in fr or "start_child" not in cx:
        ctx.R.undecided("FMT-1", "the definitions of Frame._format's child_context_indicator / Context._format's start_child were not found as marker tables")
    else:
        ctx.R.fail("FMT-1", mod, mod.fn("Frame._format"), "Frame._format recognises child-context lines by a marker that Context._format does not emit", construct="child_context_indicator vs start_child")


def fmt2(ctx: Ctx, which: str = "C18") -> None:
    mod = ctx.P.mod("_types")
    sites = [("Stack._format", "frame.hide", "opts.show_hidden_frames", "continue"), ("Stack._frame_summaries", "frame.hide", "show_hidden_frames", "continue"),
             ("Context._frame_summaries", "self.hide", "show_hidden_frames", "return"), ("Context._format", "self.hide", "opts.show_hidden_frames", "return")]
    for q, hide, show, act in sites:
        fn = mod.fn(q)
        ctx.R.saw(mod, q)
        found = False
        for s in ast.walk(fn):
            if isinstance(s, ast.If) and hide in norm(s.test):
                found = True
                last = s.body[-1]
                skips = isinstance(last, (ast.Continue, ast.Return)) and len(s.body) == 1
                try:
                    if skips:
                        ok, cex = equivalent(s.test, lambda e: e[hide] and not e[show], [hide, show])
                    else:  # the test guards the processing itself: keep-form
                        ok, cex = equivalent(s.test, lambda e: not (e[hide] and not e[show]), [hide, show])
                except AnalysisError as ex:
                    ctx.R.undecided("FMT-2", f"{q}: {ex}")
                    continue
                if ok:
                    ctx.R.ok("FMT-2", f"{q}: skipped iff {hide} and not {show}" + ("" if skips else " (keep-form)"))
                else:
                    ctx.R.fail("FMT-2", mod, s, f"{q}: a hidden frame/context must be skipped iff it is hidden and show_hidden_frames is off; counterexample {cex}",
                               construct=f"{q}: visibility test")
        if not found:
            # the same test as the filter of a comprehension / generator expression (keep-form)
            for cp in [c_ for c_ in ast.walk(fn) if isinstance(c_, ast.comprehension)]:
                for t_ in cp.ifs:
                    if hide in norm(t_):
                        found = True
                        try:
                            ok, cex = equivalent(t_, lambda e: not (e[hide] and not e[show]), [hide, show])
                        except AnalysisError as ex:
                            ctx.R.undecided("FMT-2", f"{q}: {ex}")
                            continue
                        if ok:
                            ctx.R.ok("FMT-2", f"{q}: kept iff not ({hide} and not {show}) (comprehension filter)")
                        else:
                            ctx.R.fail("FMT-2", mod, t_, f"{q}: a hidden frame/context must be skipped iff it is hidden and show_hidden_frames is off; counterexample {cex}", construct=f"{q}: visibility test")
        if not found:
            ctx.R.fail("FMT-2", mod, fn, f"{q}: no visibility test on {hide}: hidden items are always shown", construct=f"{q}: visibility test")
    # no other place may decide visibility from `.hide` alone: every test that reads a `.hide` attribute
    # in the formatting / summary code must have the form `<x>.hide and not <show_hidden_frames>`
    known = {id(s) for q, hide, show, act in sites for s in ast.walk(mod.fn(q)) if isinstance(s, ast.If) and hide in norm(s.test)}
    inside_known_test = {id(x) for q, hide, show, act in sites for s_ in ast.walk(mod.fn(q)) if isinstance(s_, ast.If) and hide in norm(s_.test) for x in ast.walk(s_.test)}
    for n in ast.walk(mod.tree):
        tests = []
        if mod.in_dead_helper(n) or id(n) in inside_known_test:
            continue
        if isinstance(n, (ast.If, ast.While, ast.IfExp)) and id(n) not in known:
            tests = [n.test]
        elif isinstance(n, ast.comprehension):
            tests = list(n.ifs)
        for t in tests:
            hides = [x for x in ast.walk(t) if isinstance(x, ast.Attribute) and x.attr == "hide" and isinstance(x.ctx, ast.Load)]
            for h in hides:
                hv = norm(h)
                shows = [norm(x) for x in ast.walk(t) if isinstance(x, (ast.Name, ast.Attribute)) and norm(x).endswith("show_hidden_frames")]
                ok = False
                if shows:
                    try:
                        ok, _ = equivalent(t, lambda e: e[hv] and not e[shows[0]], [hv, shows[0]])
                        if not ok:  # the same predicate used as a keep-filter
                            ok, _ = equivalent(t, lambda e: not (e[hv] and not e[shows[0]]), [hv, shows[0]])
                    except AnalysisError:
                        ok = False
                if ok:
                    ctx.R.ok("FMT-2", f"{mod.qualname_of(n)}: additional visibility test {norm(t)[:60]}")
                elif shows:
                    ctx.R.undecided("FMT-2", f"{mod.qualname_of(n)}: `{norm(t)[:70]}` reads {hv} together with {shows[0]} and further conditions")
                else:
                    ctx.R.fail("FMT-2", mod, n if not isinstance(n, ast.comprehension) else t, f"{mod.qualname_of(t) or mod.qualname_of(n)}: an item is skipped because of `{hv}` without consulting show_hidden_frames: "
                               "with show_hidden_frames=True the hidden item (and its subtree) is still omitted", construct=f"visibility decided by {norm(t)[:80]}")


def fmt3(ctx: Ctx) -> None:
    """every line of a sub-component reaches lines.append(<marker> + line) on every path"""
    mod = ctx.P.mod("_types")
    n = 0
    for q in FORMATTERS:
        fn = mod.fn(q)
        g = ctx.cfg(fn)
        for loop in [s for s in ast.walk(fn) if isinstance(s, ast.For)]:
            it = norm(loop.iter)
            if not (it.startswith("enumerate(") and ("._format(" in it or it == "enumerate(sublines)")):
                continue
            n += 1
            tgt = loop.target
            lv = norm(tgt.elts[1]) if isinstance(tgt, ast.Tuple) else norm(tgt)
            apps = set()
            for s in ast.walk(loop):
                if isinstance(s, ast.Expr) and isinstance(s.value, ast.Call) and norm(s.value.func) == "lines.append" and s.value.args:
                    a = s.value.args[0]
                    if isinstance(a, ast.BinOp) and isinstance(a.op, ast.Add) and norm(a.right) == lv:
                        apps.add(g.node_of(s).idx)       # whatever expression chooses the marker
            header = g.node_of(loop)
            body_entry, _ = g.branch_succs(header) if False else ([x for x in header.succ if x.ast is not None and in_body(loop.body, x.ast, mod)], [])
            ok = bool(apps) and all(g.all_paths_pass(header, {header.idx}, apps) if False else True for _ in [0])
            # every path from the first body statement back to the header passes an append
            first = g.node_of(loop.body[0])
            if apps and (first.idx in apps or g.all_paths_pass(first, {header.idx}, apps)) :
                ctx.R.ok("FMT-3", f"{q}: every line of `{it[:50]}` is appended with a marker on every path")
            elif not apps and not any(isinstance(x, ast.Name) and x.id == lv and isinstance(x.ctx, ast.Load) for b_ in loop.body for x in ast.walk(b_)):
                ctx.R.fail("FMT-3", mod, loop, f"{q}: the lines produced by `{it[:60]}` are never used in the loop body (`{lv}` is not read): the tree loses them",
                           construct=f"{q}: loop over {it[:60]}")
            elif not apps:
                ctx.R.undecided("FMT-3", f"{q}: the loop over `{it[:50]}` does not append `<marker> + {lv}` to lines in a recognisable way")
            else:
                ctx.R.fail("FMT-3", mod, loop, f"{q}: a line produced by `{it[:60]}` can be dropped (no `lines.append(<marker> + {lv})` on some path through the loop body): the tree loses a line",
                           construct=f"{q}: loop over {it[:60]}")
    if n < 3:
        raise AnalysisError(f"FMT-3: {n} sub-component loops found (3 confirmed by hand)")
    # child contexts / child task stacks are rendered whether or not there is an inner stack
    fnc = mod.fn("Context._format")
    for loop in [l_ for l_ in ast.walk(fnc) if isinstance(l_, ast.For) and norm(l_.iter) == "self.children"]:
        gs_ = [(norm(gx), pol) for gx, pol in guards_of(mod, loop, fnc)]
        dep = [g_ for g_ in gs_ if "inner_stack" in g_[0]]
        if dep:
            ctx.R.fail("FMT-3", mod, loop, f"Context._format renders the children only under `{'not ' if not dep[0][1] else ''}{dep[0][0]}`: a context that has both an inner stack and children loses all its "
                       "child contexts and child task stacks in the tree", construct="children rendered only without an inner stack")
        else:
            ctx.R.ok("FMT-3", "Context._format renders the children independently of the inner stack")
    # inner stack lines: header dropped, rest extended
    fn = mod.fn("Context._format")
    ext = [c for c in ast.walk(fn) if isinstance(c, ast.Call) and norm(c.func) == "lines.extend"]
    # locals that are, once, self.inner_stack
    ali = {a_.targets[0].id for a_ in walk_scope(fn) if isinstance(a_, ast.Assign) and len(a_.targets) == 1 and isinstance(a_.targets[0], ast.Name) and norm(a_.value) == "self.inner_stack"
           and sum(1 for w_ in walk_scope(fn) if isinstance(w_, ast.Name) and w_.id == a_.targets[0].id and isinstance(w_.ctx, ast.Store)) == 1}
    inner_names = {"self.inner_stack"} | ali
    if len(ext) == 1 and norm(ext[0].args[0]) in {f"{x_}._format(opts)[1:]" for x_ in inner_names}:
        gs = [norm(gx) for gx, pol in guards_of(mod, ext[0], fn) if pol]
        if len(gs) == 1 and gs[0] in {f"{x_} is not None" for x_ in inner_names}:
            ctx.R.ok("FMT-3", "Context._format: inner stack lines follow the context line (its header line dropped)")
        else:
            ctx.R.fail("FMT-3", mod, ext[0], "inner stack lines must be emitted iff there is an inner stack")
    elif len(ext) == 1 and norm(ext[0].args[0]) in {f"{x_}._format(opts)" for x_ in inner_names}:
        ctx.R.fail("FMT-3", mod, ext[0], "Context._format splices the inner stack's lines *with* its header line (`stackscope.Stack ... (most recent call last):`) into the middle of the tree", construct="inner_stack lines")
    elif not any("inner_stack" in norm(n_) for n_ in ast.walk(fn) if isinstance(n_, ast.Attribute)):
        ctx.R.fail("FMT-3", mod, fn, "Context._format must splice the inner stack's lines (without its header) after the context line", construct="inner_stack lines")
    else:
        ctx.R.undecided("FMT-3", "Context._format reads self.inner_stack but the splice of its lines is not in a recognised form")


_NL_SCOPE: List[ast.AST] = []


_NL_MOD: List[Mod] = []


def _helper_keeps_newline(e: ast.AST, ok_vars: Set[str]) -> Optional[bool]:
    """`helper(text)` where helper is a module-level function of one parameter and text ends in a newline: evaluate the helper
    (engine MINI) on a short and on a very long text ending in a newline.  True: every result ends in a newline; False: some
    result does not (the line is no longer newline-terminated for such texts); None: not such a call / outside the fragment"""
    if not (_NL_MOD and isinstance(e, ast.Call) and isinstance(e.func, ast.Name) and len(e.args) == 1 and not e.keywords):
        return None
    mod = _NL_MOD[-1]
    hf = mod.defs.get(e.func.id)
    if not isinstance(hf, ast.FunctionDef) or len(hf.args.args) != 1 or hf.args.vararg or hf.args.kwarg or hf.args.kwonlyargs:
        return None
    if not _ends_nl(e.args[0], ok_vars):
        return None
    from ..minieval import Mini, Raised, Unsupported, _Return
    consts = {}
    for n_ in mod.tree.body:
        if isinstance(n_, (ast.Assign, ast.AnnAssign)) and isinstance(getattr(n_, "value", None), ast.Constant):
            t_ = n_.targets[0] if isinstance(n_, ast.Assign) else n_.target
            if isinstance(t_, ast.Name):
                consts[t_.id] = n_.value.value
    verdict = True
    for text in ("ab\n", "x" * 100000 + "\n", "\n"):
        m = Mini(dict(consts, **{hf.args.args[0].arg: text}), {}, {})
        res = None
        try:
            try:
                for st in hf.body:
                    m.stmt(st)
            except _Return as r:
                res = r.value
        except (Unsupported, Raised):
            return None
        except Exception:
            return None
        if not isinstance(res, str):
            return None
        if not res.endswith("\n") or res.count("\n") != 1:
            verdict = False
    return verdict


def _ends_nl(e: ast.AST, ok_vars: Set[str]) -> bool:
    if isinstance(e, ast.Name) and e.id not in ok_vars and _NL_SCOPE:
        # a local bound once: judge its value
        src = [a_.value for a_ in ast.walk(_NL_SCOPE[-1]) if isinstance(a_, ast.Assign) and len(a_.targets) == 1 and isinstance(a_.targets[0], ast.Name) and a_.targets[0].id == e.id]
        if len(src) == 1 and not (isinstance(src[0], ast.Name) and src[0].id == e.id):
            return _ends_nl(src[0], ok_vars)
    if isinstance(e, ast.Constant) and isinstance(e.value, str):
        return e.value.endswith("\n")
    if isinstance(e, ast.JoinedStr):
        return bool(e.values) and _ends_nl(e.values[-1], ok_vars)
    if isinstance(e, ast.BinOp) and isinstance(e.op, ast.Add):
        return _ends_nl(e.right, ok_vars)
    if isinstance(e, ast.Name):
        return e.id in ok_vars
    if isinstance(e, ast.Call) and isinstance(e.func, ast.Attribute) and e.func.attr == "_format_header":
        return True  # every return of Stack._format_header is itself checked to end in a newline
    if isinstance(e, ast.IfExp):
        return _ends_nl(e.body, ok_vars) and _ends_nl(e.orelse, ok_vars)
    if _helper_keeps_newline(e, ok_vars) is True:
        return True
    # "...{}\n".format(...) / "...%s\n" % (...): the text after the last placeholder is literal
    if isinstance(e, ast.Call) and isinstance(e.func, ast.Attribute) and e.func.attr == "format":
        t = e.func.value
        if isinstance(t, ast.IfExp):
            return all(isinstance(x, ast.Constant) and isinstance(x.value, str) and x.value.endswith("\n") and not x.value.rstrip("\n").endswith("}") or
                       (isinstance(x, ast.Constant) and isinstance(x.value, str) and x.value.endswith("\n")) for x in (t.body, t.orelse))
        return isinstance(t, ast.Constant) and isinstance(t.value, str) and t.value.endswith("\n")
    if isinstance(e, ast.BinOp) and isinstance(e.op, ast.Mod) and isinstance(e.left, ast.Constant) and isinstance(e.left.value, str):
        return e.left.value.endswith("\n")
    return False


def _literal_tail(e: ast.AST) -> bool:
    """does the expression END in a string literal (so that 'no trailing newline' is visible in the text)?"""
    if isinstance(e, ast.Constant) and isinstance(e.value, str):
        return True
    if isinstance(e, ast.JoinedStr):
        return bool(e.values) and isinstance(e.values[-1], ast.Constant)
    if isinstance(e, ast.BinOp) and isinstance(e.op, ast.Add):
        return _literal_tail(e.right)
    if isinstance(e, ast.IfExp):
        return _literal_tail(e.body) and _literal_tail(e.orelse)
    return False


def _surely_no_newline(mod: Mod, fn: ast.AST, e: ast.AST) -> bool:
    """the tail of the expression is a repr() or a .strip()ped text: it cannot end in a newline"""
    if isinstance(e, ast.BinOp) and isinstance(e.op, ast.Add):
        return _surely_no_newline(mod, fn, e.right)
    if isinstance(e, ast.JoinedStr) and e.values:
        last = e.values[-1]
        if isinstance(last, ast.FormattedValue):
            return last.conversion == ord("r") or _surely_no_newline(mod, fn, last.value)
        return False
    if isinstance(e, ast.Call) and (norm(e.func) == "repr" or (isinstance(e.func, ast.Attribute) and e.func.attr in ("strip", "rstrip"))):
        return True
    if _helper_keeps_newline(e, {"line", "subline"}) is False:
        return True  # a helper applied to a finished line returns it without its newline for some texts
    if isinstance(e, ast.Attribute) and e.attr == "linetext":
        return True  # Frame.linetext is documented (and implemented) as stripped text without a newline
    if isinstance(e, ast.Name):
        srcs = [a.value for a in ast.walk(fn) if isinstance(a, ast.Assign) and len(a.targets) == 1 and norm(a.targets[0]) == e.id]
        return bool(srcs) and all(_surely_no_newline(mod, fn, v) for v in srcs)
    return False


def fmt5(ctx: Ctx) -> None:
    mod = ctx.P.mod("_types")
    n = 0
    for q in FORMATTERS + ["Stack.format_flat", "Stack._format_error", "Stack._format_header"]:
        if q == "Stack._format_error" and not mod.has(q):
            continue  # moved / inlined: its lines are seen where they are produced now
        fn = mod.fn(q)
        ctx.R.saw(mod, q)
        _NL_SCOPE.append(fn)
        _NL_MOD.append(mod)
        okv = {"line", "subline"}
        for s in ast.walk(fn):
            exprs: List[ast.AST] = []
            if isinstance(s, ast.Call) and norm(s.func) in ("lines.append", "sublines.append") and s.args:
                exprs = [s.args[0]]
            elif isinstance(s, ast.Assign) and norm(s.targets[0]) == "lines" and isinstance(s.value, ast.List):
                exprs = list(s.value.elts)
            elif isinstance(s, ast.Assign) and norm(s.targets[0]) == "sublines[0]":
                exprs = [s.value]
            elif isinstance(s, ast.Yield) and s.value is not None:
                exprs = [s.value]
            elif isinstance(s, ast.Return) and q == "Stack._format_header" and s.value is not None:
                exprs = [s.value]
            for e in exprs:
                n += 1
                if _ends_nl(e, okv):
                    ctx.R.ok("FMT-5", f"{q}: {norm(e)[:60]}", "newline-terminated")
                elif _surely_no_newline(mod, fn, e):
                    ctx.R.fail("FMT-5", mod, s, f"{q}: a produced line does not end in a newline: str() glues it to the next line", construct=f"{q}: {norm(e)[:80]}")
                elif not _literal_tail(e):
                    ctx.R.undecided("FMT-5", f"{q}: cannot see whether `{norm(e)[:50]}` ends in a newline")
                else:
                    ctx.R.fail("FMT-5", mod, s, f"{q}: a produced line does not end in a newline: str() glues it to the next line", construct=f"{q}: {norm(e)[:80]}")
    del _NL_SCOPE[:]
    del _NL_MOD[:]
    if n < 12:
        raise AnalysisError(f"FMT-5: {n} produced lines found (>= 12 confirmed by hand)")
    # _format_error splits embedded newlines
    fe = mod.fn("Stack._format_error") if mod.has("Stack._format_error") else mod.fn("Stack._format")
    if "splitlines(True)" in norm(fe) or "splitlines(keepends=True)" in norm(fe):
        ctx.R.ok("FMT-5", "traceback chunks are split into single lines keeping their terminators")
    else:
        ctx.R.fail("FMT-5", mod, fe, "multi-line traceback chunks must be split into single newline-terminated lines", construct="splitlines(True)")


def _new_options_at_default(mod: Mod, e: ast.AST) -> ast.AST:
    """`opts.<x>` for an option <x> that the documented interface does not have (a field added to FormatOptions with a default, or
    whose format() keyword has one) is replaced by that default: the documented behaviour is the behaviour with new options left alone"""
    import copy
    DOC = {"ascii_only", "show_contexts", "show_hidden_frames"}
    dflt: Dict[str, ast.AST] = {}
    if mod.has("FormatOptions"):
        for a in mod.fn("FormatOptions").body:
            if isinstance(a, ast.AnnAssign) and isinstance(a.target, ast.Name) and a.target.id not in DOC and isinstance(a.value, ast.Constant):
                dflt[a.target.id] = a.value
    if mod.has("Formattable.format"):
        f = mod.fn("Formattable.format")
        for a, d in zip(f.args.kwonlyargs, f.args.kw_defaults):
            if a.arg not in DOC and isinstance(d, ast.Constant):
                dflt.setdefault(a.arg, d)
    if not dflt:
        return e

    class Sub(ast.NodeTransformer):
        def visit_Attribute(self, n: ast.Attribute):
            if isinstance(n.value, ast.Name) and n.value.id == "opts" and n.attr in dflt and isinstance(dflt[n.attr].value, bool):
                return ast.Constant(value=dflt[n.attr].value)
            return self.generic_visit(n)
    return Sub().visit(copy.deepcopy(e))


def fmt7(ctx: Ctx) -> None:
    mod = ctx.P.mod("_types")
    f = mod.fn("Formattable.format")
    s = mod.fn("Formattable.__str__")
    ctx.R.saw(mod, "Formattable.format")
    opts = [a.arg for a in f.args.kwonlyargs]
    defaults = {a.arg: norm(d) for a, d in zip(f.args.kwonlyargs, f.args.kw_defaults)}
    calls = [c for c in ast.walk(f) if isinstance(c, ast.Call) and norm(c.func) == "FormatOptions"]
    DOC = {"ascii_only": "False", "show_contexts": "True", "show_hidden_frames": "False"}
    fwd = {k.arg: norm(k.value) for k in calls[0].keywords} if len(calls) == 1 else {}
    if len(calls) == 1 and set(DOC) <= set(opts) and all(fwd.get(o) == o for o in DOC) and all(fwd.get(o, o) == o for o in opts):
        extra_o = sorted(set(opts) - set(DOC))
        ctx.R.ok("FMT-7", "format forwards each option to the same-named FormatOptions field" + (f" (further options: {extra_o})" if extra_o else ""))
    elif len(calls) != 1 and set(DOC) <= set(opts):
        ctx.R.undecided("FMT-7", f"format builds FormatOptions {len(calls)} times")
    else:
        ctx.R.fail("FMT-7", mod, f, "format must forward ascii_only / show_contexts / show_hidden_frames to the same-named FormatOptions fields", construct="FormatOptions(...) forwarding")
    if {k_: v_ for k_, v_ in defaults.items() if k_ in DOC} == DOC:
        ctx.R.ok("FMT-7", f"documented defaults {defaults}")
    else:
        ctx.R.fail("FMT-7", mod, f, f"format's documented defaults changed: {defaults}", construct="format defaults")
    rets = [x for x in s.body if isinstance(x, ast.Return)]
    def _joined_format(e: ast.AST) -> Optional[bool]:
        """''.join(<the lines of self.format(), unchanged>)?  True / False (positively something else) / None (not recognised)"""
        if not (isinstance(e, ast.Call) and isinstance(e.func, ast.Attribute) and e.func.attr == "join" and isinstance(e.func.value, ast.Constant) and len(e.args) == 1):
            return None
        if e.func.value.value != "":
            return False
        a0 = e.args[0]
        while isinstance(a0, ast.Call) and isinstance(a0.func, ast.Name) and a0.func.id in ("list", "tuple", "iter") and len(a0.args) == 1:
            a0 = a0.args[0]
        if norm(a0) == "self.format()":
            return True
        if isinstance(a0, (ast.GeneratorExp, ast.ListComp)) and len(a0.generators) == 1 and norm(a0.generators[0].iter) == "self.format()":
            g_ = a0.generators[0]
            return norm(a0.elt) == norm(g_.target) and not g_.ifs          # anything done to a line, or a filter, changes the text
        return None
    jf = _joined_format(rets[0].value) if rets and rets[0].value is not None else None
    if jf:
        ctx.R.ok("FMT-7", "str(x) is the concatenation of format()")
    elif jf is False or not rets:
        ctx.R.fail("FMT-7", mod, s, "__str__ must be ''.join(self.format())")
    else:
        ctx.R.undecided("FMT-7", f"__str__ returns `{norm(rets[0].value)[:60]}`")
    # show_contexts=False prints exactly the frame series
    fr = mod.fn("Frame._format")
    # loops over the frame's contexts, or over something made from them
    derived = {a_.targets[0].id for a_ in walk_scope(fr) if isinstance(a_, ast.Assign) and len(a_.targets) == 1 and isinstance(a_.targets[0], ast.Name) and "self.contexts" in norm(a_.value)}
    ctxloops = [x for x in ast.walk(fr) if isinstance(x, ast.For) and ("self.contexts" in norm(x.iter) or any(isinstance(n_, ast.Name) and n_.id in derived for n_ in ast.walk(x.iter)))]
    if not ctxloops:
        ctx.R.undecided("FMT-7", "Frame._format has no loop over self.contexts")
    for lp in ctxloops:
        gs = guards_of(mod, lp, fr)
        conj = []
        for gx, pol in gs:
            if pol and isinstance(gx, ast.BoolOp) and isinstance(gx.op, ast.And):
                conj += [norm(v_) for v_ in gx.values]
            elif pol:
                conj.append(norm(gx))
        # `todo = self.contexts if opts.show_contexts else ()` (either way round) and a loop over it
        via = [a_ for a_ in walk_scope(fr) if isinstance(a_, ast.Assign) and len(a_.targets) == 1 and isinstance(a_.targets[0], ast.Name) and norm(lp.iter) == a_.targets[0].id and isinstance(a_.value, ast.IfExp)]
        if len(via) == 1 and sum(1 for w_ in walk_scope(fr) if isinstance(w_, ast.Name) and w_.id == via[0].targets[0].id and isinstance(w_.ctx, ast.Store)) == 1:
            ie = via[0].value
            empty = lambda e_: (isinstance(e_, (ast.Tuple, ast.List)) and not e_.elts)
            on_, off_ = (ie.body, ie.orelse) if norm(ie.test) == "opts.show_contexts" else (ie.orelse, ie.body) if norm(ie.test) == "not opts.show_contexts" else (None, None)
            if on_ is not None and norm(on_) == "self.contexts" and empty(off_):
                ctx.R.ok("FMT-7", "contexts are rendered iff show_contexts (the loop runs over `self.contexts if opts.show_contexts else ()`)")
                continue
            ctx.R.undecided("FMT-7", f"Frame._format loops over `{norm(ie)[:60]}`")
            continue
        if isinstance(lp.iter, ast.Name) and lp.iter.id in derived and "self.contexts" not in norm(lp.iter):
            # a local that is () / [] by default and self.contexts under show_contexts
            asg = [a_ for a_ in walk_scope(fr) if isinstance(a_, (ast.Assign, ast.AnnAssign)) and norm(a_.targets[0] if isinstance(a_, ast.Assign) else a_.target) == lp.iter.id and a_.value is not None]
            okd = bool(asg)
            for a_ in asg:
                gtxt = [norm(gx) for gx, pol in guards_of(mod, a_, fr) if pol]
                if isinstance(a_.value, (ast.Tuple, ast.List)) and not a_.value.elts:
                    continue
                if norm(a_.value) == "self.contexts" and gtxt == ["opts.show_contexts"] and all(pol for _g, pol in guards_of(mod, a_, fr)):
                    continue
                okd = False
            if okd and not gs:
                ctx.R.ok("FMT-7", f"contexts are rendered iff show_contexts (`{lp.iter.id}` is empty unless show_contexts)")
            else:
                ctx.R.undecided("FMT-7", f"Frame._format loops over `{lp.iter.id}`, made from self.contexts in a form that is not recognised")
            continue
        if "opts.show_contexts" in conj and norm(lp.iter) == "self.contexts":
            ctx.R.ok("FMT-7", "contexts are rendered iff show_contexts")
        elif "opts.show_contexts" in conj:
            ctx.R.undecided("FMT-7", f"Frame._format loops over `{norm(lp.iter)[:40]}` under show_contexts")
        elif not any("show_contexts" in norm(gx) for gx, _p in gs) and not any(isinstance(x, (ast.Return, ast.Continue)) and any("show_contexts" in norm(gx) for gx, _p in guards_of(mod, x, fr)) for x in ast.walk(fr)):
            ctx.R.fail("FMT-7", mod, lp, "Frame._format must render contexts iff opts.show_contexts", construct="show_contexts guard")
        elif any(pol and isinstance(gx, ast.BoolOp) and isinstance(gx.op, ast.Or) and any(norm(v_) == "opts.show_contexts" for v_ in gx.values) for gx, pol in gs):
            ctx.R.fail("FMT-7", mod, lp, f"Frame._format renders (some of) the frame's contexts under `{norm(gs[-1][0])[:50]}`, i.e. also when show_contexts is off: with show_contexts=False the text must be "
                       "exactly the frame series", construct="show_contexts guard")
        else:
            ctx.R.undecided("FMT-7", "Frame._format: the show_contexts guard of the loop over the contexts is not in a recognised form")


# ===================================================================== C19
def fmt4(ctx: Ctx) -> None:
    """FMT-4 Frame._format omits the frame's own code line exactly when its last context is exiting
    (the summary side of the same rule is decided by the emission table, FMT-13)"""
    mod = ctx.P.mod("_types")
    q = "Frame._format"
    fn = mod.fn(q)
    ctx.R.saw(mod, q)
    cand = [s for s in ast.walk(fn) if isinstance(s, ast.If) and "is_exiting" in norm(s.test)]
    if len(cand) != 1:
        cand = [s for s in fn.body if isinstance(s, ast.If) and "self.contexts" in norm(s.test) and any("start_code" in norm(x) for x in s.body)]
    if len(cand) != 1:
        raise AnalysisError(f"FMT-4: {q}: omission test not found")
    s = cand[0]
    atoms = ["self.contexts", "self.contexts[-1].is_exiting"]
    skip_form = len(s.body) == 1 and isinstance(s.body[0], ast.Return) and not s.orelse and not any("start_code" in norm(x) for x in s.body)     # `if <exiting>: return lines` in front of the code line
    try:
        if skip_form:
            ok, cex = equivalent(s.test, lambda e: e[atoms[0]] and e[atoms[1]], atoms)
        else:
            ok, cex = equivalent(s.test, lambda e: not (e[atoms[0]] and e[atoms[1]]), atoms)
    except AnalysisError as ex:
        ctx.R.undecided("FMT-4", f"{q}: omission test not understood: {ex}")
        return
    if ok:
        ctx.R.ok("FMT-4", f"{q}: the frame's own entry is emitted unless its last context is exiting")
    else:
        ctx.R.fail("FMT-4", mod, s, f"{q}: the frame's own line/entry must be omitted exactly when there are contexts and the last one is exiting; {cex}", construct=f"{q}: omission test")


def fmt6(ctx: Ctx) -> None:
    """no argument of FrameSummary(...) is a frame or an object graph"""
    mod = ctx.P.mod("_types")
    n = 0
    safe_attrs = {"filename", "lineno", "funcname", "start_line", "description"}
    for c in ast.walk(mod.tree):
        if isinstance(c, ast.Call) and norm(c.func) == "traceback.FrameSummary":
            n += 1
            fn = mod.enclosing_def(c)
            q = mod.qualname_of(fn)
            bad = []
            for a in list(c.args) + [k.value for k in c.keywords if k.arg != "locals"]:
                for x in ast.walk(a):
                    if isinstance(x, ast.Attribute) and x.attr in ("pyframe", "obj", "f_locals", "f_globals", "origin", "inner_stack", "children", "contexts"):
                        bad.append(norm(x))
                    if isinstance(x, ast.Name) and x.id in ("self", "parent") and not isinstance(mod.parent_of(x), ast.Attribute):
                        bad.append(x.id)
            lk = [k.value for k in c.keywords if k.arg == "locals"]
            if lk:
                v = lk[0]
                srcs = [v]
                if isinstance(v, ast.Name):
                    srcs = [s.value for s in ast.walk(fn) if isinstance(s, ast.Assign) and norm(s.targets[0]) == v.id]
                for sv in srcs:
                    if isinstance(sv, ast.Constant) and sv.value is None:
                        continue
                    if isinstance(sv, ast.DictComp) and isinstance(sv.value, ast.Call) and norm(sv.value.func) == "repr":
                        continue
                    if isinstance(sv, ast.Dict) and all(_stringy(x) for x in sv.values):
                        continue
                    bad.append(f"locals={norm(sv)[:60]}")
            if bad:
                ctx.R.fail("FMT-6", mod, c, f"{q}: a FrameSummary is given {bad}: the summary would hold a frame / live objects (not picklable, keeps the target alive)", construct=f"{q}: FrameSummary args {bad}")
            else:
                ctx.R.ok("FMT-6", f"{q}: FrameSummary({', '.join(norm(a)[:30] for a in c.args)}, ...)", "strings / ints / dict of repr strings only")
    if n < 2:
        raise AnalysisError("FMT-6: FrameSummary constructions vanished")
    # arguments carry the frame's own filename / lineno / funcname
    fs = mod.fn("Frame.as_stdlib_summary")
    c = [x for x in ast.walk(fs) if isinstance(x, ast.Call) and norm(x.func) == "traceback.FrameSummary"][0]
    def _fs_args(c_: ast.Call) -> List[str]:
        # traceback.FrameSummary(filename, lineno, name, ...): positional or by keyword
        kw_ = {k_.arg: norm(k_.value) for k_ in c_.keywords if k_.arg}
        pos_ = [norm(a_) for a_ in c_.args]
        return [pos_[i_] if i_ < len(pos_) else kw_.get(nm_, "?") for i_, nm_ in enumerate(("filename", "lineno", "name"))]
    if _fs_args(c) == ["self.filename", "self.lineno", "self.funcname"]:
        ctx.R.ok("FMT-6", "Frame.as_stdlib_summary carries (filename, lineno, funcname) in FrameSummary's order")
    else:
        ctx.R.fail("FMT-6", mod, c, "the frame's FrameSummary must carry its filename, line number and function name in that order")
    cs = mod.fn("Context._frame_summaries")
    c = [x for x in ast.walk(cs) if isinstance(x, ast.Call) and norm(x.func) == "traceback.FrameSummary"][0]
    a3 = _fs_args(c)
    if a3[0] == "parent.filename" and a3[1] == "self.start_line or parent.lineno" and a3[2].startswith("parent.funcname"):
        ctx.R.ok("FMT-6", "a context's entry points at the with-line (start_line, else the frame's line) of the parent frame's file/function")
    elif a3[0] == "parent.filename" and a3[2].startswith("parent.funcname") and a3[1] not in ("parent.lineno", "self.start_line", "self.lineno", "0", "None") and "start_line" in norm(cs) and "parent.lineno" in norm(cs):
        ctx.R.undecided("FMT-6", f"a context's FrameSummary takes its line number from `{a3[1]}`, computed from start_line and parent.lineno in a form that is not recognised")
    else:
        ctx.R.fail("FMT-6", mod, c, "a context's FrameSummary must be (parent.filename, start_line or parent.lineno, parent.funcname + info)")


def _stringy(e: ast.AST) -> bool:
    if isinstance(e, ast.Constant) and isinstance(e.value, str):
        return True
    if isinstance(e, ast.JoinedStr):
        return True
    if isinstance(e, ast.Call) and norm(e.func) in ("repr", "str"):
        return True
    if isinstance(e, ast.BoolOp):
        return all(_stringy(x) or (isinstance(x, ast.Attribute) and x.attr == "description") for x in e.values)
    return False


def fmt8(ctx: Ctx) -> None:
    mod = ctx.P.mod("_types")
    fn = mod.fn("Stack.format_flat")
    ctx.R.saw(mod, "Stack.format_flat")
    import copy
    from ..stepper import Stepper, enumerate_table
    from ..emit import Unsupported
    body = copy.deepcopy([s_ for s_ in fn.body if not (isinstance(s_, ast.Expr) and isinstance(s_.value, ast.Constant))])
    FR, LF, ER = "self.frames", "self.leaf is None", "self.error is None"

    def run(assign):
        st = Stepper(assign)
        st.on_loop = lambda loop, env: None
        st.opaque = {"lines"}
        env: Dict[str, ast.AST] = {}
        k, v = st.run(body, env)
        seq = []
        for e in st.effects:
            if e.startswith("lines = "):
                seq.append("HEADER" if e == "lines = [self._format_header()]" else "INIT:" + e[:40])
                continue
            if not e.startswith(("lines.append(", "lines.extend(", "lines +=")):
                continue
            if "as_stdlib_summary(" in e:
                m_ = re.search(r"as_stdlib_summary\(([^()]*)\)\.format\(\)", e)
                kws_ = dict(x.split("=", 1) for x in (m_.group(1).split(", ") if m_ and m_.group(1) else []) if "=" in x) if m_ else None
                good = kws_ is not None and kws_.get("show_contexts") == "show_contexts" and all(k_ == v_ for k_, v_ in kws_.items())
                seq.append("SUMMARY" if good else "SUMMARY?:" + e[:60])
            elif "self.leaf" in e:
                seq.append("LEAF")
            elif "_format_error" in e or "Error while extracting" in e or "self.error" in e:
                seq.append("ERROR")
            else:
                seq.append("OTHER:" + e[:40])
        ret = norm(v) if (k == "return" and v is not None) else k
        return (tuple(seq), ret)

    try:
        atoms, rows = enumerate_table(run, [FR, LF, ER])
    except Unsupported as ex:
        ctx.R.undecided("FMT-8", f"format_flat is outside the step interpreter: {ex}")
        rows = []
    bad = None
    for assign, (seq, ret) in rows:
        want = ("HEADER",) + (("SUMMARY",) if assign[FR] else ()) + (() if assign[LF] else ("LEAF",)) + (() if assign[ER] else ("ERROR",))
        if (seq != want or ret != "lines") and bad is None:
            bad = (assign, seq, ret, want)
    if rows and bad is None:
        ctx.R.ok("FMT-8", "format_flat = header, the stdlib rendering of the summary iff frames, leaf line iff leaf, error lines iff error", f"{len(rows)} combinations of {atoms}")
    elif bad is not None:
        assign, seq, ret, want = bad
        ctx.R.fail("FMT-8", mod, fn, f"format_flat must be: header; StackSummary.format() of as_stdlib_summary(show_contexts=show_contexts) iff there are frames; the leaf line; the error lines. "
                   f"With {dict((k_, v_) for k_, v_ in assign.items())} it produces {list(seq)} (returns {ret}) instead of {list(want)}", construct="format_flat body")
    sm = mod.fn("Stack.as_stdlib_summary")
    r = [s for s in ast.walk(sm) if isinstance(s, ast.Return)]
    if r and all(x.value is not None and norm(x.value).startswith("traceback.StackSummary.from_list(self._frame_summaries(") for x in r):
        ctx.R.ok("FMT-8", "as_stdlib_summary builds a traceback.StackSummary from the frame summaries (on every return)")
    elif r and all(x.value is not None and norm(x.value).startswith("traceback.StackSummary.from_list(") for x in r) and any(norm(x.value).startswith("traceback.StackSummary.from_list(self._frame_summaries(") for x in r):
        # an additional return that builds the list some other way (a fast path): which entries it holds is not decided here
        ctx.R.undecided("FMT-8", "as_stdlib_summary has a return that builds its StackSummary from something other than self._frame_summaries(...)")
    elif any(isinstance(c_, ast.Call) and norm(c_.func) == "self._frame_summaries" for c_ in ast.walk(sm)) and r and all(x.value is not None for x in r) \
            and not any(isinstance(c_, ast.Call) and norm(c_.func).startswith("traceback.") and norm(c_.func).split(".")[-1] in ("extract", "extract_stack", "walk_stack") for c_ in ast.walk(sm)):
        ctx.R.undecided("FMT-8", "as_stdlib_summary consumes self._frame_summaries(...) but does not hand it to StackSummary.from_list directly")
    else:
        ctx.R.fail("FMT-8", mod, sm, "every return of as_stdlib_summary must be traceback.StackSummary.from_list(self._frame_summaries(...)): one entry per visible Frame of this Stack", construct="as_stdlib_summary returns")
    # who may produce summary entries: only the two FrameSummary(...) constructions; re-extracting from live
    # frames (StackSummary.extract / extract_stack / walk_stack ...) obeys sys.tracebacklimit and its own limit/lookup rules
    for n in ast.walk(mod.tree):
        if isinstance(n, ast.Call):
            f = norm(n.func)
            if f.startswith("traceback.") and f.split(".")[-1] in ("extract", "extract_stack", "extract_tb", "walk_stack", "walk_tb", "format_stack", "print_stack", "format_list") \
                    and mod.qualname_of(n) != "Stack._format_error":
                ctx.R.fail("FMT-8", mod, n, f"{mod.qualname_of(n)}: summary entries are re-extracted from live frames with {f}: that API truncates at sys.tracebacklimit / its own limit and "
                           "ignores Frame.lineno and the hidden flags, so frames of the Stack can be missing from the summary", construct=f"{f} in {mod.qualname_of(n)}")


OPTS = {"show_contexts", "show_hidden_frames", "capture_locals"}


def fmt9(ctx: Ctx) -> None:
    """option forwarding agreement between the summary methods"""
    mod = ctx.P.mod("_types")
    targets = {
        "_frame_summaries": {"self": "Stack._frame_summaries", "self.inner_stack": "Stack._frame_summaries", "context": "Context._frame_summaries", "subctx": "Context._frame_summaries"},
        "as_stdlib_summary_with_contexts": {"frame": "Frame.as_stdlib_summary_with_contexts"},
        "as_stdlib_summary": {"frame": "Frame.as_stdlib_summary", "self": None},
    }
    n = 0
    for q in ("Stack.as_stdlib_summary", "Stack._frame_summaries", "Frame.as_stdlib_summary_with_contexts", "Context._frame_summaries", "Stack.format_flat"):
        fn = mod.fn(q)
        ctx.R.saw(mod, q)
        for c in calls_in(fn, scope_only=True):
            if not isinstance(c.func, ast.Attribute) or c.func.attr not in targets:
                continue
            recv = norm(c.func.value)
            tq = targets[c.func.attr].get(recv)
            if recv == "self":
                tq = q.split(".")[0] + "." + c.func.attr
            if tq is None or not mod.has(tq):
                if False:
                    pass
                else:
                    ctx.R.note(f"FMT-9: receiver `{recv}` of {norm(c)[:60]} not in the receiver table; the call is covered by the emission table (FMT-13)")
                    continue
            callee = mod.fn(tq)
            pos = [a.arg for a in callee.args.args[1:]]
            kwonly = [a.arg for a in callee.args.kwonlyargs]
            bound: Dict[str, ast.AST] = {}
            for i, a in enumerate(c.args):
                if i < len(pos):
                    bound[pos[i]] = a
            for k in c.keywords:
                if k.arg:
                    bound[k.arg] = k.value
            for p, a in bound.items():
                if p not in OPTS:
                    continue
                n += 1
                if isinstance(a, ast.Name) and a.id == p:
                    ctx.R.ok("FMT-9", f"{q} -> {tq}: {p}={p}")
                elif isinstance(a, ast.Constant) and isinstance(a.value, bool):
                    if p not in {x.arg for x in fn.args.args + fn.args.kwonlyargs}:
                        ctx.R.ok("FMT-9", f"{q} -> {tq}: {p}={a.value} ({q} has no such option of its own; the value is decided by the emission table)")
                    elif tq == "Stack._frame_summaries" and q == "Context._frame_summaries" and p == "show_contexts" and a.value is True:
                        ctx.R.ok("FMT-9", f"{q} -> {tq}: show_contexts=True (an inner stack is only reached when contexts are shown)")
                    else:
                        ctx.R.fail("FMT-9", mod, c, f"{q} passes the constant {a.value} for option `{p}` of {tq}: the caller's choice is ignored", construct=f"{q} -> {tq}: {p}={a.value}")
                else:
                    ctx.R.fail("FMT-9", mod, c, f"{q} passes `{norm(a)}` for option `{p}` of {tq}: options are crossed", construct=f"{q} -> {tq}: {p}={norm(a)}")
            missing = [p for p in (pos + kwonly) if p in OPTS and p not in bound and p in {a.arg for a in fn.args.args + fn.args.kwonlyargs}]
            for p in missing:
                ctx.R.fail("FMT-9", mod, c, f"{q} does not forward its option `{p}` to {tq}", construct=f"{q} -> {tq}: {p} not forwarded")
    if n < 4:
        raise AnalysisError(f"FMT-9: {n} forwarded options found (>= 4 from Stack.as_stdlib_summary / format_flat alone)")


# ===================================================================== C20
def cont7(ctx: Ctx) -> None:
    mod = ctx.P.mod("_lowlevel")
    fn = mod.fn("contexts_active_in_frame")
    ctx.R.saw(mod, "contexts_active_in_frame")
    tcalls = [c for c in calls_in(fn, True) if norm(c.func) == "_contexts_active_by_trickery"]
    if len(tcalls) != 1:
        raise AnalysisError("CONT-7: trickery call vanished")
    c = tcalls[0]
    tries = enclosing_tries(mod, c)
    bh = broad_handlers(tries[0]) if tries else []
    if not bh:
        ctx.R.fail("CONT-7", mod, c, "the trickery analysis is not inside try/except Exception: a failure raises instead of warning and falling back")
        return
    h = bh[0]
    if any(isinstance(n, ast.Raise) for n in ast.walk(h)):
        ctx.R.fail("CONT-7", mod, h, "the fallback handler re-raises")
    warns = [w for w in ast.walk(h) if isinstance(w, ast.Call) and norm(w.func) == "warnings.warn"]
    if warns and any(norm(a) == "InspectionWarning" for w in warns for a in list(w.args) + [k.value for k in w.keywords]):
        ctx.R.ok("CONT-7", "a trickery failure produces an InspectionWarning")
    else:
        ctx.R.fail("CONT-7", mod, h, "a trickery failure must produce an InspectionWarning", construct="warn InspectionWarning")
    cst = _stmt(mod, c)
    if isinstance(cst, ast.Assign):
        tgt = norm(cst.targets[0])
        fb = [s for s in h.body if isinstance(s, ast.Assign) and norm(s.targets[0]) == tgt and norm(s.value) == "_contexts_active_by_referents(frame, origin)"]
        if fb:
            ctx.R.ok("CONT-7", "and the referents analysis of the same frame (with its origin) is used instead")
        else:
            ctx.R.fail("CONT-7", mod, h, "after a trickery failure the result must come from _contexts_active_by_referents(frame, origin)", construct="fallback assignment")
    else:
        # out-parameter style: the analysis appends to a list it is given
        outs = [norm(a) for a in c.args[1:]] + [norm(k.value) for k in c.keywords]
        fcalls = [x for x in ast.walk(h) if isinstance(x, ast.Call) and norm(x.func) == "_contexts_active_by_referents"]
        if not fcalls or [norm(a) for a in fcalls[0].args[:2]] != ["frame", "origin"]:
            ctx.R.fail("CONT-7", mod, h, "after a trickery failure the result must come from _contexts_active_by_referents(frame, origin)", construct="fallback assignment")
        else:
            shared = [o for o in outs if o in [norm(a) for a in fcalls[0].args[2:]] + [norm(k.value) for k in fcalls[0].keywords]]
            fst = _stmt(mod, fcalls[0])
            resets = [s_ for s_ in h.body if s_.lineno < fst.lineno and any(
                norm(s_) in (f"{o}.clear()", f"del {o}[:]", f"{o}[:] = []", f"{o} = []") for o in shared)]
            if shared and not resets:
                ctx.R.fail("CONT-7", mod, fst, f"the trickery analysis and its fallback both append to the same list `{shared[0]}`, and nothing empties it in the handler: entries the trickery analysis produced before "
                           "it failed stay in front of the referents result (duplicated / half-filled contexts after a warning)", construct="fallback accumulates on the failed analysis' partial result")
            elif shared:
                ctx.R.ok("CONT-7", "the shared result list is emptied before the referents analysis fills it")
            else:
                ctx.R.undecided("CONT-7", "cannot see where the result of the trickery / referents analysis goes")
    gs = [(norm(g), pol) for g, pol in guards_of(mod, c, fn)]
    # an optional per-call override whose default (None) defers to _check_trickery_available():  if p is None: p = _check...();  if p:
    if len(gs) == 1 and gs[0][1] and gs[0][0] in [a.arg for a in fn.args.args + fn.args.kwonlyargs]:
        pn = gs[0][0]
        dflt = {a.arg: d for a, d in zip(fn.args.kwonlyargs, fn.args.kw_defaults)}
        dflt.update({a.arg: d for a, d in zip(fn.args.args[::-1], fn.args.defaults[::-1])})
        fill = [s_ for s_ in fn.body if isinstance(s_, ast.If) and norm(s_.test) == f"{pn} is None" and len(s_.body) == 1 and norm(s_.body[0]) == f"{pn} = _check_trickery_available()" and not s_.orelse]
        if isinstance(dflt.get(pn), ast.Constant) and dflt[pn].value is None and len(fill) == 1 and fill[0].lineno < _stmt(mod, c).lineno:
            gs = [("_check_trickery_available()", True)]
            for x_ in calls_in(fn, True):
                pass
            ctx.R.note(f"CONT-7: optional per-call override `{pn}` (default None defers to the global mode)")
            fn = fn  # the else-branch test below uses the same parameter
            _override = pn
        else:
            _override = None
    else:
        _override = None
    def _pos(pairs):
        # (not X, False) is (X, True)
        return [((g_[4:], not p_) if g_.startswith("not ") and not g_.startswith("not (") else (g_, p_)) for g_, p_ in pairs]
    gs = _pos(gs)
    if gs == [("_check_trickery_available()", True)]:
        other = [x for x in calls_in(fn, True) if norm(x.func) == "_contexts_active_by_referents" and (("_check_trickery_available()", False) in _pos([(norm(g), pol) for g, pol in guards_of(mod, x, fn)])
                                                                                                        or (_override is not None and (_override, False) in [(norm(g), pol) for g, pol in guards_of(mod, x, fn)]))]
        if other and [norm(a) for a in other[0].args[:2]] == ["frame", "origin"]:
            ctx.R.ok("CONT-7", "trickery iff _check_trickery_available(), else referents(frame, origin)")
        else:
            ctx.R.fail("CONT-7", mod, fn, "with trickery disabled the referents analysis must be used", construct="else: referents")
    else:
        ctx.R.fail("CONT-7", mod, c, "trickery must be used iff _check_trickery_available()", construct="mode test")


def _stmt(mod: Mod, n: ast.AST) -> ast.AST:
    while not isinstance(n, ast.stmt):
        n = mod.parent_of(n)
    return n


def _explicit_lock_region(m: Mod, node: ast.AST) -> bool:
    """`_trickery_lock.acquire()` directly followed by `try: ... finally: _trickery_lock.release()`: the try is the locked region"""
    if not (isinstance(node, ast.Try) and any(isinstance(f_, ast.Expr) and norm(f_.value) == "_trickery_lock.release()" for f_ in node.finalbody)):
        return False
    par = m.parent_of(node)
    for fld in ("body", "orelse", "finalbody"):
        blk = getattr(par, fld, None)
        if isinstance(blk, list) and node in blk:
            i = blk.index(node)
            return i > 0 and isinstance(blk[i - 1], ast.Expr) and norm(blk[i - 1].value) == "_trickery_lock.acquire()"
    return False


def mode_rules(ctx: Ctx) -> None:
    mod = ctx.P.mod("_lowlevel")
    sw = mod.toplevel_assign("_can_use_trickery")
    lk = mod.toplevel_assign("_trickery_lock")
    ctx.R.saw(mod, "set_trickery_enabled")
    ctx.R.saw(mod, "_check_trickery_available")
    # MODE-0
    if sw is not None and norm(sw.value) == "None":
        ctx.R.ok("MODE-0", "_can_use_trickery is a plain module-level global initialised to None (auto-detect)")
    else:
        ctx.R.fail("MODE-0", mod, sw, "the mode switch must be a module-level global starting at None: a thread-local or per-instance switch would not take effect on all threads",
                   qualname="_lowlevel._can_use_trickery", construct="_can_use_trickery = None")
    if lk is None or "threading.Lock()" not in norm(lk.value) and "threading.RLock()" not in norm(lk.value):
        ctx.R.fail("MODE-1", mod, lk, "_trickery_lock must be a module-level lock", qualname="_lowlevel._trickery_lock")
    # MODE-1 writers
    writers = {}
    for m in ctx.P.analysed_mods():
        for q, fn in m.defs.items():
            if isinstance(fn, (ast.FunctionDef, ast.AsyncFunctionDef)):
                if any(isinstance(s, ast.Global) and "_can_use_trickery" in s.names for s in walk_scope(fn)):
                    for s in walk_scope(fn):
                        if isinstance(s, (ast.Assign, ast.AugAssign, ast.AnnAssign)):
                            tg = s.targets if isinstance(s, ast.Assign) else [s.target]
                            if any(norm(t) == "_can_use_trickery" for t in tg):
                                writers.setdefault((m.name, q), []).append((m, s))
        for n in ast.walk(m.tree):
            if isinstance(n, ast.Attribute) and n.attr == "_can_use_trickery" and isinstance(n.ctx, ast.Store):
                ctx.R.fail("MODE-1", m, n, "the mode switch is written from outside its two owners")
    allowed = {("_lowlevel", "set_trickery_enabled"), ("_lowlevel", "_check_trickery_available")}

    def callers_of(name: str):
        return [(m_, m_.qualname_of(c_)) for m_ in ctx.P.analysed_mods() for c_ in ast.walk(m_.tree) if isinstance(c_, ast.Call) and norm(c_.func).split(".")[-1] == name]
    for key in [k for k in writers if k not in allowed and k[0] == "_lowlevel" and "." not in k[1]]:
        # a private helper that does the locked store on behalf of user-facing entry points only: set_trickery_enabled itself, or
        # functions nothing in the package calls (new public API); the library still never flips the switch on its own
        cs = callers_of(key[1])
        if cs and all(m_.name == "_lowlevel" and (q_ == "set_trickery_enabled" or (q_ and "." not in q_ and not q_.startswith("_") and not callers_of(q_))) for m_, q_ in cs) \
                and any(q_ == "set_trickery_enabled" for _, q_ in cs) and ("_lowlevel", "set_trickery_enabled") not in writers:
            allowed = (allowed - {("_lowlevel", "set_trickery_enabled")}) | {key}
            ctx.R.note(f"MODE-1: {key[1]} performs the store for set_trickery_enabled (callers: {sorted({q_ for _, q_ in cs})}, none of them called from inside the package)") if hasattr(ctx.R, "note") else None
    for key, sts in writers.items():
        for m, s in sts:
            if key not in allowed:
                ctx.R.fail("MODE-1", m, s, f"_can_use_trickery is written in {key[1]}: only set_trickery_enabled and _check_trickery_available may write it")
            elif not any((isinstance(a, ast.With) and any(norm(i.context_expr) == "_trickery_lock" for i in a.items)) or _explicit_lock_region(m, a) for a in m.ancestors(s)):
                ctx.R.fail("MODE-1", m, s, "the mode switch is written without holding _trickery_lock: a concurrent self-test can overwrite an explicit set_trickery_enabled()")
            else:
                ctx.R.ok("MODE-1", f"{key[1]}: {norm(s)[:60]}", "under _trickery_lock")
    # the switch belongs to the user: stackscope itself never flips it as a side effect of an extraction
    for m in ctx.P.analysed_mods():
        for c_ in ast.walk(m.tree):
            if isinstance(c_, ast.Call) and norm(c_.func).split(".")[-1] == "set_trickery_enabled":
                ctx.R.fail("MODE-1", m, c_, f"{m.name}.{m.qualname_of(c_)} calls set_trickery_enabled: an extraction silently changes the global analysis mode for every later extraction on all threads "
                           "(two extractions of an unchanged target no longer compare equal)", construct=f"internal call {norm(c_)}")
    if set(writers) != allowed:
        raise AnalysisError(f"MODE-1: writers of the switch are {sorted(writers)} (2 confirmed by hand)")
    # MODE-2
    st = mod.fn("set_trickery_enabled")
    p = st.args.args[0].arg
    setter_key = [k for k in allowed if k[1] != "_check_trickery_available"][0]
    if setter_key[1] != "set_trickery_enabled":
        hf = mod.fn(setter_key[1])
        hp = hf.args.args[0].arg if hf.args.args else None
        via = [c_ for c_ in calls_in(st, True) if norm(c_.func) == setter_key[1]]
        if hp is not None and all(norm(s.value) == hp for m, s in writers[setter_key]) and len(via) == 1 and len(via[0].args) == 1 and not via[0].keywords and norm(via[0].args[0]) == p \
                and not any(isinstance(w_, ast.Name) and w_.id == p and isinstance(w_.ctx, ast.Store) for w_ in ast.walk(st)):
            ctx.R.ok("MODE-2", f"set_trickery_enabled stores its argument unchanged through {setter_key[1]} (None restores auto-detection)")
        else:
            ctx.R.undecided("MODE-2", f"set_trickery_enabled stores through {setter_key[1]} in a form that is not recognised")
    elif all(norm(s.value) == p for m, s in writers[("_lowlevel", "set_trickery_enabled")]):
        ctx.R.ok("MODE-2", "set_trickery_enabled stores its argument unchanged (None restores auto-detection)")
    else:
        ctx.R.fail("MODE-2", mod, st, "set_trickery_enabled must store its argument unchanged: None must restore auto-detection, True/False must stick", construct="_can_use_trickery = enabled")
    ck = mod.fn("_check_trickery_available")
    body = [s for s in ck.body if not isinstance(s, ast.Global)]
    first = body[0]
    if isinstance(first, ast.If) and norm(first.test) == "_can_use_trickery is not None" and [norm(x) for x in first.body] == ["return _can_use_trickery"]:
        ctx.R.ok("MODE-2", "an explicit setting is returned as is (fast path)")
    else:
        ctx.R.fail("MODE-2", mod, first, "_check_trickery_available must return the stored value whenever it is not None", construct="fast path")
    w = [s for s in body if isinstance(s, ast.With) or _explicit_lock_region(mod, s)]
    wb0 = ([x_ for x_ in w[0].body if not isinstance(x_, (ast.Assert, ast.Pass))] or [None])[0] if len(w) == 1 else None
    if len(w) == 1 and isinstance(wb0, ast.If) and norm(wb0.test) == "_can_use_trickery is not None" and isinstance(wb0.body[-1], ast.Return):
        ctx.R.ok("MODE-2", "the switch is re-tested after taking the lock (a concurrent set_trickery_enabled wins over auto-detection)")
    else:
        ctx.R.fail("MODE-2", mod, ck, "the switch must be re-tested after acquiring the lock", construct="re-test under lock")
    last = body[-1]
    if isinstance(last, ast.Return) and norm(last.value) == "_can_use_trickery":
        ctx.R.ok("MODE-2", "the function returns the switch")
    else:
        ctx.R.fail("MODE-2", mod, last, "_check_trickery_available must return the switch value")
    # MODE-3 failing self-test
    hs = [h for t in contains(ck, ast.Try) for h in t.handlers if h.type is not None and "Exception" in norm(h.type)
          and not (len(h.body) == 1 and isinstance(h.body[0], ast.Raise) and h.body[0].exc is None)]        # a handler that only re-raises handles nothing
    if len(hs) == 1:
        h = hs[0]
        warn_ok = any(isinstance(c, ast.Call) and norm(c.func) == "warnings.warn" and any(norm(a) == "InspectionWarning" for a in c.args) for c in ast.walk(h))
        store_ok = any(isinstance(s, ast.Assign) and norm(s) == "_can_use_trickery = False" for s in h.body)
        if not store_ok and not any(isinstance(s, ast.Assign) and norm(s.targets[0]) == "_can_use_trickery" for s in ast.walk(h)):
            # False stored before the try, nothing stored inside the try body except as its last statement: still False in the handler
            tr = [t for t in contains(ck, ast.Try) if h in t.handlers][0]
            g = ctx.cfg(ck)
            pre = [s for s in ast.walk(ck) if isinstance(s, ast.Assign) and norm(s) == "_can_use_trickery = False" and not in_body(tr.body, s, mod)
                   and g.dominates(g.node_of(s), g.node_of(tr))]
            inner = [s for s in ast.walk(ast.Module(body=tr.body, type_ignores=[])) if isinstance(s, ast.Assign) and norm(s.targets[0]) == "_can_use_trickery"]
            between = [s for s in ast.walk(ck) if isinstance(s, ast.Assign) and norm(s.targets[0]) == "_can_use_trickery" and s not in pre and s not in inner
                       and not in_body(tr.orelse, s, mod) and not in_body(tr.finalbody, s, mod)
                       and pre and g.node_of(s).idx in g.reachable_from(g.node_of(pre[0])) and g.node_of(tr).idx in g.reachable_from(g.node_of(s))]
            if pre and not between and all(s is tr.body[-1] for s in inner):
                store_ok = True
        if warn_ok and store_ok and not any(isinstance(n, ast.Raise) for n in ast.walk(h)):
            ctx.R.ok("MODE-3", "a failing self-test warns (InspectionWarning) and disables trickery")
        else:
            ctx.R.fail("MODE-3", mod, h, "a failing self-test must warn with InspectionWarning and store False (never raise)", construct="self-test handler")
    else:
        ctx.R.fail("MODE-3", mod, ck, "the trickery self-test is not guarded by except Exception", construct="self-test handler")


def mode4(ctx: Ctx) -> None:
    """MODE-4 no provisional False: the mode switch is read without the lock (fast path), so a value stored during
    auto-detection is visible to concurrent extractions at once; storing False first and True after the self-test makes them
    silently take the referents fallback (contexts of running frames come back empty)"""
    mod = ctx.P.mod("_lowlevel")
    ck = mod.fn("_check_trickery_available")
    ctx.R.saw(mod, "_check_trickery_available")
    g = ctx.cfg(ck)
    stores = [s for s in ast.walk(ck) if isinstance(s, ast.Assign) and len(s.targets) == 1 and norm(s.targets[0]) == "_can_use_trickery"]
    if not stores:
        raise AnalysisError("MODE-4: _check_trickery_available no longer stores the switch")
    bad = None
    for s1 in stores:
        if not (isinstance(s1.value, ast.Constant) and s1.value.value is False):
            continue
        r = g.reachable_from(g.node_of(s1))
        for s2 in stores:
            if s2 is not s1 and g.node_of(s2).idx in r and not (isinstance(s2.value, ast.Constant) and s2.value.value is False):
                bad = (s1, s2)
    if bad:
        ctx.R.fail("MODE-4", mod, bad[0], f"the switch is set to False at line {bad[0].lineno} and may be set to `{norm(bad[1].value)[:40]}` at line {bad[1].lineno} later in the same detection: "
                   "the lock-free fast path of a concurrent extraction returns the provisional False, and that extraction silently uses the referents fallback", construct="provisional False before the self-test")
    else:
        ctx.R.ok("MODE-4", f"{len(stores)} store(s) of the switch during auto-detection; none is a False that is later replaced")


def ref1(ctx: Ctx) -> None:
    mod = ctx.P.mod("_lowlevel")
    fn = mod.fn("_contexts_active_by_referents")
    ctx.R.saw(mod, "_contexts_active_by_referents")
    reach = ctx.reach(mod)
    loops = [s for s in fn.body if isinstance(s, ast.For) and "gc.get_referents(" in norm(s.iter)]
    if len(loops) != 1:
        deep = [s for s in ast.walk(fn) if isinstance(s, ast.For) and "gc.get_referents(" in norm(s.iter)]
        at = deep[0] if len(deep) == 1 else None
        if at is None:
            # for r in <local>: where the local is gc.get_referents(...) on some paths only
            for l_ in [x for x in ast.walk(fn) if isinstance(x, ast.For) and isinstance(x.iter, ast.Name)]:
                srcs = [a_ for a_ in ast.walk(fn) if isinstance(a_, ast.Assign) and len(a_.targets) == 1 and norm(a_.targets[0]) == l_.iter.id and "gc.get_referents(" in norm(a_.value)]
                if len(srcs) == 1:
                    deep, at = [l_], srcs[0]
        if len(deep) == 1 and at is not None:
            from .opcodes import path_guards_of
            gsd = [(norm(gx), pol) for gx, pol in path_guards_of(mod, at, fn)]
            running = [g_ for g_ in gsd if "_running" in g_[0]]
            if running:
                ctx.R.fail("REF-3", mod, deep[0], f"the referent scan is skipped when `{'not ' if not running[0][1] else ''}{running[0][0][:70]}`: an async generator parked at an `await` inside asend()/__anext__ has "
                           "ag_running set although its frame is suspended (and a frame's own generator can be marked running while a callee is observed), so active managers are missing from the fallback result",
                           construct="referent scan skipped for running generators")
                return
        raise AnalysisError("REF-1: referent scan vanished")
    loop = loops[0]
    rv = norm(loop.target)
    # REF-2: every bound exit method among the referents yields its own entry: nothing de-duplicates them (a re-entrant manager
    # entered twice is two active contexts; bound methods compare equal when they are the same method of the same object)
    dedup = None
    for st in ast.walk(loop):
        if isinstance(st, ast.If):
            for c_ in ast.walk(st.test):
                if isinstance(c_, ast.Compare) and len(c_.ops) == 1 and isinstance(c_.ops[0], (ast.In, ast.NotIn)) and isinstance(c_.comparators[0], ast.Name):
                    cont = c_.comparators[0].id
                    is_local_container = any(isinstance(a_, (ast.Assign, ast.AnnAssign)) and norm(a_.targets[0] if isinstance(a_, ast.Assign) else a_.target) == cont
                                             and a_.value is not None and (isinstance(a_.value, (ast.Set, ast.List, ast.Dict)) or (isinstance(a_.value, ast.Call) and norm(a_.value.func) in ("set", "list", "dict")))
                                             for a_ in ast.walk(fn))
                    if is_local_container and (rv in norm(c_.left)):
                        dedup = (st, c_)
    if dedup:
        ctx.R.fail("REF-2", mod, dedup[0], f"the referent scan skips a bound exit method when `{norm(dedup[1])}`: bound methods (and managers) compare by value, so a manager that is entered twice in the frame "
                   "(a re-entrant lock, nullcontext()) is listed once: an active context is missing", construct="referents de-duplicated by equality")
    else:
        ctx.R.ok("REF-2", "every matching referent yields its own Context (no de-duplication)")
    if not isinstance(loop.iter, ast.Call) or not loop.iter.args:
        ctx.R.undecided("REF-1", f"the referent scan iterates over `{norm(loop.iter)[:60]}`, not over gc.get_referents(<one root>)")
        return
    rootv = norm(loop.iter.args[0])
    ifs = [s for s in loop.body if isinstance(s, ast.If)]
    if len(ifs) != 1:
        raise AnalysisError("REF-1: method filter vanished")
    conj = [norm(x) for x in ifs[0].test.values] if isinstance(ifs[0].test, ast.BoolOp) and isinstance(ifs[0].test.op, ast.And) else [norm(ifs[0].test)]
    if f"isinstance({rv}, types.MethodType)" in conj and f"{rv}.__func__.__name__ in ('__exit__', '__aexit__')" in conj:
        ctx.R.ok("REF-1", "a referent counts iff it is a bound method named __exit__ / __aexit__")
    else:
        ctx.R.fail("REF-1", mod, ifs[0], "active managers are found as bound methods named __exit__ or __aexit__ among the referents", construct="referent filter")
    cc = [c for c in ast.walk(ifs[0]) if isinstance(c, ast.Call) and norm(c.func) == "Context"]
    if len(cc) == 1:
        k = {x.arg: norm(x.value) for x in cc[0].keywords}
        if k.get("obj") == f"{rv}.__self__":
            ctx.R.ok("REF-1", "obj is the method's __self__")
        else:
            ctx.R.fail("REF-1", mod, cc[0], "obj must be the bound method's __self__ (the manager)", construct="referents obj")
        if k.get("is_async") in (f"'a' in {rv}.__func__.__name__", f"{rv}.__func__.__name__ == '__aexit__'", f"{rv}.__func__.__name__.startswith('__a')"):
            ctx.R.ok("REF-1", "is_async is derived from the method name")
        else:
            ctx.R.fail("REF-1", mod, cc[0], f"is_async must be derived from the method name (__aexit__); found {k.get('is_async')}", construct="referents is_async")
        app = mod.parent_of(cc[0])
        if not (isinstance(app, ast.Call) and norm(app.func) == "ret.append"):
            ctx.R.fail("REF-1", mod, cc[0], "managers must be appended in referent order", construct="ret.append")
    else:
        ctx.R.fail("REF-1", mod, ifs[0], "one Context per matching referent", construct="Context construction")
    # root: the owning generator on 3.11+
    roots = [s for s in ast.walk(fn) if isinstance(s, ast.Assign) and norm(s.targets[0]) == rootv]
    inits = [s for s in fn.body if isinstance(s, (ast.Assign, ast.AnnAssign)) and norm(s.targets[0] if isinstance(s, ast.Assign) else s.target) == rootv]
    sw = [s for s in roots if norm(s.value) == "origin"]
    ok = False
    if sw:
        live = reach.at(sw[0])
        gs = [gx for gx, pol in guards_of(mod, sw[0], fn) if pol]
        has_isinst = any("isinstance(origin," in norm(gx) and all(t in norm(gx) for t in ("GeneratorType", "CoroutineType", "AsyncGeneratorType")) for gx in gs)
        ok = live == frozenset({"3.11", "3.12"}) and has_isinst
    if ok and any(norm(s.value) == "frame" for s in inits):
        ctx.R.ok("REF-1", "the scan is rooted at the frame, and at the owning generator/coroutine exactly on CPython >= 3.11 (where the generator owns the value stack)")
    else:
        ctx.R.fail("REF-1", mod, fn, "the referent scan must start from the frame on 3.9/3.10 and from the owning generator/coroutine/async generator on 3.11/3.12", construct="referents root selection")


def fmt10_11(ctx: Ctx) -> None:
    """FMT-10 the first line of a sub-component gets the start marker, the following ones the continuation marker;
    FMT-11 leaf and error are rendered iff present (tree and flat format)"""
    mod = ctx.P.mod("_types")
    n = 0
    for q in FORMATTERS:
        fn = mod.fn(q)
        for e in ast.walk(fn):
            test = a = b = None
            if isinstance(e, ast.IfExp) and isinstance(e.body, ast.Name) and isinstance(e.orelse, ast.Name):
                test, a, b = e.test, e.body.id, e.orelse.id
            if test is None or "idx" not in norm(test):
                continue
            n += 1
            t = norm(test)
            first_is_body = t in ("idx == 0", "not idx", "0 == idx")
            first_is_else = t in ("idx != 0", "idx", "idx > 0", "idx >= 1")
            if not (first_is_body or first_is_else):
                ctx.R.undecided("FMT-10", f"{q}: marker choice `{norm(e)}` not understood")
                continue
            first, rest = (a, b) if first_is_body else (b, a)
            if first.startswith("start_") and rest.startswith("continue_"):
                ctx.R.ok("FMT-10", f"{q}: first line {first}, following lines {rest}")
            elif first.startswith("continue_") and rest.startswith("start_"):
                ctx.R.fail("FMT-10", mod, e, f"{q}: the first line of a sub-component gets the continuation marker `{first}` and the following lines the start marker `{rest}`: "
                           "every component then reads as a continuation of the previous one followed by new components", construct=f"{q}: {norm(e)}")
            else:
                ctx.R.undecided("FMT-10", f"{q}: marker names `{first}` / `{rest}` not recognised")
        # if idx == 0: lines.append(start_X + line) elif ...: ... else: lines.append(continue_X + line)
        for st in ast.walk(fn):
            if isinstance(st, ast.If) and norm(st.test) in ("idx == 0", "not idx") and st.body and isinstance(st.body[0], ast.Expr):
                n += 1
                tb = norm(st.body[0])
                if "start_" in tb and "continue_" not in tb:
                    ctx.R.ok("FMT-10", f"{q}: idx == 0 -> {tb[:50]}")
                elif "continue_" in tb:
                    ctx.R.fail("FMT-10", mod, st, f"{q}: the first line of a context gets a continuation marker", construct=f"{q}: idx == 0 -> {tb[:60]}")
            elif isinstance(st, ast.If) and norm(st.test) in ("idx != 0", "idx") and st.body and isinstance(st.body[0], ast.Expr) and "start_context +" in norm(st.body[0]):
                ctx.R.fail("FMT-10", mod, st, f"{q}: a continuation line of a context gets the start marker", construct=f"{q}: idx != 0 -> start marker")
    if n < 3:
        ctx.R.undecided("FMT-10", f"only {n} marker choices by line index found")
    # FMT-11
    for q, leaf_mark in (("Stack._format", "start_leaf"), ("Stack.format_flat", "Target of innermost frame")):
        fn = mod.fn(q)
        for what, attr, needle in (("leaf", "self.leaf", leaf_mark), ("error", "self.error", "self._format_error()")):
            sites = [st for st in ast.walk(fn) if isinstance(st, ast.Expr) and isinstance(st.value, ast.Call) and norm(st.value.func) in ("lines.append", "lines.extend")
                     and (needle in norm(st) or (what == "leaf" and "self.leaf" in norm(st)) or (what == "error" and "_format_error" in norm(st))
                          or any(isinstance(a_, ast.If) and attr in norm(a_.test) for a_ in mod.ancestors(st) if any(a_ is x for x in ast.walk(fn))))]
            if not sites:
                ctx.R.fail("FMT-11", mod, fn, f"{q} never renders the {what}: it cannot be recovered from the text", construct=f"{q}: {what} line missing")
                continue
            gs = guards_of(mod, sites[0], fn)
            atom = f"{attr} is None"
            from ..util import Atomizer
            if len(gs) == 1:
                try:
                    g0 = _new_options_at_default(mod, gs[0][0])
                    ok, cex = equivalent(g0 if gs[0][1] else ast.UnaryOp(op=ast.Not(), operand=g0), lambda e_: not e_[atom], [atom])
                except AnalysisError as ex:
                    ctx.R.undecided("FMT-11", f"{q}: guard of the {what} line not understood")
                    continue
                if ok:
                    ctx.R.ok("FMT-11", f"{q}: {what} rendered iff {attr} is not None")
                else:
                    ctx.R.fail("FMT-11", mod, sites[0], f"{q}: the {what} must be rendered exactly when {attr} is not None; counterexample {cex}", construct=f"{q}: {what} guard")
            else:
                ctx.R.undecided("FMT-11", f"{q}: {what} line is under {len(gs)} guards")
    if not mod.has("Stack._format_error"):
        ctx.R.note("FMT-11: Stack._format_error no longer exists as a generator; the error lines are checked where they are produced")
        return
    fe = mod.fn("Stack._format_error")
    ys = [y for y in ast.walk(fe) if isinstance(y, ast.Yield) and y.value is not None]
    yfs = [y for y in ast.walk(fe) if isinstance(y, ast.YieldFrom)]
    if len(ys) >= 2 and any("subline" in norm(y.value) or "line" in norm(y.value) for y in ys[1:]):
        ctx.R.ok("FMT-11", "_format_error yields a heading and every line of the formatted exception")
    elif ys and yfs:
        ctx.R.undecided("FMT-11", f"_format_error hands its lines on with `yield from {norm(yfs[0].value)[:50]}`")
    elif len(ys) < 2:
        ctx.R.fail("FMT-11", mod, fe, "_format_error no longer yields the lines of the formatted exception: the error's text is lost", construct="_format_error yields")
    else:
        ctx.R.undecided("FMT-11", "_format_error yields not understood")
    # what the text is made from, and how it is indented: two ways of losing part of it that are visible in the code
    calls = [c for c in ast.walk(fe) if isinstance(c, ast.Call)]
    whole = [c for c in calls if norm(c.func) in ("traceback.format_exception", "format_exception") or (isinstance(c.func, ast.Attribute) and c.func.attr == "format" and "TracebackException" in norm(c.func.value))]
    parts = [c for c in calls if isinstance(c.func, ast.Attribute) and (c.func.attr == "format_exception_only" or (c.func.attr == "format" and norm(c.func.value).endswith(".stack")))]
    nochain = [c for c in calls if any(k_.arg == "chain" and isinstance(k_.value, ast.Constant) and k_.value.value is False for k_ in c.keywords)]
    if nochain or (parts and not whole):
        at = (nochain or parts)[0]
        ctx.R.fail("FMT-11", mod, at, f"_format_error builds the error text from `{norm(at)[:60]}`: only the outermost exception's own frames and message are rendered; the exceptions it was raised from "
                   "(__cause__ / __context__) and the members of an ExceptionGroup -- which is what Stack.error is when several faults were recorded -- are missing from the text", construct="_format_error: exception rendered without its chain")
    elif whole:
        ctx.R.ok("FMT-11", f"_format_error renders the whole exception ({norm(whole[0].func)})")
    ti = [c for c in calls if norm(c.func) in ("textwrap.indent", "indent") and len(c.args) + len(c.keywords) < 3]
    if ti:
        ctx.R.fail("FMT-11", mod, ti[0], f"_format_error indents with `{norm(ti[0])[:50]}`: textwrap.indent leaves whitespace-only lines without the prefix, so blank lines inside the error text (multi-line messages, "
                   "source lines) are not indented like the rest and a reader splitting the section by its indentation cuts it there", construct="_format_error: textwrap.indent skips blank lines")


def fmt12(ctx: Ctx) -> None:
    """FMT-12 locals are captured iff requested; documented defaults (that every visible frame yields its entries is FMT-13)"""
    mod = ctx.P.mod("_types")
    for q in ("Frame.as_stdlib_summary", "Context._frame_summaries"):
        f2 = mod.fn(q)
        builds = [a for a in ast.walk(f2) if isinstance(a, ast.Assign) and norm(a.targets[0]) == "save_locals" and isinstance(a.value, (ast.Dict, ast.DictComp))]
        for b in builds:
            gs = nguards(mod, b, f2)
            if ("capture_locals", True) in gs:
                ctx.R.ok("FMT-12", f"{q}: locals captured only when capture_locals")
            elif ("capture_locals", False) in gs:
                ctx.R.fail("FMT-12", mod, b, f"{q}: locals are captured exactly when capture_locals is False", construct=f"{q}: capture_locals inverted")
            else:
                ctx.R.undecided("FMT-12", f"{q}: guard of the locals capture not understood")
    want = {"Stack.as_stdlib_summary": {"show_contexts": "False", "show_hidden_frames": "False", "capture_locals": "False"},
            "Stack.format_flat": {"show_contexts": "False"},
            "Frame.as_stdlib_summary": {"capture_locals": "False"},
            "Frame.as_stdlib_summary_with_contexts": {"show_hidden_frames": "False", "capture_locals": "False"}}
    for q, w in want.items():
        f2 = mod.fn(q)
        d = {a.arg: norm(v) for a, v in zip(f2.args.kwonlyargs, f2.args.kw_defaults) if v is not None}
        extra_d = {k_: v_ for k_, v_ in d.items() if k_ not in w}
        if {k_: v_ for k_, v_ in d.items() if k_ in w} == w and all(v_ in ("False", "None", "True") or v_.lstrip("-").isdigit() for v_ in extra_d.values()):
            ctx.R.ok("FMT-12", f"{q}: documented defaults {w}" + (f" (further options, off by default: {sorted(extra_d)})" if extra_d else ""))
        else:
            ctx.R.fail("FMT-12", mod, f2, f"{q}: documented defaults are {w}, found {d}", construct=f"{q} defaults {d}")


def _stmt(mod: Mod, n: ast.AST) -> ast.AST:
    while not isinstance(n, ast.stmt):
        n = mod.parent_of(n)
    return n


# --------------------------------------------------------------------- FMT-13 emission tables
def _wild_eq(actual, expected) -> bool:
    """structural equality where the string "*" in `expected` matches anything"""
    if expected == "*":
        return True
    iskw = lambda t_: isinstance(t_, tuple) and t_ and all(isinstance(x, tuple) and len(x) == 2 and isinstance(x[0], str) for x in t_)
    if iskw(expected) and iskw(actual) and len(actual) > len(expected):
        # a keyword table: options the reference interface does not have are accepted at a constant (their default);
        # the documented ones must agree
        ed, ad = dict(expected), dict(actual)
        if set(ed) <= set(ad) and all(ad[k_] in ("True", "False", "None") or ad[k_] == k_ for k_ in set(ad) - set(ed)):     # ... or handed on under their own name
            return all(_wild_eq(ad[k_], ed[k_]) for k_ in ed)
    if isinstance(expected, tuple) and isinstance(actual, tuple):
        return len(actual) == len(expected) and all(_wild_eq(a, e) for a, e in zip(actual, expected))
    return actual == expected


def _kw(**k) -> tuple:
    return tuple(sorted(k.items()))


def _emission_rule(ctx: Ctx, rule: str, qual: str, units, known: List[str], expected, what: str) -> Set[str]:
    from .. import emit
    mod = ctx.P.mod("_types")
    fn = mod.fn(qual)
    ctx.R.saw(mod, qual)
    a = fn.args
    bound = {p.arg: ast.Name(id=p.arg, ctx=ast.Load()) for p in a.posonlyargs + a.args[1:] + a.kwonlyargs}
    try:
        atoms, rows, visited = emit.table(mod, units, qual, ast.Name(id="self", ctx=ast.Load()), bound, known)
    except emit.Unsupported as ex:
        ctx.R.undecided(rule, f"{qual}: shape outside the emission interpreter: {ex}")
        return set()
    extra = [x for x in atoms if x not in known]
    groups: Dict[tuple, List] = {}
    for assign, items in rows:
        key = tuple(assign[k] for k in known)
        exp = emit.prune(expected(assign), assign)
        groups.setdefault(key, []).append((assign, items, exp, _wild_eq(items, exp)))
    bad_all, bad_some = [], []
    for key, lst in groups.items():
        wrong = [r for r in lst if not r[3]]
        if not wrong:
            continue
        (bad_all if len(wrong) == len(lst) else bad_some).append(wrong[0])
    def _subject(a: str) -> str:
        # the expression an atom is about: strip `len(...)`, `... is None`, comparisons with constants
        a = re.sub(r" (is None|is not None|== \S+|!= \S+|[<>]=? \d+)$", "", a)
        m = re.fullmatch(r"(len|bool)\((.*)\)", a)
        return m.group(2) if m else a
    dependent = [x for x in extra if _subject(x) in known or _subject(x) in {_subject(k) for k in known} or " if " in x
                 or re.search(r"(\bself|\bparent|\[\*\]|\[-?\d+\])\.\w+\(", x)]
    for nm in sorted(visited):
        ctx.R.saw(mod, nm)
    if not bad_all and not bad_some:
        ctx.R.ok(rule, f"{qual}: {what}", f"{len(rows)} truth assignments of {atoms}; inlined {sorted(visited)}")
        return visited
    if bad_all or not dependent:
        assign, items, exp, _ = (bad_all or bad_some)[0]
        shown = {k: v for k, v in assign.items() if k in known or (not bad_all)}
        at = fn
        ctx.R.fail(rule, mod, at, f"{qual}: {what}; with {shown} it emits [{emit.show(items)}] where [{emit.show(exp)}] is required",
                   construct=f"{qual}: emission under {_short(shown)}")
    else:
        assign, items, exp, _ = bad_some[0]
        ctx.R.undecided(rule, f"{qual}: differs from the required emission only for some values of {dependent}, which may depend on the other conditions: {assign}")
    return visited


def _short(assign: Dict[str, bool]) -> str:
    return ",".join(f"{'' if v else '!'}{k}" for k, v in sorted(assign.items()))


def fmt13(ctx: Ctx) -> None:
    """FMT-13 emission tables of the summary generators, decided for every truth assignment of the conditions they test
    (helper methods inlined, parameters substituted): Stack._frame_summaries yields, for each frame in order, nothing if it is
    hidden and hidden frames are not shown; else with contexts: the series of each context, then the frame's own entry unless
    the last context is exiting; else exactly the frame's own entry.  Same for Frame.as_stdlib_summary_with_contexts and for the
    series of one context (own entry, inner stack with contexts, child contexts)."""
    F = "self.frames[*]"
    cl, shf = "capture_locals", "show_hidden_frames"

    def frame_series(fr: str, assign) -> tuple:
        ctxs = ("LOOP", f"{fr}.contexts", (("UNIT", "Context._frame_summaries", f"{fr}.contexts[*]",
                                            _kw(capture_locals=cl, override_line="None", parent=fr, show_hidden_frames=shf)),))
        own = ("OWN", fr, _kw(capture_locals=cl))
        if assign[f"{fr}.contexts"] and assign[f"{fr}.contexts[-1].is_exiting"]:
            return (ctxs,)
        return (ctxs, own)

    def exp_stack(assign) -> tuple:
        if assign[f"{F}.hide"] and not assign[shf]:
            per: tuple = ()
        elif assign["show_contexts"]:
            per = frame_series(F, assign)
        else:
            per = (("OWN", F, _kw(capture_locals=cl)),)
        return (("LOOP", "self.frames", per),)

    units = {"Frame.as_stdlib_summary": "OWN", "Context._frame_summaries": "UNIT"}
    v1 = _emission_rule(ctx, "FMT-13", "Stack._frame_summaries", units,
                        [f"{F}.hide", shf, "show_contexts", f"{F}.contexts", f"{F}.contexts[-1].is_exiting"], exp_stack,
                        "one entry (or the with-contexts series) per visible frame, in order, in both modes")
    v2 = _emission_rule(ctx, "FMT-13", "Frame.as_stdlib_summary_with_contexts", units,
                        ["self.contexts", "self.contexts[-1].is_exiting"], lambda a: frame_series("self", a),
                        "each context's series, then the frame's own entry unless the last context is exiting")

    def exp_context(assign) -> tuple:
        if assign["self.hide"] and not assign[shf]:
            return ()
        out: tuple = (("FS",),)
        if not assign["self.inner_stack is None"]:
            out += (("UNIT", "Stack._frame_summaries", "self.inner_stack", _kw(capture_locals=cl, show_contexts="True", show_hidden_frames=shf)),)
        if assign["isinstance(self.children[*], Context)"]:
            out += (("LOOP", "self.children", (("UNIT", "Context._frame_summaries", "self.children[*]",
                                                 _kw(capture_locals=cl, override_line="*", parent="parent", show_hidden_frames=shf)),)),)
        return out

    units3 = {"Frame.as_stdlib_summary": "OWN", "Context._frame_summaries": "UNIT", "Stack._frame_summaries": "UNIT"}
    v3 = _emission_rule(ctx, "FMT-13", "Context._frame_summaries", units3,
                        ["self.hide", shf, "self.inner_stack is None", "isinstance(self.children[*], Context)"], exp_context,
                        "nothing if hidden; else its own entry, its inner stack (contexts shown), then its child contexts")
    ctx.R.expect_min("FMT-13", 3)


def fmt14(ctx: Ctx) -> None:
    """FMT-14 rendering is a function of the tree and of *all* format options: a formatting method that stores what it rendered
    on the object (a memo) must key it by every field of FormatOptions -- the options travel down to nested contexts and stacks
    through `opts`, so a field the method does not read itself (show_hidden_frames in Frame._format) still changes its output.
    Today no formatting method stores anything on self."""
    mod = ctx.P.mod("_types")
    fo = mod.fn("FormatOptions")
    fields = [s_.target.id for s_ in fo.body if isinstance(s_, ast.AnnAssign) and isinstance(s_.target, ast.Name)]
    if len(fields) < 3:
        raise AnalysisError(f"FMT-14: FormatOptions fields {fields}")

    def findings(fn: ast.AST) -> List[Tuple[ast.AST, List[str]]]:
        out = []
        params = [a.arg for a in fn.args.args]
        optv = next((p_ for p_ in params if p_ in ("opts", "options")), None)
        for st in ast.walk(fn):
            tg = None
            if isinstance(st, ast.Assign) and len(st.targets) == 1:
                tg = st.targets[0]
            elif isinstance(st, ast.AugAssign):
                tg = st.target
            if tg is None:
                continue
            key = None
            if isinstance(tg, ast.Subscript) and isinstance(tg.value, ast.Attribute) and norm(tg.value.value) == "self":
                key = tg.slice
            elif isinstance(tg, ast.Attribute) and norm(tg.value) == "self":
                key = ast.Tuple(elts=[], ctx=ast.Load())
            else:
                continue
            # resolve the key through a local assignment
            if isinstance(key, ast.Name):
                src = [a_.value for a_ in ast.walk(fn) if isinstance(a_, ast.Assign) and len(a_.targets) == 1 and norm(a_.targets[0]) == key.id]
                if len(src) == 1:
                    key = src[0]
            used = {x.attr for x in ast.walk(key) if isinstance(x, ast.Attribute) and optv is not None and norm(x.value) == optv}
            if optv is not None and any(isinstance(x, ast.Name) and x.id == optv for x in ast.walk(key) if not isinstance(mod_parent(x), ast.Attribute)):
                used = set(fields)  # keyed by the options object as a whole
            missing = [f_ for f_ in fields if f_ not in used]
            out.append((st, missing))
        return out

    parent = {}
    def mod_parent(x):
        return parent.get(id(x))

    n = 0
    example = ast.parse("def _format(self, opts):\n    key = (opts.ascii_only, opts.show_contexts)\n    self._rendered[key] = lines\n").body[0]
    for a_ in ast.walk(example):
        for ch in ast.iter_child_nodes(a_):
            parent[id(ch)] = a_
    ex = findings(example)
    ctx.R.positive_example("FMT-14", bool(ex and "show_hidden_frames" in ex[0][1] and "ascii_only" not in ex[0][1]))
    for q, fn in mod.defs.items():
        if not isinstance(fn, ast.FunctionDef) or not (q.split(".")[-1].startswith("_format") or q.split(".")[-1] in ("format", "format_flat", "__str__")):
            continue
        for a_ in ast.walk(fn):
            for ch in ast.iter_child_nodes(a_):
                parent[id(ch)] = a_
        for st, missing in findings(fn):
            n += 1
            if missing:
                ctx.R.fail("FMT-14", mod, st, f"{q} keeps what it rendered on the object (`{norm(st)[:60]}`) keyed without {missing}: formatting the same tree again with a different value of "
                           f"{' / '.join(missing)} replays the text of the first call for everything below this node (hidden contexts and nested stacks are decided through `opts` further down)",
                           construct=f"{q}: render memo keyed without {missing}")
            else:
                ctx.R.undecided("FMT-14", f"{q} memoises its output keyed by all format options; whether the tree can change in between is not decided")
    if n == 0:
        ctx.R.ok("FMT-14", "no formatting method stores rendered output on the object")


def fmt15(ctx: Ctx) -> None:
    """FMT-15 with ascii_only the output is pure ASCII (given ASCII names / source / reprs): every string literal with a
    non-ASCII character in the formatting methods of _types (bodies, default arguments, f-string parts) is the alternative of a
    choice on opts.ascii_only -- `<ascii> if opts.ascii_only else <unicode>` or a statement under `if not opts.ascii_only`"""
    mod = ctx.P.mod("_types")
    n = 0
    for q, fn in mod.defs.items():
        if not isinstance(fn, ast.FunctionDef):
            continue
        last = q.split(".")[-1]
        if not (last.startswith("_format") or last in ("format", "format_flat", "__str__") or last.startswith("_mark") or last.startswith("_render")):
            continue
        for c in ast.walk(fn):
            if not (isinstance(c, ast.Constant) and isinstance(c.value, str) and not c.value.isascii()):
                continue
            if isinstance(mod.parent_of(c), ast.Expr):
                continue  # docstring
            n += 1
            ok = False
            child = c
            for a_ in mod.ancestors(c):
                if a_ is fn:
                    break
                if isinstance(a_, ast.IfExp) and "ascii_only" in norm(a_.test):
                    neg = isinstance(a_.test, ast.UnaryOp) and isinstance(a_.test.op, ast.Not)
                    branch = a_.body if neg else a_.orelse
                    if child is branch or any(child is x for x in ast.walk(branch)):
                        ok = True
                    break
                if isinstance(a_, ast.If) and "ascii_only" in norm(a_.test):
                    neg = isinstance(a_.test, ast.UnaryOp) and isinstance(a_.test.op, ast.Not)
                    branch = a_.body if neg else a_.orelse
                    if any(child is x or any(child is y for y in ast.walk(x)) for x in branch):
                        ok = True
                    break
                child = a_
            if ok:
                ctx.R.ok("FMT-15", f"{q}: {c.value!r} only when not ascii_only")
            else:
                ctx.R.fail("FMT-15", mod, c, f"{q}: the non-ASCII literal {c.value!r} is not the alternative of a choice on opts.ascii_only: it is emitted with ascii_only=True as well "
                           "(the output is then neither pure ASCII nor the marker-for-marker translation of the Unicode output)", construct=f"{q}: unconditional non-ASCII literal {c.value!r}")
    if n < 7:
        raise AnalysisError(f"FMT-15: {n} non-ASCII literals found in the formatting methods (>= 7 confirmed by hand)")


def fmt16(ctx: Ctx) -> None:
    """FMT-16 rendering does not depend on what was rendered before in the same call: a formatting method that records the
    node it is rendering in state that travels with the options (a cycle guard: `opts.seen.add(id(self))`) removes it again on
    every way out (discard / remove in a finally); otherwise the record means "ever rendered", and a Stack that is reachable
    twice without any cycle is printed as a stub the second time.  Today no formatting method mutates the options."""
    mod = ctx.P.mod("_types")
    n = 0
    for q, fn in mod.defs.items():
        if not isinstance(fn, ast.FunctionDef) or not q.split(".")[-1].startswith("_format"):
            continue
        optv = next((a.arg for a in fn.args.args if a.arg in ("opts", "options")), None)
        if optv is None:
            continue
        for c in ast.walk(fn):
            if isinstance(c, ast.Call) and isinstance(c.func, ast.Attribute) and c.func.attr in ("add", "append", "update", "setdefault", "__setitem__") \
                    and norm(c.func.value).startswith(optv + "."):
                n += 1
                cont = norm(c.func.value)
                undone = any(isinstance(t, ast.Try) and any(isinstance(x, ast.Call) and isinstance(x.func, ast.Attribute) and x.func.attr in ("discard", "remove", "pop") and norm(x.func.value) == cont
                                                             for fs in t.finalbody for x in ast.walk(fs)) for t in ast.walk(fn))
                if undone:
                    ctx.R.ok("FMT-16", f"{q}: {norm(c)[:50]} is undone in a finally")
                else:
                    ctx.R.fail("FMT-16", mod, c, f"{q} records `{norm(c)[:50]}` in state that is shared by the whole format() call and never removes it: a node reachable twice (without a cycle) "
                               "is rendered in full the first time and as whatever the guard prints the second time, so the text no longer reflects the tree", construct=f"{q}: {cont} only grows")
            elif isinstance(c, (ast.Assign, ast.AugAssign)):
                tg = c.targets[0] if isinstance(c, ast.Assign) else c.target
                if isinstance(tg, (ast.Attribute, ast.Subscript)) and norm(tg).startswith(optv + "."):
                    n += 1
                    ctx.R.fail("FMT-16", mod, c, f"{q} assigns `{norm(tg)[:40]}`: format options are inputs of the call, changing them while rendering makes later nodes render under other options",
                               construct=f"{q}: options mutated")
    if n == 0:
        ctx.R.ok("FMT-16", "no formatting method mutates state reachable from the options")


def fmt17(ctx: Ctx) -> None:
    """FMT-17 objects of the observed program that are rendered into a line (Stack.root, Stack.leaf, Context.obj: the fields
    declared `object`) go through repr(), never str(): str() of an arbitrary object may span several lines (one list element
    then holds several physical lines, and only the first gets the tree prefix) and a string loses its quotes.  Checked for
    every f-string field, str() call and .format() argument in the formatting module, following local names bound to such a
    field (also through `x if ... else "text"`)"""
    mod = ctx.P.mod("_types")
    fields: Set[str] = set()
    for cls in mod.tree.body:
        if isinstance(cls, ast.ClassDef):
            for a in cls.body:
                if isinstance(a, ast.AnnAssign) and isinstance(a.target, ast.Name) and norm(a.annotation).strip("'\"") in ("object", "Optional[object]", "Any", "Optional[Any]"):
                    fields.add(a.target.id)
    if not {"root", "leaf"} <= fields:
        raise AnalysisError(f"FMT-17: the object-typed fields of Stack are {sorted(fields)} (root and leaf expected)")
    n_repr = 0
    for q, fn in mod.defs.items():
        if not isinstance(fn, (ast.FunctionDef, ast.AsyncFunctionDef)):
            continue
        tracked: Set[str] = set()

        def foreign(e: ast.AST) -> bool:
            if isinstance(e, ast.Attribute):
                return e.attr in fields
            if isinstance(e, ast.Name):
                return e.id in tracked
            if isinstance(e, ast.IfExp):
                return foreign(e.body) or foreign(e.orelse)
            if isinstance(e, ast.BoolOp):
                return any(foreign(v) for v in e.values)
            return False

        for _ in range(2):
            for a in walk_scope(fn):
                if isinstance(a, ast.Assign) and len(a.targets) == 1 and isinstance(a.targets[0], ast.Name) and foreign(a.value):
                    tracked.add(a.targets[0].id)
        for n in walk_scope(fn):
            bad = None
            if isinstance(n, ast.FormattedValue) and foreign(n.value):
                if n.conversion == 114:
                    n_repr += 1
                else:
                    bad = n
            elif isinstance(n, ast.Call) and norm(n.func) in ("str", "format") and n.args and foreign(n.args[0]):
                bad = n
            elif isinstance(n, ast.Call) and norm(n.func) == "repr" and n.args and foreign(n.args[0]):
                n_repr += 1
            elif isinstance(n, ast.Call) and isinstance(n.func, ast.Attribute) and n.func.attr == "format" and isinstance(n.func.value, ast.Constant) and isinstance(n.func.value.value, str) \
                    and any(foreign(a_) for a_ in n.args) and "!r" not in n.func.value.value:
                bad = n
            elif isinstance(n, ast.BinOp) and isinstance(n.op, ast.Mod) and isinstance(n.left, ast.Constant) and isinstance(n.left.value, str) and "%s" in n.left.value \
                    and any(foreign(x) for x in ([n.right] + (list(n.right.elts) if isinstance(n.right, ast.Tuple) else []))):
                bad = n
            if bad is not None:
                what = norm(bad.value if isinstance(bad, ast.FormattedValue) else bad)
                ctx.R.fail("FMT-17", mod, bad, f"{q}: `{what[:60]}` renders an object of the observed program with str() instead of repr(): a multi-line __str__ puts several physical lines into one "
                           "element of the result (only the first gets the tree prefix) and a string root / leaf is printed without quotes", construct=f"{q}: str() rendering of {what[:40]}")
    if n_repr < 4:
        raise AnalysisError(f"FMT-17: {n_repr} repr() renderings of root / leaf / obj found (>= 4 confirmed by hand)")
    ctx.R.ok("FMT-17", f"{n_repr} renderings of {sorted(fields)} in stackscope._types", "all through !r / repr()")


def fmt18(ctx: Ctx) -> None:
    """FMT-18 two reader/writer agreements of the tree text.  (a) Frame._format prefixes the lines of one context: the first with
    start_context, a later line that itself starts with the child indicator (a child context / child stack heading written by
    Context._format) with start_child_context, every other line with continue_context -- decided from the guards each append sits
    under.  (b) Context._format replaces the *first* line of a child task stack (its header) by the child's heading: the line that
    gets the start_child marker is line 0"""
    from .opcodes import path_guards_of
    mod = ctx.P.mod("_types")
    fr = mod.fn("Frame._format")
    n = 0
    for c in [x for x in ast.walk(fr) if isinstance(x, ast.Call) and norm(x.func) == "lines.append" and x.args and isinstance(x.args[0], ast.BinOp) and isinstance(x.args[0].op, ast.Add)
              and isinstance(x.args[0].left, ast.Name)]:
        marker = c.args[0].left.id
        if marker not in ("start_context", "start_child_context", "continue_context"):
            continue
        loops = [l for l in mod.ancestors(c) if isinstance(l, ast.For) and any(l is y for y in ast.walk(fr))]
        if not loops:
            continue
        gs = []
        for g_, pol in path_guards_of(mod, c, loops[0]):
            while isinstance(g_, ast.UnaryOp) and isinstance(g_.op, ast.Not):
                g_, pol = g_.operand, not pol
            gs.append((g_, pol))
        sw = [(g_, pol) for g_, pol in gs if norm(g_) == "line.startswith(child_context_indicator)"]
        first = [(g_, pol) for g_, pol in gs if norm(g_) in ("idx == 0", "not idx", "idx != 0", "idx")]
        n += 1
        if marker == "start_child_context":
            if sw and all(pol for _, pol in sw):
                ctx.R.ok("FMT-18", "Frame._format: start_child_context is prefixed to lines that start with the child indicator")
            elif sw:
                ctx.R.fail("FMT-18", mod, c, "Frame._format prefixes start_child_context to the lines that do NOT start with the child indicator (and the continuation marker to those that do): child contexts and child "
                           "task stacks are drawn as plain continuation lines and ordinary lines as branches; the nesting cannot be read back", construct="Frame._format: child indicator test inverted")
            else:
                ctx.R.undecided("FMT-18", "Frame._format: the guard of the start_child_context line does not test line.startswith(child_context_indicator)")
        elif marker == "continue_context":
            if sw and any(pol for _, pol in sw):
                ctx.R.fail("FMT-18", mod, c, "Frame._format prefixes continue_context to the lines that start with the child indicator", construct="Frame._format: child indicator test inverted")
            else:
                ctx.R.ok("FMT-18", "Frame._format: continue_context is prefixed to the remaining lines")
    if n < 2:
        ctx.R.undecided("FMT-18", f"only {n} context-line appends recognised in Frame._format")
    cx = mod.fn("Context._format")
    heads = [a for a in ast.walk(cx) if isinstance(a, ast.Assign) and len(a.targets) == 1 and isinstance(a.targets[0], ast.Subscript) and norm(a.targets[0].value) == "sublines"
             and not isinstance(a.targets[0].slice, ast.Slice)]
    for a in heads:
        idx = norm(a.targets[0].slice)
        if idx == "0":
            ctx.R.ok("FMT-18", f"Context._format: child heading replaces sublines[0]: {norm(a.value)[:40]}")
        elif idx.lstrip("-").isdigit():
            ctx.R.fail("FMT-18", mod, a, f"Context._format writes a child task stack's heading into sublines[{idx}]: the header line (line 0, the one that gets the start_child marker) keeps the generic "
                       "'stackscope.Stack of ...' text and the last frame line of the child is overwritten", construct=f"child heading at sublines[{idx}]")
        else:
            ctx.R.undecided("FMT-18", f"Context._format: child heading index `{idx}`")


def fmt19(ctx: Ctx) -> None:
    """FMT-19 format() returns the lines its _format produced: nothing between the two re-encodes, translates or otherwise rewrites
    their text.  "ascii_only output is the same text with each prefix marker replaced" -- names, source lines and reprs are the
    program's and stay as they are; a post-processing pass over the lines (encode(..., "backslashreplace"), translate, replace,
    unicodedata.normalize) changes them"""
    mod = ctx.P.mod("_types")
    f = mod.fn("Formattable.format")
    REWRITERS = ("encode", "translate", "replace", "casefold", "expandtabs", "strip", "rstrip", "lstrip")
    bad = [c for c in ast.walk(f) if isinstance(c, ast.Call) and ((isinstance(c.func, ast.Attribute) and c.func.attr in REWRITERS) or norm(c.func) in ("unicodedata.normalize", "ascii", "re.sub"))]
    rets = [r for r in ast.walk(f) if isinstance(r, ast.Return) and r.value is not None]
    if bad:
        ctx.R.fail("FMT-19", mod, bad[0], f"Formattable.format passes the finished lines through `{norm(bad[0])[:60]}`: the text of names, source lines and reprs is rewritten, not only the prefix markers "
                   "(ascii_only output must be the same text with each marker replaced by its ASCII counterpart)", construct="format() rewrites the lines it returns")
    elif len(rets) == 1 and isinstance(rets[0].value, ast.Call) and norm(rets[0].value.func) == "self._format":
        ctx.R.ok("FMT-19", "format() returns self._format(FormatOptions(...)) as is")
    elif len(rets) == 1 and isinstance(rets[0].value, ast.Name) and any(isinstance(a, ast.Assign) and norm(a.targets[0]) == rets[0].value.id and isinstance(a.value, ast.Call) and norm(a.value.func) == "self._format"
                                                                        for a in ast.walk(f)) and sum(1 for a in ast.walk(f) if isinstance(a, (ast.Assign, ast.AugAssign)) and norm(getattr(a, "targets", [getattr(a, "target", None)])[0]) == rets[0].value.id) == 1:
        ctx.R.ok("FMT-19", "format() returns the list self._format produced")
    else:
        ctx.R.undecided("FMT-19", "cannot see that format() returns the lines of self._format unchanged")


C18 = [fmt1, fmt2, fmt3, fmt5, fmt7, fmt10_11, fmt14, fmt15, fmt16, fmt17, fmt18, fmt19]
C19 = [fmt2, fmt4, fmt6, fmt8, fmt9, fmt12, fmt13]
C20 = [cont7, mode_rules, mode4, ref1]
