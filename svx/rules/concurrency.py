"""TRIO-1..2 (C14), GRN-1..2 (C15), ENG-6 (C03): thin structural clauses of the Trio / greenlet glue and of the chain walk."""
from __future__ import annotations

import ast
import copy
from typing import Dict, List, Optional, Set, Tuple

from ..ctx import Ctx
from ..model import AnalysisError, Mod, norm, walk_scope, calls_in
from .opcodes import guards_of


def _stmt(mod: Mod, n: ast.AST) -> ast.AST:
    while not isinstance(n, ast.stmt):
        n = mod.parent_of(n)
    return n


def trio1(ctx: Ctx) -> None:
    """TRIO-1 a nursery context's obj is the trio.Nursery and its children are exactly the extractions of its child tasks, each
    requested as a task (for_task=True: populated iff recursion was asked for); a Task unwraps to its coroutine"""
    mod = ctx.P.mod("_glue")
    q = "glue_trio.elaborate_nursery"
    if not mod.has(q):
        raise AnalysisError(f"anchor vanished: _glue.{q}")
    fn = mod.fn(q)
    ctx.R.saw(mod, q)
    cvar = fn.args.args[1].arg
    mvar = fn.args.args[0].arg
    objs = [s for s in walk_scope(fn) if isinstance(s, ast.Assign) and norm(s.targets[0]) == f"{cvar}.obj"]
    if len(objs) == 1 and norm(objs[0].value) == f"{mvar}._nursery":
        ctx.R.ok("TRIO-1", f"{cvar}.obj = {mvar}._nursery")
    else:
        ctx.R.fail("TRIO-1", mod, fn, "the nursery context's obj must be the trio.Nursery behind the manager (manager._nursery)", construct="nursery obj")
    ch = [s for s in walk_scope(fn) if isinstance(s, ast.Assign) and norm(s.targets[0]) == f"{cvar}.children"]
    ok = False
    why = "children not assigned"
    if len(ch) == 1 and isinstance(ch[0].value, (ast.ListComp, ast.GeneratorExp)) or (len(ch) == 1 and isinstance(ch[0].value, ast.Call) and norm(ch[0].value.func) in ("list", "tuple")
                                                                                   and ch[0].value.args and isinstance(ch[0].value.args[0], (ast.ListComp, ast.GeneratorExp))):
        comp = ch[0].value if isinstance(ch[0].value, (ast.ListComp, ast.GeneratorExp)) else ch[0].value.args[0]
        gen = comp.generators[0]
        elt = comp.elt
        it = norm(gen.iter)
        why = ""
        if len(comp.generators) != 1 or gen.ifs:
            why = f"child tasks are filtered (`{norm(comp)[:60]}`): the tree is no longer isomorphic to Trio's"
        elif it not in (f"{cvar}.obj.child_tasks", f"{mvar}._nursery.child_tasks"):
            why = f"children must be the nursery's child_tasks, not `{it}`"
        elif not (isinstance(elt, ast.Call) and ctx.P.resolve_call(mod, elt).is_pkg("_extract", "extract_child") and elt.args and norm(elt.args[0]) == norm(gen.target)):
            why = "each child must be extract_child(<that task>, ...)"
        else:
            kw = {k.arg: norm(k.value) for k in elt.keywords}
            if kw.get("for_task") != "True":
                why = f"child tasks must be extracted with for_task=True (stub unless recursion was requested); found {kw}"
            else:
                ok = True
    elif len(ch) == 1:
        ctx.R.undecided("TRIO-1", f"children are computed as `{norm(ch[0].value)[:60]}`")
        return
    if ok:
        ctx.R.ok("TRIO-1", "children = [extract_child(t, for_task=True) for t in <nursery>.child_tasks]")
    else:
        ctx.R.fail("TRIO-1", mod, ch[0] if ch else fn, f"elaborate_nursery: {why}", construct="nursery children")
    ut = "glue_trio.unwrap_task"
    if mod.has(ut):
        f2 = mod.fn(ut)
        rets = [r for r in ast.walk(f2) if isinstance(r, ast.Return)]
        if len(rets) == 1 and norm(rets[0].value) == f"{f2.args.args[0].arg}.coro":
            ctx.R.ok("TRIO-1", "a Task unwraps to task.coro")
        else:
            ctx.R.fail("TRIO-1", mod, f2, "a trio Task must unwrap to its coroutine (task.coro)", construct="unwrap_task")
    else:
        raise AnalysisError(f"anchor vanished: _glue.{ut}")


def trio2(ctx: Ctx) -> None:
    """TRIO-2 in the from_thread.run stitching, values taken from other threads' thread-local dicts and from frame locals are
    looked up tolerantly (.get): the dict of a thread with no Trio run in progress has no 'runner' key, and the search must
    skip it rather than fail"""
    mod = ctx.P.mod("_glue")
    q = "glue_trio.elaborate_from_thread_run"
    if not mod.has(q):
        raise AnalysisError(f"anchor vanished: _glue.{q}")
    fns = [mod.fn(q)] + [f for qq, f in mod.defs.items() if qq.startswith("glue_trio.") and isinstance(f, ast.FunctionDef) and f.name not in ("elaborate_from_thread_run",)
                          and any(isinstance(c, ast.Constant) and c.value == "runner" for c in ast.walk(f))]
    n = 0
    for fn in fns:
        ctx.R.saw(mod, mod.qualname_of(fn))
        for sub in ast.walk(fn):
            if isinstance(sub, ast.Subscript) and isinstance(sub.slice, ast.Constant) and sub.slice.value == "runner" and isinstance(sub.ctx, ast.Load):
                n += 1
                # fine if guarded by a membership test or inside try/except KeyError
                guarded = any('"runner" in' in norm(gx).replace("'", '"') for gx, pol in guards_of(mod, sub, fn) if pol)
                tr = [a for a in mod.ancestors(sub) if isinstance(a, ast.Try) and any(h.type is None or "KeyError" in norm(h.type) or "Exception" in norm(h.type) or "LookupError" in norm(h.type) for h in a.handlers)]
                if guarded or tr:
                    ctx.R.ok("TRIO-2", f"{mod.qualname_of(fn)}: {norm(sub)} is guarded")
                else:
                    ctx.R.fail("TRIO-2", mod, sub, f"{mod.qualname_of(fn)}: `{norm(sub)}` indexes a per-thread dict that has no 'runner' entry for threads without a Trio run in progress: the KeyError "
                               "ends the search (recorded as Stack.error) and the thread's stack is not continued into the Trio task that serves it", construct="strict ['runner'] lookup")
            elif isinstance(sub, ast.Call) and isinstance(sub.func, ast.Attribute) and sub.func.attr == "get" and sub.args and isinstance(sub.args[0], ast.Constant) and sub.args[0].value == "runner":
                n += 1
                ctx.R.ok("TRIO-2", f"{mod.qualname_of(fn)}: {norm(sub)[:50]}")
    if n < 1:
        ctx.R.undecided("TRIO-2", "no lookup of the 'runner' entry found in the from_thread.run stitching")


def grn1(ctx: Ctx) -> None:
    """GRN-1 unwrap_greenlet as a table over its four tests: a suspended greenlet (gr_frame not None) -> StackSlice(inner=gr_frame);
    no frame and not alive -> no frames; no frame, alive, not the calling greenlet -> RuntimeError (running in another thread),
    *before* anything is taken from the caller's own stack; the calling greenlet -> StackSlice(inner=<caller>, outer=<walk to the
    greenlet's entry> unless it has no parent)"""
    from ..stepper import Stepper, enumerate_table
    from ..emit import Unsupported
    mod = ctx.P.mod("_glue")
    q = "glue_greenlet.unwrap_greenlet"
    if not mod.has(q):
        raise AnalysisError(f"anchor vanished: _glue.{q}")
    fn = mod.fn(q)
    ctx.R.saw(mod, q)
    g = fn.args.args[0].arg
    body = copy.deepcopy([x for x in fn.body if not (isinstance(x, ast.Expr) and isinstance(x.value, ast.Constant))])
    S_, D_, C_, P_ = f"{g}.gr_frame is None", g, f"{g} is greenlet_getcurrent()", f"{g}.parent is None"
    known = [S_, D_, C_, P_]

    def run(assign):
        st = Stepper(assign)

        def on_loop(loop, env):
            for a_ in ast.walk(loop):
                if isinstance(a_, ast.Assign) and len(a_.targets) == 1 and isinstance(a_.targets[0], ast.Name):
                    env[a_.targets[0].id] = ast.Name(id="WALKED", ctx=ast.Load())
        st.on_loop = on_loop
        k, v = st.run(body, {})
        if k == "return" and v is not None:
            if isinstance(v, ast.Call) and norm(v.func) == "StackSlice" and not v.args:
                kws = {k_.arg: norm(k_.value) for k_ in v.keywords if not (isinstance(k_.value, ast.Constant) and k_.value.value is None)}
                return ("SLICE", tuple(sorted(kws.items())))
            return ("RETURN", norm(v))
        return (k.upper(), "")

    try:
        atoms, rows = enumerate_table(run, known)
    except Unsupported as ex:
        ctx.R.undecided("GRN-1", f"unwrap_greenlet is outside the step interpreter: {ex}")
        return
    bad = None
    for assign, out in rows:
        if not assign[S_]:
            want = [("SLICE", (("inner", f"{g}.gr_frame"),))]
        elif not assign[D_]:
            want = [("RETURN", "[]"), ("RETURN", "()")]
        elif not assign[C_]:
            want = [("RAISE", "")]
        elif assign[P_]:
            want = [("SLICE", (("inner", "get_true_caller()"),))]
        else:
            want = [("SLICE", (("inner", "get_true_caller()"), ("outer", "WALKED")))]
        if out not in want and bad is None:
            bad = (assign, out, want[0])
    if bad is None:
        ctx.R.ok("GRN-1", "suspended -> its own frames; dead / unstarted -> none; running elsewhere -> RuntimeError; the caller's greenlet -> its part of the running stack", f"{len(rows)} combinations of {atoms}")
    else:
        assign, out, want = bad
        shown = {k_: v_ for k_, v_ in assign.items() if k_ in known}
        extra = ""
        if assign[S_] and assign[D_] and not assign[C_]:
            extra = " (a greenlet that is running in another thread must give an error, not some other stack)"
        ctx.R.fail("GRN-1", mod, fn, f"unwrap_greenlet: with {shown} the result is {out} where {want} is required{extra}", construct="unwrap_greenlet case table")


def grn2(ctx: Ctx) -> None:
    """GRN-2 `greenlet_getcurrent` is greenlet's own getcurrent whenever greenlet can be imported: it is bound by the import in the
    try at module level, and the stand-in exists only under `except ImportError` (a lazily resolved, memoised stand-in would
    describe every thread as a parentless placeholder for the rest of the process)"""
    mod = ctx.P.mod("_glue")
    imp = [s for s in ast.walk(mod.tree) if isinstance(s, ast.ImportFrom) and s.module == "greenlet" and any((a.asname or a.name) == "greenlet_getcurrent" and a.name == "getcurrent" for a in s.names)]
    defs = [s for s in ast.walk(mod.tree) if isinstance(s, (ast.FunctionDef, ast.Assign)) and ((isinstance(s, ast.FunctionDef) and s.name == "greenlet_getcurrent")
                                                                                             or (isinstance(s, ast.Assign) and norm(s.targets[0]) == "greenlet_getcurrent"))]
    if not imp:
        at = defs[0] if defs else mod.tree
        ctx.R.fail("GRN-2", mod, at, "greenlet_getcurrent is not bound to greenlet.getcurrent by an import at module level: the current greenlet (and with it the parent chain that stitches a thread's stack "
                   "across greenlets) is only known if some stand-in resolves it later", construct="greenlet_getcurrent binding")
        return
    tries = [a for a in mod.ancestors(imp[0]) if isinstance(a, ast.Try)]
    bad = [d for d in defs if not any(isinstance(a, ast.ExceptHandler) and a.type is not None and "ImportError" in norm(a.type) and tries and a in tries[0].handlers for a in mod.ancestors(d))]
    if bad:
        ctx.R.fail("GRN-2", mod, bad[0], "a second binding of greenlet_getcurrent outside the `except ImportError` of the import replaces greenlet's own getcurrent", construct="greenlet_getcurrent binding")
    else:
        ctx.R.ok("GRN-2", "greenlet_getcurrent is greenlet.getcurrent; the placeholder exists only when greenlet cannot be imported")


def eng6(ctx: Ctx) -> None:
    """ENG-6 with_contexts only decides whether contexts are filled in: the block of extract_iter that is conditional on it
    neither leaves the loop iteration (continue / break / return / yield) nor touches the two work queues, so the frames
    (and leaf) are the same with contexts on or off"""
    mod = ctx.P.mod("_extract")
    fn = mod.fn("extract_iter")
    ctx.R.saw(mod, "extract_iter")
    blocks = [s for s in ast.walk(fn) if isinstance(s, ast.If) and "with_contexts" in norm(s.test)]
    if not blocks:
        raise AnalysisError("ENG-6: extract_iter no longer tests with_contexts")
    for b in blocks:
        bad = None
        for x in ast.walk(b):
            if x is b.test or any(x is y for y in ast.walk(b.test)):
                continue
            if isinstance(x, (ast.Continue, ast.Break, ast.Return, ast.Yield, ast.YieldFrom)):
                bad = (x, f"`{norm(_stmt(mod, x))[:40]}`")
            elif isinstance(x, ast.Name) and x.id in ("to_unwrap", "to_elaborate") and isinstance(mod.parent_of(x), ast.Attribute) and mod.parent_of(x).attr in ("append", "appendleft", "pop", "popleft", "clear", "extend", "insert", "remove"):
                bad = (x, f"a change of {x.id}")
        if bad:
            ctx.R.fail("ENG-6", mod, bad[0], f"under `{norm(b.test)[:50]}` extract_iter does {bad[1]}: which frames are produced then depends on with_contexts", construct="frames depend on with_contexts")
        else:
            ctx.R.ok("ENG-6", f"the block under `{norm(b.test)[:50]}` only fills in contexts and records errors")


C14 = [trio1, trio2]
C15 = [grn1, grn2]
