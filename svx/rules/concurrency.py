"""TRIO-1..2 (C14), GRN-1..2 (C15), ENG-6 (C03): thin structural clauses of the Trio / greenlet glue and of the chain walk."""
from __future__ import annotations

import ast
import copy
from typing import Dict, List, Optional, Set, Tuple

from ..ctx import Ctx
from ..model import AnalysisError, Mod, norm, walk_scope, calls_in
from .opcodes import guards_of


def _stmt(mod: Mod, n: ast.AST) -> ast.AST:
    while not isinstance(n, ast.stmt):
        n = mod.parent_of(n)
    return n


def trio1(ctx: Ctx) -> None:
    """TRIO-1 a nursery context's obj is the trio.Nursery and its children are exactly the extractions of its child tasks, each
    requested as a task (for_task=True: populated iff recursion was asked for); a Task unwraps to its coroutine"""
    mod = ctx.P.mod("_glue")
    q = "glue_trio.elaborate_nursery"
    if not mod.has(q):
        raise AnalysisError(f"anchor vanished: _glue.{q}")
    fn = mod.fn(q)
    ctx.R.saw(mod, q)
    cvar = fn.args.args[1].arg
    mvar = fn.args.args[0].arg
    objs = [s for s in walk_scope(fn) if isinstance(s, ast.Assign) and norm(s.targets[0]) == f"{cvar}.obj"]
    # locals that are, once and unconditionally, the manager's nursery
    nur = {a_.targets[0].id for a_ in fn.body if isinstance(a_, ast.Assign) and len(a_.targets) == 1 and isinstance(a_.targets[0], ast.Name) and norm(a_.value) == f"{mvar}._nursery"
           and sum(1 for w_ in walk_scope(fn) if isinstance(w_, ast.Name) and w_.id == a_.targets[0].id and isinstance(w_.ctx, ast.Store)) == 1}
    nursery_exprs = {f"{mvar}._nursery"} | nur
    if len(objs) == 1 and norm(objs[0].value) in nursery_exprs:
        ctx.R.ok("TRIO-1", f"{cvar}.obj = {mvar}._nursery")
    elif len(objs) == 1 and isinstance(objs[0].value, (ast.Attribute, ast.Name)):
        ctx.R.fail("TRIO-1", mod, fn, "the nursery context's obj must be the trio.Nursery behind the manager (manager._nursery)", construct="nursery obj")
    else:
        ctx.R.undecided("TRIO-1", f"{cvar}.obj is assigned {len(objs)} time(s) / from an expression that is not a plain attribute")
    ch = [s for s in walk_scope(fn) if isinstance(s, ast.Assign) and norm(s.targets[0]) == f"{cvar}.children"]
    ok = False
    why = "children not assigned"
    if len(ch) == 1 and isinstance(ch[0].value, (ast.ListComp, ast.GeneratorExp)) or (len(ch) == 1 and isinstance(ch[0].value, ast.Call) and norm(ch[0].value.func) in ("list", "tuple")
                                                                                   and ch[0].value.args and isinstance(ch[0].value.args[0], (ast.ListComp, ast.GeneratorExp))):
        comp = ch[0].value if isinstance(ch[0].value, (ast.ListComp, ast.GeneratorExp)) else ch[0].value.args[0]
        gen = comp.generators[0]
        elt = comp.elt
        it = norm(gen.iter)
        why = ""
        if len(comp.generators) != 1 or gen.ifs:
            why = f"child tasks are filtered (`{norm(comp)[:60]}`): the tree is no longer isomorphic to Trio's"
        elif it not in {f"{cvar}.obj.child_tasks"} | {f"{x_}.child_tasks" for x_ in nursery_exprs}:
            why = f"children must be the nursery's child_tasks, not `{it}`"
        elif not (isinstance(elt, ast.Call) and ctx.P.resolve_call(mod, elt).is_pkg("_extract", "extract_child") and elt.args and norm(elt.args[0]) == norm(gen.target)):
            why = "each child must be extract_child(<that task>, ...)"
        else:
            kw = {k.arg: norm(k.value) for k in elt.keywords}
            if kw.get("for_task") != "True":
                why = f"child tasks must be extracted with for_task=True (stub unless recursion was requested); found {kw}"
            else:
                ok = True
    elif len(ch) == 1:
        ctx.R.undecided("TRIO-1", f"children are computed as `{norm(ch[0].value)[:60]}`")
        return
    if ok:
        ctx.R.ok("TRIO-1", "children = [extract_child(t, for_task=True) for t in <nursery>.child_tasks]")
    else:
        ctx.R.fail("TRIO-1", mod, ch[0] if ch else fn, f"elaborate_nursery: {why}", construct="nursery children")
    ut = "glue_trio.unwrap_task"
    if mod.has(ut):
        f2 = mod.fn(ut)
        rets = [r for r in ast.walk(f2) if isinstance(r, ast.Return)]
        if len(rets) == 1 and norm(rets[0].value) == f"{f2.args.args[0].arg}.coro":
            ctx.R.ok("TRIO-1", "a Task unwraps to task.coro")
        else:
            ctx.R.fail("TRIO-1", mod, f2, "a trio Task must unwrap to its coroutine (task.coro)", construct="unwrap_task")
    else:
        raise AnalysisError(f"anchor vanished: _glue.{ut}")


def trio2(ctx: Ctx) -> None:
    """TRIO-2 in the from_thread.run stitching, values taken from other threads' thread-local dicts and from frame locals are
    looked up tolerantly (.get): the dict of a thread with no Trio run in progress has no 'runner' key, and the search must
    skip it rather than fail"""
    mod = ctx.P.mod("_glue")
    q = "glue_trio.elaborate_from_thread_run"
    if not mod.has(q):
        raise AnalysisError(f"anchor vanished: _glue.{q}")
    fns = [mod.fn(q)] + [f for qq, f in mod.defs.items() if qq.startswith("glue_trio.") and isinstance(f, ast.FunctionDef) and f.name not in ("elaborate_from_thread_run",)
                          and any(isinstance(c, ast.Constant) and c.value == "runner" for c in ast.walk(f))]
    n = 0
    for fn in fns:
        ctx.R.saw(mod, mod.qualname_of(fn))
        for sub in ast.walk(fn):
            if isinstance(sub, ast.Subscript) and isinstance(sub.slice, ast.Constant) and sub.slice.value == "runner" and isinstance(sub.ctx, ast.Load):
                n += 1
                # fine if guarded by a membership test or inside try/except KeyError
                guarded = any('"runner" in' in norm(gx).replace("'", '"') for gx, pol in guards_of(mod, sub, fn) if pol)
                tr = [a for a in mod.ancestors(sub) if isinstance(a, ast.Try) and any(h.type is None or "KeyError" in norm(h.type) or "Exception" in norm(h.type) or "LookupError" in norm(h.type) for h in a.handlers)]
                if guarded or tr:
                    ctx.R.ok("TRIO-2", f"{mod.qualname_of(fn)}: {norm(sub)} is guarded")
                else:
                    ctx.R.fail("TRIO-2", mod, sub, f"{mod.qualname_of(fn)}: `{norm(sub)}` indexes a per-thread dict that has no 'runner' entry for threads without a Trio run in progress: the KeyError "
                               "ends the search (recorded as Stack.error) and the thread's stack is not continued into the Trio task that serves it", construct="strict ['runner'] lookup")
            elif isinstance(sub, ast.Call) and isinstance(sub.func, ast.Attribute) and sub.func.attr == "get" and sub.args and isinstance(sub.args[0], ast.Constant) and sub.args[0].value == "runner":
                n += 1
                ctx.R.ok("TRIO-2", f"{mod.qualname_of(fn)}: {norm(sub)[:50]}")
    if n < 1:
        ctx.R.undecided("TRIO-2", "no lookup of the 'runner' entry found in the from_thread.run stitching")


def grn1(ctx: Ctx) -> None:
    """GRN-1 unwrap_greenlet as a table over its four tests: a suspended greenlet (gr_frame not None) -> StackSlice(inner=gr_frame);
    no frame and not alive -> no frames; no frame, alive, not the calling greenlet -> RuntimeError (running in another thread),
    *before* anything is taken from the caller's own stack; the calling greenlet -> StackSlice(inner=<caller>, outer=<walk to the
    greenlet's entry> unless it has no parent)"""
    from ..stepper import Stepper, enumerate_table
    from ..emit import Unsupported
    mod = ctx.P.mod("_glue")
    q = "glue_greenlet.unwrap_greenlet"
    if not mod.has(q):
        raise AnalysisError(f"anchor vanished: _glue.{q}")
    fn = mod.fn(q)
    ctx.R.saw(mod, q)
    g = fn.args.args[0].arg
    body = copy.deepcopy([x for x in fn.body if not (isinstance(x, ast.Expr) and isinstance(x.value, ast.Constant))])
    S_, D_, C_, P_ = f"{g}.gr_frame is None", g, f"{g} is greenlet_getcurrent()", f"{g}.parent is None"
    known = [S_, D_, C_, P_]

    def run(assign):
        st = Stepper(assign)

        def on_loop(loop, env):
            for a_ in ast.walk(loop):
                if isinstance(a_, ast.Assign) and len(a_.targets) == 1 and isinstance(a_.targets[0], ast.Name):
                    env[a_.targets[0].id] = ast.Name(id="WALKED", ctx=ast.Load())
        st.on_loop = on_loop
        k, v = st.run(body, {})
        if k == "return" and v is not None:
            if isinstance(v, ast.Call) and norm(v.func) == "StackSlice" and not v.args:
                kws = {k_.arg: norm(k_.value) for k_ in v.keywords if not (isinstance(k_.value, ast.Constant) and k_.value.value is None)}
                return ("SLICE", tuple(sorted(kws.items())))
            return ("RETURN", norm(v))
        return (k.upper(), "")

    try:
        atoms, rows = enumerate_table(run, known)
    except Unsupported as ex:
        ctx.R.undecided("GRN-1", f"unwrap_greenlet is outside the step interpreter: {ex}")
        return
    bad = None
    for assign, out in rows:
        if not assign[S_]:
            want = [("SLICE", (("inner", f"{g}.gr_frame"),))]
        elif not assign[D_]:
            want = [("RETURN", "[]"), ("RETURN", "()")]
        elif not assign[C_]:
            want = [("RAISE", "")]
        elif assign[P_]:
            want = [("SLICE", (("inner", "get_true_caller()"),))]
        else:
            want = [("SLICE", (("inner", "get_true_caller()"), ("outer", "WALKED")))]
        if out not in want and bad is None:
            bad = (assign, out, want[0])
    if bad is None:
        ctx.R.ok("GRN-1", "suspended -> its own frames; dead / unstarted -> none; running elsewhere -> RuntimeError; the caller's greenlet -> its part of the running stack", f"{len(rows)} combinations of {atoms}")
    else:
        assign, out, want = bad
        shown = {k_: v_ for k_, v_ in assign.items() if k_ in known}
        extra = ""
        if assign[S_] and assign[D_] and not assign[C_]:
            extra = " (a greenlet that is running in another thread must give an error, not some other stack)"
        ctx.R.fail("GRN-1", mod, fn, f"unwrap_greenlet: with {shown} the result is {out} where {want} is required{extra}", construct="unwrap_greenlet case table")


def grn2(ctx: Ctx) -> None:
    """GRN-2 `greenlet_getcurrent` is greenlet's own getcurrent whenever greenlet can be imported: it is bound by the import in the
    try at module level, and the stand-in exists only under `except ImportError` (a lazily resolved, memoised stand-in would
    describe every thread as a parentless placeholder for the rest of the process)"""
    mod = ctx.P.mod("_glue")
    imp = [s for s in ast.walk(mod.tree) if isinstance(s, ast.ImportFrom) and s.module == "greenlet" and any((a.asname or a.name) == "greenlet_getcurrent" and a.name == "getcurrent" for a in s.names)]
    defs = [s for s in ast.walk(mod.tree) if isinstance(s, (ast.FunctionDef, ast.Assign)) and ((isinstance(s, ast.FunctionDef) and s.name == "greenlet_getcurrent")
                                                                                             or (isinstance(s, ast.Assign) and norm(s.targets[0]) == "greenlet_getcurrent"))]
    if not imp:
        at = defs[0] if defs else mod.tree
        ctx.R.fail("GRN-2", mod, at, "greenlet_getcurrent is not bound to greenlet.getcurrent by an import at module level: the current greenlet (and with it the parent chain that stitches a thread's stack "
                   "across greenlets) is only known if some stand-in resolves it later", construct="greenlet_getcurrent binding")
        return
    tries = [a for a in mod.ancestors(imp[0]) if isinstance(a, ast.Try)]
    bad = [d for d in defs if not any(isinstance(a, ast.ExceptHandler) and a.type is not None and "ImportError" in norm(a.type) and tries and a in tries[0].handlers for a in mod.ancestors(d))]
    if bad:
        ctx.R.fail("GRN-2", mod, bad[0], "a second binding of greenlet_getcurrent outside the `except ImportError` of the import replaces greenlet's own getcurrent", construct="greenlet_getcurrent binding")
    else:
        ctx.R.ok("GRN-2", "greenlet_getcurrent is greenlet.getcurrent; the placeholder exists only when greenlet cannot be imported")


def grn3(ctx: Ctx) -> None:
    """GRN-3 the await_ bridge: greenback.await_'s frame continues into its `coro` local exactly when it is the innermost frame
    or is suspended in greenlet.switch(); an await_ with other frames inward of it (the coroutine is running on this very stack:
    extraction from inside, or an outer bridge of a deeper alternation seen from outside) needs nothing -- following `coro` there
    asks for the frames of a coroutine that is "running" on a suspended greenlet, which no thread's stack contains, and the
    stack is cut with an error at the second alternation.  Decided by evaluating the hook (engine MINI) on the four cases"""
    from types import SimpleNamespace as NS
    from ..minieval import Mini, Raised, Unsupported, _Return
    mod = ctx.P.mod("_glue")
    q = "glue_greenback.elaborate_greenback_await"
    if not mod.has(q):
        cands = [k for k, f in mod.defs.items() if k.startswith("glue_greenback.") and isinstance(f, ast.FunctionDef)
                 and any(isinstance(d, ast.Call) and "elaborate_frame.register" in norm(d.func) and any("await_" in norm(a) for a in d.args) for d in f.decorator_list)]
        if len(cands) != 1:
            raise AnalysisError("anchor vanished: the elaborate_frame hook registered for greenback.await_")
        q = cands[0]
    fn = mod.fn(q)
    ctx.R.saw(mod, q)
    if len(fn.args.args) != 2:
        ctx.R.undecided("GRN-3", "the await_ hook does not take (frame, next_inner)")
        return
    pf, pn = (a.arg for a in fn.args.args)
    FrameT = NS(tname="Frame")

    def isinst(o_, c_):
        if c_ is not FrameT:
            raise Unsupported("isinstance against another class")
        return isinstance(o_, NS) and getattr(o_, "is_frame", False)
    helpers = {k.split(".")[-1]: f for k, f in mod.defs.items() if isinstance(f, ast.FunctionDef) and k.count(".") <= 1 and f is not fn}
    CORO = NS(tag="coro")

    def mkframe(name):
        return NS(is_frame=True, pyframe=NS(f_code=NS(co_name=name, co_filename="x.py"), f_locals={}), hide=False)
    cases = [("the innermost frame (next_inner None)", None, CORO), ("suspended in greenlet.switch()", mkframe("switch"), CORO), ("followed by another frame (the awaited coroutine is running further in)", mkframe("send"), None)]
    n_ok = 0
    for label, nxt, want in cases:
        frame = NS(is_frame=True, pyframe=NS(f_code=NS(co_name="await_"), f_locals={"coro": CORO}), hide=False, hide_line=False)
        m = Mini({pf: frame, pn: nxt, "Frame": FrameT}, dict(helpers), {"isinstance": isinst})
        res = None
        try:
            try:
                for st in fn.body:
                    m.stmt(st)
            except _Return as r:
                res = r.value
        except (Unsupported, Raised) as ex:
            ctx.R.undecided("GRN-3", f"{label}: {ex}")
            return
        except Exception as ex:
            ctx.R.undecided("GRN-3", f"{label}: {type(ex).__name__}")
            return
        if res is not want:
            got = "its `coro` local" if res is CORO else "None" if res is None else "something else"
            ctx.R.fail("GRN-3", mod, fn, f"greenback.await_ frame that is {label}: the hook returns {got}, {'its `coro` local' if want is CORO else 'None'} is required.  "
                       + ("An await_ with frames inward of it must leave the walk alone: `coro` is then running on a (possibly suspended) greenlet's stack, no thread has its frames, and from the second "
                          "sync/async alternation on the stack is cut with `Couldn't find where the above frame is running`" if want is None else
                          "Without it the stack stops at the bridge instead of continuing into the awaited coroutine"), construct=f"await_ bridge: {label}")
            return
        n_ok += 1
    ctx.R.ok("GRN-3", f"_glue.{q} evaluated on {n_ok} positions of the await_ frame", "continues into `coro` iff innermost or suspended in switch()")


def grn4(ctx: Ctx) -> None:
    """GRN-4 the other two greenback bridges, and the hiding of all three.  The shim / trampoline frame with further frames inward
    of it needs nothing (None); as the innermost frame, the shim continues into the child greenlet when that is suspended
    (gr_frame not None) and otherwise into `orig_coro`; the trampoline continues into `orig_coro`.  Every one of the hooks
    marks its frame hidden in every case ("with the bridging internals hidden").  Decided by evaluating the hooks (engine MINI)"""
    from types import SimpleNamespace as NS
    from ..minieval import Mini, Raised, Unsupported, _Return
    mod = ctx.P.mod("_glue")
    FrameT = NS(tname="Frame")

    def isinst(o_, c_):
        if c_ is not FrameT:
            raise Unsupported("isinstance against another class")
        return isinstance(o_, NS) and getattr(o_, "is_frame", False)

    def gattr(o_, n_, *d_):
        if not isinstance(o_, NS) and o_ is not None:
            raise Unsupported("getattr on an unknown object")
        if o_ is not None and hasattr(o_, n_):
            return getattr(o_, n_)
        if d_:
            return d_[0]
        raise Raised("AttributeError")
    hooks = {}
    for k, f in mod.defs.items():
        if k.startswith("glue_greenback.") and isinstance(f, ast.FunctionDef):
            for d in f.decorator_list:
                if isinstance(d, ast.Call) and norm(d.func) == "elaborate_frame.register" and d.args:
                    t = norm(d.args[0])
                    kind = "await_" if t.endswith(".await_") else "shim" if t.endswith("_greenback_shim") else "trampoline" if t.endswith(".trampoline") else None
                    if kind:
                        hooks[kind] = (k, f)
    if "shim" not in hooks or "await_" not in hooks:
        raise AnalysisError(f"GRN-4: elaborate_frame hooks for the greenback shim / await_ not found (have {sorted(hooks)})")
    GL, GL0 = NS(tag="child greenlet", gr_frame=NS(tag="gr_frame"), truthy=True), NS(tag="child greenlet without frame", gr_frame=None, truthy=True)
    OC, CORO = NS(tag="orig_coro", truthy=True), NS(tag="coro", truthy=True)     # coroutine objects are always true; a live greenlet is true
    inner = lambda: NS(is_frame=True, pyframe=NS(f_code=NS(co_name="send")), hide=False)
    cases = {
        "shim": [("with further frames inward", {"child_greenlet": GL, "orig_coro": OC}, "F", None, "None"),
                 ("innermost, child greenlet suspended", {"child_greenlet": GL, "orig_coro": OC}, None, GL, "the child greenlet"),
                 ("innermost, child greenlet has no frame", {"child_greenlet": GL0, "orig_coro": OC}, None, OC, "`orig_coro`")],
        "trampoline": [("with further frames inward", {"orig_coro": OC}, "F", None, "None"), ("innermost", {"orig_coro": OC}, None, OC, "`orig_coro`")],
        "await_": [("with further frames inward", {"coro": CORO}, "F", None, "None"), ("innermost", {"coro": CORO}, None, CORO, "`coro`")],
    }
    n_ok = 0
    for kind, (q, fn) in sorted(hooks.items()):
        ctx.R.saw(mod, q)
        if len(fn.args.args) != 2:
            ctx.R.undecided("GRN-4", f"{q} does not take (frame, next_inner)")
            continue
        pf, pn = (a.arg for a in fn.args.args)
        for label, locs, nxt, want, wtxt in cases[kind]:
            frame = NS(is_frame=True, pyframe=NS(f_code=NS(co_name=kind), f_locals=dict(locs)), hide=False, hide_line=False)
            m = Mini({pf: frame, pn: inner() if nxt == "F" else None, "Frame": FrameT}, {}, {"isinstance": isinst, "getattr": gattr})
            res = None
            try:
                try:
                    for st in fn.body:
                        m.stmt(st)
                except _Return as r:
                    res = r.value
            except Raised as ex:
                ctx.R.fail("GRN-4", mod, fn, f"greenback {kind} frame {label}: the hook raises {ex} where {wtxt} is required (the stack is cut at the bridge)", construct=f"greenback {kind}: {label}")
                break
            except Unsupported as ex:
                ctx.R.undecided("GRN-4", f"{q}, {label}: {ex}")
                break
            except Exception as ex:
                ctx.R.undecided("GRN-4", f"{q}, {label}: {type(ex).__name__}")
                break
            if res is not want:
                got = getattr(res, "tag", None) or ("None" if res is None else "something else")
                ctx.R.fail("GRN-4", mod, fn, f"greenback {kind} frame {label}: the hook returns {got}, {wtxt} is required: the stack of the task "
                           + ("is redirected although the frames inward of the bridge are already being walked (duplicated or lost frames)" if want is None else "does not continue into what the bridge is waiting for"),
                           construct=f"greenback {kind}: {label}")
                break
            if frame.hide is not True:
                ctx.R.fail("GRN-4", mod, fn, f"greenback {kind} frame {label}: the hook leaves frame.hide == {frame.hide!r}: the bridging internals show up in the formatted stack", construct=f"greenback {kind} not hidden: {label}")
                break
            n_ok += 1
    ctx.R.ok("GRN-4", f"greenback hooks {sorted(hooks)} evaluated on {n_ok} cases", "None with frames inward; the child greenlet / orig_coro / coro when innermost; always hidden")


# the frames the greenlet / greenback bridges produce that the package hides today (confirmed by reading _glue.py at the pinned
# commit): the reference for GRN-5.  path below the imported module -> options
_HIDDEN_BRIDGE_FRAMES = {
    "glue_outcome": {"outcome.Value.send": {"hide": True}, "outcome.Error.send": {"hide": True}, "outcome.capture": {"hide": True}, "outcome.acapture": {"hide": True}},
    "glue_greenlet": {"greenlet.greenlet.switch": {"hide": True}},
}


def grn5(ctx: Ctx) -> None:
    """GRN-5 "with the bridging internals hidden": the functions that resume the other side of a bridge -- outcome's Value.send
    *and* Error.send (a bridge resumed by an exception thrown in goes through Error.send), outcome.capture / acapture, and
    greenlet.switch -- are customised with hide=True.  The glue functions are evaluated (engine MINI; module objects are
    symbolic attribute paths) and the set of (target, options) they pass to customize() must contain the reference set"""
    from types import SimpleNamespace
    from ..minieval import Mini, Raised, Unsupported

    class Path(SimpleNamespace):
        def __init__(self, path: str) -> None:
            super().__init__()
            object.__setattr__(self, "_p", path)

        def __getattr__(self, name: str):
            if name.startswith("__") and name.endswith("__") and name not in ("__call__",):
                raise AttributeError(name)
            child = Path(f"{self._p}.{name}")
            object.__setattr__(self, name, child)
            return child
    mod = ctx.P.mod("_glue")
    for q, want in _HIDDEN_BRIDGE_FRAMES.items():
        if not mod.has(q):
            ctx.R.undecided("GRN-5", f"_glue.{q} is not defined any more")
            continue
        fn = mod.fn(q)
        ctx.R.saw(mod, q)
        seen: Dict[str, Dict[str, object]] = {}
        complete = True

        def customize(target=None, *a, **kw):
            if isinstance(target, Path):
                seen.setdefault(target._p, {}).update(kw)
            return None
        env: Dict[str, object] = {"sys": SimpleNamespace(implementation=SimpleNamespace(name="cpython"), version_info=(3, 12, 1, "final", 0))}
        def gattr(o_, n_, *d_):
            if isinstance(o_, Path) and isinstance(n_, str):
                return getattr(o_, n_)
            raise Unsupported("getattr on something that is not a module path")
        helpers_ = {k_: f_ for k_, f_ in mod.defs.items() if isinstance(f_, ast.FunctionDef) and "." not in k_ and f_ is not fn}
        m = Mini(env, helpers_, {"customize": customize, "hasattr": lambda o_, n_: isinstance(o_, Path), "getattr": gattr})
        for st in fn.body:
            if isinstance(st, ast.Import):
                for a_ in st.names:
                    m.env[(a_.asname or a_.name).split(".")[0]] = Path(a_.name.split(".")[0]) if not a_.asname else Path(a_.name)
                continue
            if isinstance(st, (ast.FunctionDef, ast.AsyncFunctionDef, ast.ClassDef)) or (isinstance(st, ast.Expr) and isinstance(st.value, ast.Constant)):
                continue
            if not any(isinstance(c_, ast.Call) for c_ in ast.walk(st)):
                continue
            try:
                m.stmt(st)
            except (Unsupported, Raised):
                complete = False
            except Exception:
                complete = False
        missing = [t for t, kw in want.items() if not all(seen.get(t, {}).get(k_) == v_ for k_, v_ in kw.items())]
        if not missing:
            ctx.R.ok("GRN-5", f"_glue.{q}: customize() evaluated: {sorted(seen)}", f"contains {sorted(want)} with hide=True")
        elif not complete:
            ctx.R.undecided("GRN-5", f"_glue.{q}: some customize() statements are outside the evaluator's fragment and {missing} were not seen")
        else:
            ctx.R.fail("GRN-5", mod, fn, f"{q} no longer hides {missing} (it customises {sorted(seen)}): the frame of that function shows up between the synchronous caller and the coroutine / greenlet it resumes "
                       "-- for outcome.Error.send only when a bridge was last resumed by an exception thrown in (a cancelled task that catches the cancellation)", construct=f"{q}: {missing[0]} not hidden")


def eng6(ctx: Ctx) -> None:
    """ENG-6 with_contexts only decides whether contexts are filled in: the block of extract_iter that is conditional on it
    neither leaves the loop iteration (continue / break / return / yield) nor touches the two work queues, so the frames
    (and leaf) are the same with contexts on or off"""
    mod = ctx.P.mod("_extract")
    fn = mod.fn("extract_iter")
    ctx.R.saw(mod, "extract_iter")
    blocks = [s for s in ast.walk(fn) if isinstance(s, ast.If) and "with_contexts" in norm(s.test)]
    if not blocks:
        raise AnalysisError("ENG-6: extract_iter no longer tests with_contexts")
    for b in blocks:
        bad = None
        for x in ast.walk(b):
            if x is b.test or any(x is y for y in ast.walk(b.test)):
                continue
            if isinstance(x, (ast.Continue, ast.Break, ast.Return, ast.Yield, ast.YieldFrom)):
                bad = (x, f"`{norm(_stmt(mod, x))[:40]}`")
            elif isinstance(x, ast.Name) and x.id in ("to_unwrap", "to_elaborate") and isinstance(mod.parent_of(x), ast.Attribute) and mod.parent_of(x).attr in ("append", "appendleft", "pop", "popleft", "clear", "extend", "insert", "remove"):
                bad = (x, f"a change of {x.id}")
        if bad:
            ctx.R.fail("ENG-6", mod, bad[0], f"under `{norm(b.test)[:50]}` extract_iter does {bad[1]}: which frames are produced then depends on with_contexts", construct="frames depend on with_contexts")
        else:
            ctx.R.ok("ENG-6", f"the block under `{norm(b.test)[:50]}` only fills in contexts and records errors")



def trio3(ctx: Ctx) -> None:
    """TRIO-3 the Trio glue finds out the nursery manager's type by opening a nursery: directly when it is installed from inside a
    run, through its own trio.run() otherwise -- and trio.run() inside a run raises.  So the probe that chooses between the two
    must ask "is a run active on this thread?" (the run context's `runner`), not "is there a current task?": during a run there
    are moments without a task (instruments, signal handlers, the I/O wait).  Decided by reading what the probed Trio function
    looks at in the installed distribution's source"""
    mod = ctx.P.mod("_glue")
    if not mod.has("glue_trio"):
        raise AnalysisError("TRIO-3: _glue.glue_trio not found")
    fn = mod.fn("glue_trio")
    tries = [t for t in walk_scope(fn) if isinstance(t, ast.Try) and any(isinstance(c, ast.Call) and norm(c.func) == "trio.run" for h in t.handlers for c in ast.walk(h))]
    if len(tries) != 1:
        ctx.R.undecided("TRIO-3", f"{len(tries)} try statements fall back to trio.run() in glue_trio (1 expected)")
        return
    t = tries[0]
    aliases = {"lowlevel": "trio.lowlevel", "hazmat": "trio.lowlevel"}
    probes = [c for st in t.body for c in ast.walk(st) if isinstance(c, ast.Call)]
    if not probes:
        ctx.R.undecided("TRIO-3", "the try that falls back to trio.run() probes nothing")
        return
    for c in probes:
        dotted = norm(c.func).split(".")
        if dotted[0] in aliases:
            dotted = aliases[dotted[0]].split(".") + dotted[1:]
        if dotted[0] != "trio" or not all(p_.isidentifier() for p_ in dotted):
            ctx.R.undecided("TRIO-3", f"probe `{norm(c)[:40]}` is not a Trio function")
            continue
        tdef, where = _third_party_def(list(dotted))
        if tdef is None:
            ctx.R.ok("TRIO-3", f"probe {'.'.join(dotted)} not compared", where)
            continue
        reads = {x.attr for x in ast.walk(tdef) if isinstance(x, ast.Attribute) and "GLOBAL_RUN_CONTEXT" in norm(x.value)}
        if "runner" in reads:
            ctx.R.ok("TRIO-3", f"probe {'.'.join(dotted)} reads the run context's runner", where.split("site-packages/")[-1])
        elif "task" in reads:
            ctx.R.fail("TRIO-3", mod, c, f"whether to open the probe nursery directly or through trio.run() is decided by {'.'.join(dotted)}(), which asks for the current *task* ({where.split('site-packages/')[-1]}): "
                       "inside a run but outside any task (an Instrument hook, a signal handler, the I/O wait) it raises, the glue calls trio.run() from inside a run, that raises, the Trio glue is "
                       "abandoned with a warning and nursery contexts keep their manager object with no child tasks", construct=f"glue_trio: run probe {'.'.join(dotted)}")
        else:
            ctx.R.undecided("TRIO-3", f"probe {'.'.join(dotted)} reads {sorted(reads) or 'nothing'} of the run context")


# ----------------------------------------------------------------------------------------------------------------- LOC-1
def _third_party_def(dotted: List[str]) -> Tuple[Optional[ast.AST], str]:
    """the FunctionDef that `pkg.a.b.func` names, found by *reading* the installed distribution (PathFinder locates the
    top-level package without importing it; submodules and `from .x import y as z` re-exports are followed in the source)"""
    import importlib.machinery
    import os
    spec = importlib.machinery.PathFinder.find_spec(dotted[0])
    if spec is None or not spec.origin or not spec.origin.endswith(".py"):
        return None, f"distribution {dotted[0]} not found on this interpreter's path"
    cur = spec.origin

    def parse(path: str) -> Optional[ast.Module]:
        try:
            with open(path, encoding="utf-8") as f:
                return ast.parse(f.read())
        except (OSError, SyntaxError):
            return None

    def submodule(base_file: str, name: str, level_up: int = 0) -> Optional[str]:
        d = os.path.dirname(base_file)
        for _ in range(level_up):
            d = os.path.dirname(d)
        for cand in (os.path.join(d, *name.split(".")) + ".py", os.path.join(d, *name.split("."), "__init__.py")):
            if os.path.exists(cand):
                return cand
        return None

    parts = dotted[1:]
    i = 0
    hops = 0
    while i < len(parts) and hops < 12:
        hops += 1
        nm = parts[i]
        tree = parse(cur)
        if tree is None:
            return None, f"cannot read {cur}"
        found = None
        for n in tree.body:
            if isinstance(n, (ast.FunctionDef, ast.AsyncFunctionDef, ast.ClassDef)) and n.name == nm:
                found = n
        if found is not None:
            if i == len(parts) - 1:
                return (found if isinstance(found, (ast.FunctionDef, ast.AsyncFunctionDef)) else None), cur
            if isinstance(found, ast.ClassDef):
                sub = [m for m in found.body if isinstance(m, (ast.FunctionDef, ast.AsyncFunctionDef)) and m.name == parts[i + 1]]
                return (sub[0] if sub and i + 1 == len(parts) - 1 else None), cur
            return None, cur
        moved = False
        for n in ast.walk(tree):
            if isinstance(n, ast.ImportFrom):
                for a in n.names:
                    if (a.asname or a.name) == nm:
                        base = os.path.dirname(cur) if os.path.basename(cur) == "__init__.py" else os.path.dirname(cur)
                        tgt = None
                        if n.level:
                            anchor = os.path.join(base, "x.py")
                            if n.module:
                                tgt = submodule(anchor, n.module, n.level - 1)
                                if tgt is not None:
                                    # the name may itself be a submodule of n.module
                                    parts[i] = a.name
                                    cur = tgt
                                    moved = True
                            else:
                                tgt = submodule(anchor, a.name, n.level - 1)
                                if tgt is not None:
                                    cur = tgt
                                    i += 1
                                    moved = True
                        break
                if moved:
                    break
        if moved:
            continue
        # `from .x import *`: look for a definition of the name in each star-imported module
        stars = [n for n in ast.walk(tree) if isinstance(n, ast.ImportFrom) and n.level and n.module and any(a.name == "*" for a in n.names)]
        for n in stars:
            tgt = submodule(os.path.join(os.path.dirname(cur), "x.py"), n.module, n.level - 1)
            if tgt is None:
                continue
            t2 = parse(tgt)
            if t2 is not None and any(isinstance(d_, (ast.FunctionDef, ast.AsyncFunctionDef, ast.ClassDef)) and d_.name == nm for d_ in t2.body):
                cur = tgt
                moved = True
                break
        if moved:
            continue
        sm = submodule(cur, nm) if os.path.basename(cur) == "__init__.py" else None
        if sm is not None:
            cur = sm
            i += 1
            continue
        return None, f"`{nm}` not found in {cur}"
    return None, "not resolved"


def loc1(ctx: Ctx) -> None:
    """LOC-1 a frame hook registered for a third-party function reads that function's local variables by name
    (frame.pyframe.f_locals.get("x")).  Where the hook *returns* such a local as the item the stack continues into, and the
    installed distribution's source has a variable of that name, it is the object the function actually drives (the one it passes to / calls .send() or .throw() on, awaits or yields from) --
    the raw argument is a different object whenever the function wraps it first"""
    mod = ctx.P.mod("_glue")
    n = 0
    for q, fn in mod.defs.items():
        if not isinstance(fn, (ast.FunctionDef, ast.AsyncFunctionDef)):
            continue
        targets = []
        for d in fn.decorator_list:
            if isinstance(d, ast.Call) and isinstance(d.func, ast.Attribute) and d.func.attr == "register" and norm(d.func.value) == "elaborate_frame" and d.args:
                t = norm(d.args[0])
                if t.split(".")[0] in ("trio", "greenback") and all(p.isidentifier() for p in t.split(".")):
                    targets.append(t)
        if not targets:
            continue
        fparam = fn.args.args[0].arg if fn.args.args else None
        reads = []
        for c in ast.walk(fn):
            if isinstance(c, ast.Call) and isinstance(c.func, ast.Attribute) and c.func.attr == "get" and norm(c.func.value) == f"{fparam}.pyframe.f_locals" and c.args \
                    and isinstance(c.args[0], ast.Constant) and isinstance(c.args[0].value, str):
                reads.append((c.args[0].value, c))
            elif isinstance(c, ast.Subscript) and norm(c.value) == f"{fparam}.pyframe.f_locals" and isinstance(c.slice, ast.Constant) and isinstance(c.slice.value, str):
                reads.append((c.slice.value, c))
        if not reads:
            continue
        for t in targets:
            tdef, where = _third_party_def(t.split("."))
            if tdef is None:
                ctx.R.ok("LOC-1", f"{q}: {t} not compared", where)
                continue
            ctx.R.note(f"LOC-1 read {t} from {where}")
            args = tdef.args
            names = {a.arg for a in args.posonlyargs + args.args + args.kwonlyargs} | ({args.vararg.arg} if args.vararg else set()) | ({args.kwarg.arg} if args.kwarg else set())
            for x in walk_scope(tdef):
                if isinstance(x, ast.Name) and isinstance(x.ctx, ast.Store):
                    names.add(x.id)
                elif isinstance(x, (ast.FunctionDef, ast.AsyncFunctionDef, ast.ClassDef)):
                    names.add(x.name)
            driven: Set[str] = set()
            for x in ast.walk(tdef):
                if isinstance(x, ast.Call) and isinstance(x.func, ast.Attribute) and x.func.attr in ("send", "throw"):
                    driven |= {a.id for a in x.args if isinstance(a, ast.Name)}
                    if isinstance(x.func.value, ast.Name):
                        driven.add(x.func.value.id)
                elif isinstance(x, (ast.Await, ast.YieldFrom)) and isinstance(x.value, ast.Name):
                    driven.add(x.value.id)
            for name, c in reads:
                n += 1
                if name not in names:
                    # the glue supports several releases of the library and tolerates absent names (.get -> None): not a defect
                    ctx.R.ok("LOC-1", f"{q}: `{name}` is not a variable of {t} in the installed release", "tolerated by the hook (other releases); not compared")
                    continue
                p = mod.parent_of(c)
                if isinstance(p, ast.Return) and driven and name not in driven:
                    ctx.R.fail("LOC-1", mod, c, f"{q} continues the stack into the local `{name}` of {t}, but the object that function drives is {sorted(driven)} (it calls .send()/.throw() on / with it); "
                               f"`{name}` is a different object whenever {t.split('.')[-1]} wraps its argument first, and the trace then ends at this frame with the unwrapped argument as a leaf",
                               construct=f"{q}: continues into {name!r} instead of {sorted(driven)}")
                else:
                    ctx.R.ok("LOC-1", f"{q}: `{name}` is a variable of {t}", "driven object" if isinstance(p, ast.Return) and name in driven else where.split("site-packages/")[-1])
    if n == 0:
        ctx.R.ok("LOC-1", "no third-party distribution available to compare local names with", "not compared")


C14 = [trio1, trio2, trio3, loc1]
C15 = [grn1, grn2, grn3, grn4, grn5, loc1]
