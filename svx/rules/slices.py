"""C04: SLC-1..4; C09: GCM-1, CTX-6..8."""
from __future__ import annotations

import ast
from typing import Dict, List, Optional, Set, Tuple

from ..ctx import Ctx
from ..model import AnalysisError, Mod, norm, walk_scope, calls_in, PKG
from ..util import equivalent
from .opcodes import guards_of, path_guards_of


def _kws(c: ast.Call) -> Dict[str, str]:
    return {k.arg: norm(k.value) for k in c.keywords}


def slc1(ctx: Ctx) -> None:
    mod = ctx.P.mod("_glue")
    fn = mod.fn("unwrap_stackslice")
    ctx.R.saw(mod, "unwrap_stackslice")
    inner = outer = None
    for s in fn.body:
        if isinstance(s, ast.Assign) and norm(s.value) == "spec.outer":
            outer = norm(s.targets[0])
        if isinstance(s, ast.Assign) and norm(s.value) == "spec.inner":
            inner = norm(s.targets[0])
    if not inner or not outer:
        raise AnalysisError("SLC-1: outer_frame/inner_frame bindings vanished")
    # the limit may be read once into a local
    lim_names = {"spec.limit"} | {norm(a.targets[0]) for a in ast.walk(fn) if isinstance(a, ast.Assign) and norm(a.value) == "spec.limit"} \
        | {norm(a.target) for a in ast.walk(fn) if isinstance(a, ast.NamedExpr) and norm(a.value) == "spec.limit"}
    head, tail = [], []
    needs_len: Dict[int, str] = {}

    def bound_form(e: Optional[ast.AST]) -> Optional[str]:
        if e is None:
            return None
        t = norm(e)
        if t in lim_names:
            return "k"
        if t in {"-" + x for x in lim_names}:
            return "-k"
        if t in {f"len(frames) - {x}" for x in lim_names}:
            return "L-k"
        if t in {f"max(len(frames) - {x}, 0)" for x in lim_names} | {f"max(0, len(frames) - {x})" for x in lim_names}:
            return "-k"     # clipped at 0: like a negative index, never wraps
        return None

    for s_ in ast.walk(fn):
        # del frames[limit:]  /  frames = frames[:limit]   keep the head;   del frames[:-limit]  /  frames = frames[-limit:]   keep the tail
        sl = None
        # frames[a:b] = () / []  is  del frames[a:b]
        is_del = isinstance(s_, ast.Delete) or (isinstance(s_, ast.Assign) and len(s_.targets) == 1 and isinstance(s_.value, (ast.Tuple, ast.List)) and not s_.value.elts)
        if is_del and isinstance(s_.targets[0], ast.Subscript) and norm(s_.targets[0].value) == "frames" and isinstance(s_.targets[0].slice, ast.Slice):
            sl = s_.targets[0].slice
            lo, up = bound_form(sl.lower), bound_form(sl.upper)
            if sl.upper is None and lo == "k":
                head.append(s_)
            elif sl.lower is None and up in ("-k", "L-k"):
                tail.append(s_)
                if up == "L-k":
                    needs_len[id(s_)] = norm(sl.upper)
        elif isinstance(s_, ast.Assign) and norm(s_.targets[0]) == "frames" and isinstance(s_.value, ast.Subscript) and norm(s_.value.value) == "frames" and isinstance(s_.value.slice, ast.Slice):
            sl = s_.value.slice
            lo, up = bound_form(sl.lower), bound_form(sl.upper)
            if sl.lower is None and up == "k":
                head.append(s_)
            elif sl.upper is None and lo in ("-k", "L-k"):
                tail.append(s_)
                if lo == "L-k":
                    needs_len[id(s_)] = norm(sl.lower)
    if len(head) != 1 or len(tail) != 1:
        ctx.R.undecided("SLC-1", f"limit trimming not recognised ({len(head)} head-keeping and {len(tail)} tail-keeping operations found)")
        return
    h, t = head[0], tail[0]
    parent = mod.parent_of(h)
    if not isinstance(parent, ast.If) or mod.parent_of(t) is not parent:
        raise AnalysisError("SLC-1: the two deletions are no longer the arms of one if")
    head_in_body = any(h is s for s in parent.body)
    atoms = [f"{inner} is None", f"{outer} is None"]
    spec = (lambda e: e[atoms[0]] and not e[atoms[1]]) if head_in_body else (lambda e: not (e[atoms[0]] and not e[atoms[1]]))
    try:
        ok, cex = equivalent(parent.test, spec, atoms)
    except AnalysisError as ex:
        ok, cex = False, str(ex)
    if ok:
        ctx.R.ok("SLC-1", "a limit keeps the frames nearest outer iff only outer is given, otherwise those nearest inner / the caller", "truth table over (inner is None, outer is None)")
    else:
        ctx.R.fail("SLC-1", mod, parent, f"a limit must keep the frames nearest the given anchor: the head (outer side) iff inner is None and outer is not None, the tail otherwise; counterexample {cex}",
                   construct="limit-trimming condition")
    # the guard: `limit is not None` always; `len(frames) > limit` is required only where the bound is computed as len(frames) - limit
    # (a limit above the length makes that negative, which a slice reads from the other end); bounds written -limit / limit are
    # clipped by the slice itself, so there the length test is an optimisation
    gs = guards_of(mod, parent, fn)
    gexpr: Optional[ast.AST] = None
    if gs:
        parts = [g_ if pol else ast.UnaryOp(op=ast.Not(), operand=g_) for g_, pol in gs]
        gexpr = parts[0] if len(parts) == 1 else ast.BoolOp(op=ast.And(), values=parts)
    ln = [x for x in lim_names if gexpr is not None and x in norm(gexpr)] or ["spec.limit"]
    shapes = []
    for cmp_ in (">", ">="):
        at = [f"{ln[0]} is None", f"len(frames) {cmp_} {ln[0]}"]
        shapes.append((at, lambda e, at=at: (not e[at[0]]) and e[at[1]], "len"))
    shapes.append(([f"{ln[0]} is None"], lambda e: not e[f"{ln[0]} is None"], "none-only"))
    got = None
    understood = False
    if gexpr is not None:
        for at, sp, kind in shapes:
            try:
                if equivalent(gexpr, sp, at)[0]:
                    got = kind
                understood = True
            except AnalysisError:
                pass
    if got == "len":
        ctx.R.ok("SLC-1", "trimming happens iff a limit is given and exceeded")
    elif got == "none-only" and not needs_len:
        ctx.R.ok("SLC-1", "trimming happens iff a limit is given; the slice bounds clip themselves when the limit exceeds the length")
    elif got == "none-only":
        ctx.R.fail("SLC-1", mod, t, f"the tail-keeping bound `{list(needs_len.values())[0]}` is computed without the `len(frames) > limit` guard: for a limit larger than the number of frames it is negative, "
                   "a slice reads a negative bound from the other end, and outer frames are dropped although the limit was not reached", construct="unguarded len(frames) - limit bound")
    elif gexpr is None:
        ctx.R.fail("SLC-1", mod, parent, "limit trimming lost its `limit is not None` guard: with no limit the slice bounds are None / -None", construct="limit guard")
    elif understood:
        ctx.R.fail("SLC-1", mod, gs[0][0], "trimming must happen iff limit is not None and the list is longer than the limit", construct="limit guard")
    else:
        ctx.R.undecided("SLC-1", f"guard of the limit trimming not understood: `{norm(gexpr)[:80]}`")
    # no frames leave the function on a path that skips the trimming: every yield other than the error path's `yield outer; raise`
    # is dominated by the limit block
    g_ = ctx.cfg(fn)
    top_if = parent
    for a_ in mod.ancestors(parent):
        if a_ is fn:
            break
        if isinstance(a_, ast.If):
            top_if = a_
    tnode = g_.node_of(top_if)
    for y in [x for x in walk_scope(fn) if isinstance(x, ast.Expr) and isinstance(x.value, (ast.Yield, ast.YieldFrom))]:
        blk = [b_ for b_ in ast.walk(fn) for fld in ("body", "orelse", "finalbody") if isinstance(getattr(b_, fld, None), list) and y in getattr(b_, fld)]
        seq = [getattr(blk[0], fld) for fld in ("body", "orelse", "finalbody") if isinstance(getattr(blk[0], fld, None), list) and y in getattr(blk[0], fld)][0] if blk else []
        nxt = seq[seq.index(y) + 1] if seq and seq.index(y) + 1 < len(seq) else None
        if isinstance(nxt, ast.Raise):
            continue      # the "couldn't find where the above frame is running" path
        if g_.dominates(tnode, g_.node_of(y)):
            ctx.R.ok("SLC-1", f"`{norm(y)[:40]}` comes after the limit block on every path")
        else:
            ctx.R.fail("SLC-1", mod, y, f"`{norm(y)[:50]}` hands frames to the caller on a path that does not pass the limit trimming: for the slices that take this path a limit is ignored "
                       "(the whole stack is returned instead of the frames nearest the anchor)", construct="frames yielded before the limit is applied")
    # yield from frames at the end
    last = fn.body[-1]
    if isinstance(last, ast.Expr) and isinstance(last.value, ast.YieldFrom) and norm(last.value.value) == "frames":
        ctx.R.ok("SLC-1", "the trimmed list is what is yielded")
    else:
        ctx.R.fail("SLC-1", mod, last, "unwrap_stackslice must end by yielding the (trimmed) frame list")


def slc2(ctx: Ctx) -> None:
    mod = ctx.P.mod("_extract")
    since = mod.fn("extract_since")
    until = mod.fn("extract_until")
    ctx.R.saw(mod, "extract_since")
    ctx.R.saw(mod, "extract_until")
    tm = ctx.P.mod("_types")
    cls = tm.fn("StackSlice")
    fields = [norm(s.target) for s in cls.body if isinstance(s, ast.AnnAssign)]
    if fields != ["outer", "inner", "limit"]:
        ctx.R.fail("SLC-2", tm, cls, f"StackSlice's documented fields are outer, inner, limit; found {fields}")
    sc = [c for c in ast.walk(since) if isinstance(c, ast.Call) and norm(c.func) == "StackSlice"]
    p0 = since.args.args[0].arg
    drop_none = lambda d_: {k_: v_ for k_, v_ in d_.items() if v_ != "None"}       # a field passed explicitly at its default
    if len(sc) == 1 and drop_none(_kws(sc[0])) == {"outer": p0} and not sc[0].args:
        ctx.R.ok("SLC-2", f"extract_since -> StackSlice(outer={p0})")
    elif len(sc) != 1 or sc[0].args or any(k_ not in ("outer", "inner", "limit") for k_ in _kws(sc[0])):
        ctx.R.undecided("SLC-2", f"extract_since builds {len(sc)} StackSlice(s) in a form that is not recognised")
    else:
        ctx.R.fail("SLC-2", mod, since, f"extract_since(frame) must be extract(StackSlice(outer=frame))", construct="extract_since mapping")
    inner = until.args.args[0].arg
    _slc2_until(ctx, mod, until, inner)
    # every StackSlice construction in the package names its fields
    n = 0
    for m in ctx.P.analysed_mods():
        for c in ast.walk(m.tree):
            if isinstance(c, ast.Call) and norm(c.func) == "StackSlice":
                n += 1
                if c.args or not set(_kws(c)) <= {"outer", "inner", "limit"}:
                    ctx.R.fail("SLC-2", m, c, "StackSlice must be built with keyword arguments outer/inner/limit (positional use silently swaps anchors)")
    ctx.R.ok("SLC-2", f"{n} StackSlice constructions use field keywords")


def _slc2_until(ctx: Ctx, mod: Mod, until: ast.AST, inner: str) -> None:
    """extract_until as a table over what `limit` is: a frame -> StackSlice(outer=<frame found by walking f_back from inner_frame
    until it is the limit>, inner=inner_frame), raising if the walk runs out; an int or None -> StackSlice(inner=inner_frame,
    limit=limit); anything else -> raise.  The f_back walk is decided separately as a step function."""
    import copy
    from ..stepper import Stepper, enumerate_table
    from ..emit import Unsupported
    body = copy.deepcopy([x for x in until.body if not (isinstance(x, ast.Expr) and isinstance(x.value, ast.Constant))])
    walks: List[ast.AST] = []
    F_, I_, N_, W_ = "isinstance(limit, types.FrameType)", "isinstance(limit, int)", "limit is None", "WALKED is None"
    known = [F_, I_, N_, W_]

    def run(assign):
        st = Stepper(assign)

        def on_loop(loop, env):
            if loop not in walks:
                walks.append(loop)
            # the variable the loop advances along f_back
            if any(isinstance(a_, ast.Attribute) and a_.attr == "f_back" for a_ in ast.walk(loop)):
                # every name the walk assigns is (an alias of) where the walk ended; "ran out" is the atom `WALKED is None`
                for a_ in ast.walk(loop):
                    if isinstance(a_, ast.Assign) and len(a_.targets) == 1 and isinstance(a_.targets[0], ast.Name):
                        env[a_.targets[0].id] = ast.Name(id="WALKED", ctx=ast.Load())
        st.on_loop = on_loop
        k, v = st.run(body, {})
        if k == "return" and v is not None:
            sl = [c for c in ast.walk(v) if isinstance(c, ast.Call) and norm(c.func) == "StackSlice"]
            # functools.partial(extract, **opts)(<slice>) is extract(<slice>, **opts)
            if isinstance(v, ast.Call) and isinstance(v.func, ast.Call) and norm(v.func.func) in ("functools.partial", "partial") and v.func.args and norm(v.func.args[0]) == "extract" \
                    and len(v.func.args) == 1:
                v = ast.Call(func=v.func.args[0], args=list(v.args), keywords=list(v.func.keywords) + list(v.keywords))
            if isinstance(v, ast.Call) and norm(v.func) == "extract" and len(sl) == 1 and not sl[0].args:
                return ("SLICE", tuple(sorted((k_.arg, norm(k_.value)) for k_ in sl[0].keywords)))
            return ("RETURN", norm(v)[:60])
        return (k.upper(), "")

    try:
        atoms, rows = enumerate_table(run, known)
    except Unsupported as ex:
        ctx.R.undecided("SLC-2", f"extract_until is outside the step interpreter: {ex}")
        return
    bad = None
    for assign, out in rows:
        if assign[N_] and (assign[F_] or assign[I_]):
            continue  # None is neither a frame nor an int
        if assign[F_] and assign[I_]:
            continue
        if assign[F_]:
            want = ("RAISE", "") if assign[W_] else ("SLICE", (("inner", inner), ("outer", "WALKED")))
        elif assign[I_] or assign[N_]:
            want = ("SLICE", (("inner", inner), ("limit", "limit")))
        else:
            want = ("RAISE", "")
        if out != want and bad is None:
            bad = (assign, out, want)
    if bad is None:
        ctx.R.ok("SLC-2", f"extract_until: frame limit -> StackSlice(outer=<walked frame>, inner={inner}) or raise; int/None -> StackSlice(inner={inner}, limit=limit); else raise",
                 f"{len(rows)} combinations of {atoms}")
    else:
        assign, out, want = bad
        shown = {k_: v_ for k_, v_ in assign.items() if v_ or k_ not in known}
        if out[0] == "RETURN":
            ctx.R.undecided("SLC-2", f"extract_until returns `{out[1]}`, which is not recognisably extract(StackSlice(...)) (case {shown})")
            return
        if want[0] == "RAISE" and assign[F_]:
            ctx.R.fail("SLC-2", mod, until, "extract_until must raise when the frame-valued limit is not an indirect caller of inner_frame", construct="extract_until frame-limit: no raise")
        elif assign[F_]:
            ctx.R.fail("SLC-2", mod, until, f"with a frame-valued limit extract_until must pass StackSlice(outer=<the limit frame found by walking f_back>, inner=inner_frame); it gives {out}",
                       construct="extract_until frame-limit mapping")
        else:
            ctx.R.fail("SLC-2", mod, until, f"extract_until, case {shown or 'limit of another type'}: {out} where {want} is required "
                       "(an integer or absent limit must pass StackSlice(inner=inner_frame, limit=limit); other types must be refused)", construct="extract_until int-limit mapping")
    # the walk itself: starts at inner_frame, stops at the limit (or None), otherwise steps to f_back
    if len(walks) != 1:
        ctx.R.undecided("SLC-2", f"{len(walks)} loops in extract_until (one f_back walk expected)")
        return
    loop = walks[0]
    ov = next((a_.targets[0].id for a_ in ast.walk(loop) if isinstance(a_, ast.Assign) and isinstance(a_.value, ast.Attribute) and a_.value.attr == "f_back" and isinstance(a_.targets[0], ast.Name)), None)
    if ov is None or not isinstance(loop, ast.While):
        ctx.R.undecided("SLC-2", "the f_back walk for a frame-valued limit is not a while loop advancing a variable along f_back")
        return
    init = [s_ for s_ in ast.walk(ast.Module(body=body, type_ignores=[])) if isinstance(s_, (ast.Assign, ast.AnnAssign)) and norm(s_.targets[0] if isinstance(s_, ast.Assign) else s_.target) == ov
            and s_.value is not None and not any(s_ is x for x in ast.walk(loop))]
    if not init or any(norm(s_.value) != inner for s_ in init):
        ctx.R.fail("SLC-2", mod, loop, f"the walk towards a frame-valued limit must start at {inner} itself (extract_until(f, limit=f) is the one-frame stack [f]); it starts at "
                   f"`{norm(init[0].value) if init else '?'}`", construct="extract_until walk start")
    L_, E_, C_ = f"{ov} is limit", f"{ov} is None", f"{ov}.f_back is {inner}"

    def step(assign):
        st = Stepper(assign)
        if not st.truth(loop.test):
            return ("EXIT", ov)
        env: Dict[str, ast.AST] = {}
        k, v = st.run(loop.body, env)
        cur = norm(env[ov]) if ov in env else ov
        if k in ("fall", "continue"):
            return ("STEP", cur)
        if k == "break":
            return ("EXIT", cur)
        return (k.upper(), cur)

    try:
        atoms2, rows2 = enumerate_table(step, [L_, E_, C_])
    except Unsupported as ex:
        ctx.R.undecided("SLC-2", f"the f_back walk is outside the step interpreter: {ex}")
        return
    badw = None
    for assign, out in rows2:
        if assign[L_] and assign[E_]:
            continue
        if assign[E_] and assign[C_]:
            continue
        if assign[L_] or assign[E_]:
            want = ("EXIT", ov)
        elif assign[C_]:
            want = None  # the cycle guard (PyPy greenlets) may stop here or not
        else:
            want = ("STEP", f"{ov}.f_back")
        if want is not None and out != want and badw is None:
            badw = (assign, out, want)
    if badw is None:
        ctx.R.ok("SLC-2", f"the walk leaves {ov} unchanged when it is the limit or None and otherwise steps to {ov}.f_back", f"{len(rows2)} combinations")
    else:
        assign, out, want = badw
        ctx.R.fail("SLC-2", mod, loop, f"f_back walk of extract_until: with {dict((k_, v_) for k_, v_ in assign.items() if v_)} one step gives {out} where {want} is required", construct="extract_until walk step")


def slc3(ctx: Ctx) -> None:
    mod = ctx.P.mod("_glue")
    fn = mod.fn("get_true_caller")
    ctx.R.saw(mod, "get_true_caller")
    im = mod.fn("get_true_caller.is_mine")
    p = im.args.args[0].arg
    own, tests = f"{p}.startswith('{PKG}.')", f"{p}.startswith('{PKG}._tests.')"
    from ..stepper import Stepper, enumerate_table
    from ..emit import Unsupported
    import copy as _copy
    ibody = _copy.deepcopy([x for x in im.body if not (isinstance(x, ast.Expr) and isinstance(x.value, ast.Constant))])

    from ..util import fold_str

    class FoldArgs(ast.NodeTransformer):
        """X.startswith(<expression that folds to a string>) -> X.startswith('<that string>')"""
        def visit_Call(self, c: ast.Call):
            self.generic_visit(c)
            if isinstance(c.func, ast.Attribute) and c.func.attr == "startswith" and len(c.args) == 1 and not isinstance(c.args[0], ast.Constant):
                v = fold_str(mod, c.args[0])
                if isinstance(v, str):
                    c.args[0] = ast.copy_location(ast.Constant(value=v), c.args[0])
            return c
    ibody = [FoldArgs().visit(x) for x in ibody]

    def run_im(assign):
        st = Stepper(assign)
        st.on_loop = lambda loop, env: None
        k, v = st.run(ibody, {})
        if k == "return" and v is not None:
            return st.truth(v)
        return None

    verdict = None
    try:
        import re as _re

        def _lit(a: str) -> Optional[str]:
            m_ = _re.fullmatch(_re.escape(p) + r"\.startswith\('([^']*)'\)", a)
            return m_.group(1) if m_ else None

        def feasible(assign: Dict[str, bool]) -> bool:
            # startswith('ab') implies startswith('a')
            lits = {a: _lit(a) for a in assign if _lit(a) is not None}
            for a, la in lits.items():
                if assign[a]:
                    for b, lb in lits.items():
                        if b != a and la.startswith(lb) and not assign[b]:
                            return False
            return True
        atoms_, rows_ = enumerate_table(run_im, [own, tests], feasible=feasible)
        understood = all(_lit(a) is not None for a in atoms_)
        groups_: Dict[tuple, list] = {}
        for assign, out in rows_:
            want = assign[own] and not assign[tests]
            groups_.setdefault((assign[own], assign[tests]), []).append((assign, out, out is not None and bool(out) == want))
        allbad = [lst[0] for lst in groups_.values() if all(not r[2] for r in lst)]
        somebad = [r for lst in groups_.values() for r in lst if not r[2]]
        if somebad and understood:
            allbad = allbad or [somebad[0]]  # every atom is a prefix test on the same name: each feasible row is a real module name
        verdict = ("fail", allbad[0]) if allbad else (("undecided", somebad[0]) if somebad else ("ok", None))
    except (Unsupported, AnalysisError) as ex:
        verdict = ("undecided", str(ex))
    if verdict[0] == "ok":
        ctx.R.ok("SLC-3", f"a frame is stackscope's own iff its module name starts with '{PKG}.' and not with '{PKG}._tests.'")
    elif verdict[0] == "fail":
        ctx.R.fail("SLC-3", mod, im, f"is_mine must hold exactly for modules under '{PKG}.' other than '{PKG}._tests.': otherwise stackscope's own frames leak into results, or callers' frames are dropped; "
                   f"counterexample {verdict[1][0]} -> {verdict[1][1]}", construct="is_mine predicate")
    else:
        ctx.R.undecided("SLC-3", f"is_mine is computed in a way the rule cannot follow (a memo, a helper): {str(verdict[1])[:120]}")
    loops = [s for s in walk_scope(fn) if isinstance(s, ast.While)]        # at the top level or inside a try / with that only wraps it
    okl = False
    if len(loops) != 1:
        ctx.R.undecided("SLC-3", f"get_true_caller has {len(loops)} while loops (1 expected)")
        return
    if len(loops) == 1:
        cv = "caller"
        atoms = [f"{cv} is None", f"is_mine({cv}.f_globals.get('__name__', ''))", f"{cv}.f_code is functools_singledispatch_wrapper"]
        try:
            okl, cex = equivalent(loops[0].test, lambda e: (not e[atoms[0]]) and (e[atoms[1]] or e[atoms[2]]), atoms)
        except AnalysisError as ex:
            okl, cex = False, str(ex)
        okl = okl and [norm(x) for x in loops[0].body] == [f"{cv} = {cv}.f_back"]
    if okl:
        ctx.R.ok("SLC-3", "skip outward while the frame is stackscope's own or functools.singledispatch's wrapper")
    elif 'cex' in dir() and isinstance(cex, str):
        ctx.R.undecided("SLC-3", f"the skip loop of get_true_caller is not understood: {cex[:100]}")
    else:
        ctx.R.fail("SLC-3", mod, loops[0] if loops else fn, "get_true_caller must walk f_back while the frame is internal (is_mine or the singledispatch wrapper)", construct="get_true_caller loop")
    w = mod.toplevel_assign("functools_singledispatch_wrapper")
    if w is not None and norm(w.value) == "get_code(functools.singledispatch, 'wrapper')":
        ctx.R.ok("SLC-3", "the singledispatch wrapper is identified by its code object")
    else:
        ctx.R.fail("SLC-3", mod, w, "functools_singledispatch_wrapper must be get_code(functools.singledispatch, 'wrapper')", qualname="_glue.functools_singledispatch_wrapper")
    init = [s for s in fn.body if isinstance(s, (ast.Assign, ast.AnnAssign)) and s.value is not None and norm(s.value) == "sys._getframe(1)"]
    if init:
        ctx.R.ok("SLC-3", "the walk starts at the caller of get_true_caller")
    else:
        ctx.R.fail("SLC-3", mod, fn, "the walk must start at sys._getframe(1)", construct="sys._getframe(1)")


def slc4(ctx: Ctx) -> None:
    """SLC-4 sibling agreement of the three built-in unwrappers, as a table: a running generator / coroutine unwraps to
    StackSlice(outer=<its frame>), a suspended one to (<its frame>, <what it is delegating to>); each reads only the
    attributes of its own family (gi_* / cr_* / ag_*); an async generator counts as running only while ag_await is None"""
    import copy
    from ..stepper import Stepper, enumerate_table
    from ..emit import Unsupported
    mod = ctx.P.mod("_glue")
    sib = {"unwrap_geniter": ("gi", "gi_yieldfrom"), "unwrap_coro": ("cr", "cr_await"), "unwrap_asyncgen": ("ag", "ag_await")}

    class GA(ast.NodeTransformer):
        """getattr(x, 'name') -> x.name"""
        def visit_Call(self, c: ast.Call):
            self.generic_visit(c)
            if isinstance(c.func, ast.Name) and c.func.id == "getattr" and len(c.args) == 2 and isinstance(c.args[1], ast.Constant) and isinstance(c.args[1].value, str):
                return ast.copy_location(ast.Attribute(value=c.args[0], attr=c.args[1].value, ctx=ast.Load()), c)
            return c

    for name, (pre, nxt) in sib.items():
        q = f"glue_builtins.{name}"
        if not mod.has(q):
            raise AnalysisError(f"anchor vanished: _glue.{q} is not defined any more")
        fn = mod.fn(q)
        ctx.R.saw(mod, q)
        p = fn.args.args[0].arg
        body = [GA().visit(copy.deepcopy(x)) for x in fn.body if not (isinstance(x, ast.Expr) and isinstance(x.value, ast.Constant))]
        R_ = f"{p}.{pre}_running"
        A_ = f"{p}.ag_await is None"
        known = [R_] + ([A_] if pre == "ag" else [])

        def run(assign, body=body):
            st = Stepper(assign, simplify=lambda e: GA().visit(e))
            k, v = st.run(body, {})
            if k == "return" and v is not None:
                return norm(GA().visit(v))
            return k

        try:
            atoms, rows = enumerate_table(run, known)
        except Unsupported as ex:
            ctx.R.undecided("SLC-4", f"{name} is outside the step interpreter: {ex}")
            continue
        bad = some = None
        groups: Dict[tuple, list] = {}
        for assign, out in rows:
            running = assign[R_] and (assign[A_] if pre == "ag" else True)
            want = f"StackSlice(outer={p}.{pre}_frame)" if running else f"({p}.{pre}_frame, {p}.{nxt})"
            same = out == want or (not running and pre == "ag" and assign[A_] and out == f"({p}.{pre}_frame, None)")      # ag_await is None on this row: the literal is the same value
            groups.setdefault(tuple(assign[k_] for k_ in known), []).append((assign, out, want, same))
        for lst in groups.values():
            wrong = [r for r in lst if not r[3]]
            if wrong and len(wrong) == len(lst):
                bad = bad or wrong[0]
            elif wrong:
                some = some or wrong[0]
        if bad is None and some is None:
            ctx.R.ok("SLC-4", f"{name}: running -> StackSlice(outer={pre}_frame); suspended -> ({pre}_frame, {nxt})", f"{len(rows)} combinations of {atoms}")
        elif bad is not None:
            assign, out, want, _ = bad
            ctx.R.fail("SLC-4", mod, fn, f"{name} must unwrap a running object to StackSlice(outer=its frame) and a suspended one to (its frame, what it awaits), like its siblings; "
                       f"with {dict((k_, v_) for k_, v_ in assign.items() if k_ in known)} it returns `{out}` where `{want}` is required", construct=f"{name} shape")
        else:
            ctx.R.undecided("SLC-4", f"{name}: differs from its siblings only for some values of {[a_ for a_ in atoms if a_ not in known]}")


# ===================================================================== C09
def gcm1(ctx: Ctx) -> None:
    mod = ctx.P.mod("_glue")
    n = 0
    for q, gen_attr in (("glue_contextlib.elaborate_generatorbased_contextmanager", "gen"), ("glue_async_generator.elaborate_generatorbased_contextmanager", "_agen")):
        fn = mod.fn(q)
        ctx.R.saw(mod, q)
        mv, cv = fn.args.args[0].arg, fn.args.args[1].arg
        st = [s for s in ast.walk(fn) if isinstance(s, ast.Assign) and norm(s.targets[0]) == f"{cv}.inner_stack"]
        if len(st) != 1:
            ctx.R.fail("GCM-1", mod, fn, "a generator-based manager's context must get inner_stack exactly once", construct=f"{q}: inner_stack store")
            continue
        n += 1
        gs = [(norm(g), pol) for g, pol in guards_of(mod, st[0], fn)]
        v = st[0].value
        arg0 = v.args[0] if isinstance(v, ast.Call) and v.args else None
        if isinstance(arg0, ast.Name):
            # a local that is assigned once, from the manager's generator, in the same block just before
            defs_ = [a for a in walk_scope(fn) if isinstance(a, ast.Assign) and any(isinstance(t, ast.Name) and t.id == arg0.id for t in a.targets)]
            if len(defs_) == 1 and len(defs_[0].targets) == 1 and defs_[0].lineno <= st[0].lineno and guards_of(mod, defs_[0], fn) == guards_of(mod, st[0], fn):
                arg0 = defs_[0].value
        okv = isinstance(v, ast.Call) and ctx.P.resolve_call(mod, v).is_pkg("_extract", "extract_child") and arg0 is not None and norm(arg0) == f"{mv}.{gen_attr}" and _kws(v) == {"for_task": "False"}
        okg = gs in ([(f"not {cv}.is_exiting", True)], [(f"{cv}.is_exiting", False)])
        if okv and okg:
            ctx.R.ok("GCM-1", f"{q.split('.')[0]}: inner_stack = extract_child({mv}.{gen_attr}, for_task=False) iff not exiting")
        elif not okg:
            ctx.R.fail("GCM-1", mod, st[0], "inner_stack must be extracted unless (and only unless) the manager is exiting: an exiting manager's frames already appear in the main frame series", construct=f"{q}: guard of inner_stack")
        elif isinstance(v, ast.Call) and ctx.P.resolve_call(mod, v).is_pkg("_extract", "extract_child") and ((isinstance(arg0, ast.Attribute) and norm(arg0.value) == mv) or _kws(v) != {"for_task": "False"}
                                                                                                         or (arg0 is not None and norm(arg0) == mv)):
            ctx.R.fail("GCM-1", mod, st[0], f"inner_stack must be extract_child(<the manager's generator>, for_task=False)", construct=f"{q}: inner_stack value")
        else:
            ctx.R.undecided("GCM-1", f"{q}: inner_stack = {norm(v)[:80]} is not a recognised form of extract_child({mv}.{gen_attr}, for_task=False)")
    if n < 2:
        raise AnalysisError("GCM-1: sibling registrations not found")


def ctx678(ctx: Ctx) -> None:
    mod = ctx.P.mod("_glue")
    q = "glue_contextlib.elaborate_exit_stack"
    fn = mod.fn(q)
    ctx.R.saw(mod, q)
    CL = ctx.F["contextlib"]
    sv, cv = fn.args.args[0].arg, fn.args.args[1].arg
    versions = sorted(CL, key=lambda s: tuple(map(int, s.split("."))))
    # --- private names vs contextlib.py of each interpreter
    g = mod.fn("glue_contextlib")
    priv = [n.attr for n in ast.walk(g) if isinstance(n, ast.Attribute) and norm(n.value) == "cast(Any, contextlib)"]
    for v in versions:
        for nm in priv:
            if nm in CL[v]["bases"]:
                ctx.R.ok("CTX-6", f"{v}: contextlib.{nm} exists")
            else:
                ctx.R.fail("CTX-6", mod, g, f"CPython {v}: contextlib has no class {nm}", construct=f"{v}: contextlib.{nm}")
        for base, cls in (("_BaseExitStack", "ExitStack"), ("_BaseExitStack", "AsyncExitStack")):
            if base not in CL[v]["bases"][cls]:
                ctx.R.fail("CTX-6", mod, g, f"CPython {v}: {cls} does not derive from {base}: the registration on {base} misses it", construct=f"{v}: {cls} bases")
    cbs = [s for s in ast.walk(fn) if isinstance(s, (ast.Assign, ast.AnnAssign)) and s.value is not None and f"{sv}._exit_callbacks" in norm(s.value)]
    if len(cbs) != 1:
        raise AnalysisError("CTX-6: read of _exit_callbacks vanished")
    cb_var = norm(cbs[0].targets[0] if isinstance(cbs[0], ast.Assign) else cbs[0].target)
    for v in versions:
        if "_exit_callbacks" in CL[v]["exitstack_init_attrs"]:
            ctx.R.ok("CTX-6", f"{v}: _BaseExitStack stores its callbacks in _exit_callbacks")
        else:
            ctx.R.fail("CTX-6", mod, cbs[0], f"CPython {v}: _BaseExitStack has no _exit_callbacks", construct=f"{v}: _exit_callbacks")
    # registration order preserved
    if norm(cbs[0].value) in (f"list({sv}._exit_callbacks)", f"tuple({sv}._exit_callbacks)"):
        ctx.R.ok("CTX-7", "callbacks are read in deque order (registration order)")
    else:
        ctx.R.fail("CTX-7", mod, cbs[0], "children must follow registration order: the deque must be read front to back, unreversed", construct="callbacks order")
    loops = [s for s in fn.body if isinstance(s, ast.For) and cb_var in norm(s.iter)]
    if len(loops) != 1 or norm(loops[0].iter) != f"enumerate({cb_var})":
        raise AnalysisError("CTX-7: loop over the callbacks vanished")
    loop = loops[0]
    tgt = loop.target
    pair = tgt.elts[1] if isinstance(tgt, ast.Tuple) and len(tgt.elts) == 2 else None
    if not isinstance(pair, ast.Tuple) or len(pair.elts) != 2:
        raise AnalysisError("CTX-6: (is_sync, callback) unpacking vanished")
    sync_v, cb_v = norm(pair.elts[0]), norm(pair.elts[1])
    for v in versions:
        order = CL[v]["callback_tuple_order"]
        if order == ["is_sync", "callback"] and (sync_v, cb_v) == ("is_sync", "callback"):
            ctx.R.ok("CTX-6", f"{v}: _exit_callbacks elements are (is_sync, callback), unpacked in that order")
        else:
            ctx.R.fail("CTX-6", mod, loop, f"CPython {v}: contextlib pushes {order}; stackscope unpacks ({sync_v}, {cb_v})", construct=f"{v}: tuple order")
    # --- the classification
    pairs_ok = {("enter_context", "enter_async_context"), ("push", "push_async_exit"), ("callback", "push_async_callback")}
    n_pairs = 0
    for s in ast.walk(loop):
        if isinstance(s, ast.Assign) and norm(s.targets[0]) == "method" and isinstance(s.value, ast.IfExp):
            n_pairs += 1
            e = s.value
            if norm(e.test) == sync_v and not (isinstance(e.body, ast.Constant) and isinstance(e.orelse, ast.Constant)):
                ctx.R.undecided("CTX-6", f"method names are chosen by {sync_v} but not between two literals: {norm(s)[:60]}")
                continue
            if norm(e.test) != sync_v:
                ctx.R.fail("CTX-6", mod, s, f"the registration method must be chosen by the callback's own sync flag `{sync_v}`, not by `{norm(e.test)[:40]}`")
                continue
            pr = (e.body.value, e.orelse.value)
            if pr not in pairs_ok:
                ctx.R.fail("CTX-6", mod, s, f"{pr} is not a sync/async pair of ExitStack/AsyncExitStack registration methods", construct=f"method pair {pr}")
                continue
            bad = [v for v in versions if pr[0] not in CL[v]["exitstack_methods"] or pr[1] not in CL[v]["asyncexitstack_methods"]]
            if bad:
                ctx.R.fail("CTX-6", mod, s, f"{pr} are not methods of ExitStack/AsyncExitStack on CPython {bad}", construct=f"method pair {pr}")
            else:
                ctx.R.ok("CTX-6", f"method pair {pr}", "real methods on all four interpreters")
    # positive evidence of a wrong selector: an async method name chosen under a test on the *stack's* type
    for c_ in ast.walk(fn):
        if isinstance(c_, ast.Constant) and c_.value in ("enter_async_context", "push_async_exit", "push_async_callback"):
            gs_ = [norm(gx) for gx, pol in guards_of(mod, c_, fn)]
            sel = [gx for gx in gs_ if gx.startswith(f"isinstance({sv},")]
            if sel:
                ctx.R.fail("CTX-6", mod, c_, f"the registration method name {c_.value!r} is chosen by `{sel[0][:60]}` (the kind of exit stack) instead of by each callback's own sync flag: "
                           "a synchronous registration on an AsyncExitStack is described as the async method", construct=f"method name {c_.value} selected by stack type")
    if n_pairs < 4:
        raise AnalysisError(f"CTX-6: {n_pairs} method classifications found (4 confirmed by hand)")
    # which branch says what
    top = [s for s in loop.body if isinstance(s, ast.If)]
    if len(top) != 1:
        raise AnalysisError("CTX-6: classification if/elif/else vanished")
    t = top[0]

    def method_pair(body: List[ast.stmt]) -> List[Tuple[str, str]]:
        out = []
        for s in body:
            for x in ast.walk(s):
                if isinstance(x, ast.Assign) and norm(x.targets[0]) == "method" and isinstance(x.value, ast.IfExp) and isinstance(x.value.body, ast.Constant):
                    out.append((x.value.body.value, x.value.orelse.value))
        return out

    if norm(t.test) == f"hasattr({cb_v}, '__self__')":
        inner = [s for s in t.body if isinstance(s, ast.If)]
        okb = False
        if len(inner) == 1:
            a, b = method_pair(inner[0].body), method_pair(inner[0].orelse)
            cond = norm(inner[0].test)
            at = [f"isinstance({cb_v}, types.MethodType)", f"{cb_v}.__func__.__name__ in ('__exit__', '__aexit__')"]
            ENTER, PUSH = [("enter_context", "enter_async_context")], [("push", "push_async_exit")]
            swapped = (a == PUSH and b == ENTER)       # the same classification with the test negated and the arms exchanged
            spec = (lambda e: not ((not e[at[0]]) or e[at[1]])) if swapped else (lambda e: (not e[at[0]]) or e[at[1]])
            try:
                okc, _ = equivalent(inner[0].test, spec, at)
            except AnalysisError:
                okc = False
            # short-circuit order matters: __func__ may only be read once the callback is known to be a MethodType
            okorder = isinstance(inner[0].test, ast.BoolOp) and "isinstance(" in norm(inner[0].test.values[0])
            okb = ((a == ENTER and b == PUSH) or swapped) and okc and okorder
        if okb:
            ctx.R.ok("CTX-6", "bound __exit__/__aexit__ -> enter_context|enter_async_context; other bound method -> push|push_async_exit")
        else:
            ctx.R.fail("CTX-6", mod, t, "a callback with __self__ must be classified as enter_(async_)context iff it is not a Python-level bound method or it is the manager's __exit__/__aexit__, "
                       "and as push(_async_exit) otherwise; `.__func__` may only be read after the isinstance(..., types.MethodType) test (C-level bound methods have __self__ but no __func__: "
                       "AttributeError loses every child of the stack)", construct="bound-method classification")
        for v in versions:
            if all(r.startswith("MethodType(") for r in CL[v]["exit_wrapper_returns"]):
                ctx.R.ok("CTX-6", f"{v}: contextlib wraps a manager's exit as MethodType(cm_exit, cm) (so __self__ is the manager)")
            else:
                ctx.R.fail("CTX-6", mod, t, f"CPython {v}: contextlib no longer wraps exits as bound methods: {CL[v]['exit_wrapper_returns']}", construct=f"{v}: exit wrapper")
    else:
        ctx.R.fail("CTX-6", mod, t, "classification must start from hasattr(callback, '__self__')", construct="classification root")
    el = t.orelse[0] if t.orelse and isinstance(t.orelse[0], ast.If) else None
    if el is None:
        raise AnalysisError("CTX-6: _exit_wrapper branch vanished")
    cond = norm(el.test)
    a, b = method_pair(el.body), method_pair(el.orelse)
    if a == [("callback", "push_async_callback")] and b == [("push", "push_async_exit")]:
        ctx.R.ok("CTX-6", "wrapped plain callback -> callback|push_async_callback; bare exit-like function -> push|push_async_exit")
    else:
        ctx.R.fail("CTX-6", mod, el, "a callback recognised as contextlib's _exit_wrapper must be reported as callback/push_async_callback, any other function as push/push_async_exit", construct="function classification")
    lits = {n.value for n in ast.walk(el.test) if isinstance(n, ast.Constant) and isinstance(n.value, str)}
    for v in versions:
        ws = CL[v]["cb_wrappers"]
        names = {w["inner_name"] for w in ws.values()}
        free = set.intersection(*(set(w["freevars"]) for w in ws.values()))
        want_lits = lits - {"__wrapped__", "__name__"}
        inner_lit = [x for x in want_lits if x.startswith("_")]
        fv_lits = want_lits - set(inner_lit)
        if set(inner_lit) <= names and fv_lits <= free and "__wrapped__" in lits and set(CL[v]["wrapped_setters"]) >= {"callback", "push_async_callback"}:
            ctx.R.ok("CTX-6", f"{v}: wrapper is named {sorted(names)}, closes over {sorted(free)}, and callback()/push_async_callback() set __wrapped__")
        else:
            ctx.R.fail("CTX-6", mod, el, f"CPython {v}: the recogniser expects wrapper name {inner_lit}, free variables {sorted(fv_lits)} and __wrapped__; contextlib has {sorted(names)}, {sorted(free)}, setters {CL[v]['wrapped_setters']}",
                       construct=f"{v}: _exit_wrapper recogniser")
    # the cells read are the ones named (the lookup may live in a nested helper)
    idxs = {norm(a.targets[0]): norm(a.value) for a in ast.walk(g) if isinstance(a, ast.Assign) and "co_freevars.index(" in norm(a.value)}
    by_name = {v.split("index(")[-1].rstrip(")").strip("'\""): k for k, v in idxs.items()}
    if "args" in by_name and "kwds" in by_name:
        fcalls = [c for c in ast.walk(g) if isinstance(c, ast.Call) and norm(c.func) == "format_funcargs" and len(c.args) == 2]
        cellargs = [c for c in fcalls if "cell_contents" in norm(c.args[0])]
        if len(cellargs) == 1:
            a0, a1 = norm(cellargs[0].args[0]), norm(cellargs[0].args[1])
            if f"[{by_name['args']}].cell_contents" in a0 and f"[{by_name['kwds']}].cell_contents" in a1:
                ctx.R.ok("CTX-6", "positional arguments are read from the 'args' cell and keyword arguments from the 'kwds' cell, in that order")
            elif f"[{by_name['kwds']}].cell_contents" in a0 and f"[{by_name['args']}].cell_contents" in a1:
                ctx.R.fail("CTX-6", mod, cellargs[0], "format_funcargs receives the 'kwds' cell as positional arguments and the 'args' cell as keyword arguments", construct="closure cells order")
            else:
                ctx.R.undecided("CTX-6", "cannot match the closure cells passed to format_funcargs")
        else:
            ctx.R.undecided("CTX-6", "call of format_funcargs on closure cells not found")
    else:
        lits2 = {n_.value for n_ in ast.walk(g) if isinstance(n_, ast.Constant) and isinstance(n_.value, str)}
        # ... or in a module-level function the glue calls (transitively): a lookup moved into a helper
        called = {c_.func.id for c_ in ast.walk(g) if isinstance(c_, ast.Call) and isinstance(c_.func, ast.Name)}
        for _ in range(3):
            for d_ in mod.tree.body:
                if isinstance(d_, ast.FunctionDef) and d_.name in called:
                    lits2 |= {n_.value for n_ in ast.walk(d_) if isinstance(n_, ast.Constant) and isinstance(n_.value, str)}
                    called |= {c_.func.id for c_ in ast.walk(d_) if isinstance(c_, ast.Call) and isinstance(c_.func, ast.Name)}
        if "args" in lits2 and "kwds" in lits2:
            ctx.R.undecided("CTX-6", "closure cells are located in an unrecognised way")
        else:
            ctx.R.fail("CTX-6", mod, el, "closure cells must be located by the names 'args' and 'kwds' (contextlib's free variables)", construct="closure cell lookup")
    # --- CTX-8 polarity and child construction
    cc = [c for c in ast.walk(loop) if isinstance(c, ast.Call) and norm(c.func) == "Context"]
    clones = [c for c in ast.walk(loop) if isinstance(c, ast.Call) and norm(c.func) in ("replace", "dataclasses.replace") and c.args and norm(c.args[0]) == cv]
    for c in clones:
        ctx.R.fail("CTX-8", mod, c, "a child context is cloned from its parent with replace(): it inherits the parent's is_exiting / hide / inner_stack / children / description "
                   "(a child of an exiting ExitStack is then treated as exiting and its generator's frames are not extracted)", construct=f"child = replace({cv}, ...)")
    if clones and not cc:
        cc = clones
    if len(cc) != 1:
        raise AnalysisError("CTX-8: child Context construction vanished")
    k = _kws(cc[0])
    if k.get("is_async") == f"not {sync_v}":
        ctx.R.ok("CTX-8", f"child is_async = not {sync_v}")
    else:
        ctx.R.fail("CTX-8", mod, cc[0], f"the child's is_async must be the negation of contextlib's is_sync flag; found is_async={k.get('is_async')}", construct="child is_async polarity")
    if k.get("obj") in ("manager or callback",):
        ctx.R.ok("CTX-8", "child obj is the registered manager, else the callback itself")
    else:
        ctx.R.fail("CTX-8", mod, cc[0], "the child's obj must be the registered manager if there is one, else the callback", construct="child obj")
    tags = [s for s in ast.walk(loop) if isinstance(s, ast.Assign) and norm(s.targets[0]) == "tag" and isinstance(s.value, ast.IfExp)]
    for s in tags:
        if norm(s.value.test) == sync_v and norm(s.value.body) == "''" and "await" in norm(s.value.orelse):
            ctx.R.ok("CTX-8", "description says `await` exactly for async registrations")
        else:
            ctx.R.fail("CTX-8", mod, s, "the 'await ' tag must be used exactly for async registrations", construct="await tag polarity")
    # --- CTX-7 fill, append, assign once
    cvn = norm(mod.parent_of(cc[0]).targets[0]) if isinstance(mod.parent_of(cc[0]), ast.Assign) else None
    body_txt = [norm(s) for s in loop.body]
    fills = [i for i, s in enumerate(body_txt) if s == f"_extract.fill_context({cvn})"]
    apps = [i for i, s in enumerate(body_txt) if s == f"children.append({cvn})"]
    if len(fills) == 1 and len(apps) == 1 and fills[0] < apps[0]:
        ctx.R.ok("CTX-7", "each child is passed through fill_context (recursive unfolding) and then appended, in iteration order")
    else:
        ctx.R.fail("CTX-7", mod, loop, "every child context must be unfolded with fill_context and then appended exactly once, at the top level of the loop body", construct="fill_context / append")
    assigns = [s for s in ast.walk(fn) if isinstance(s, ast.Assign) and norm(s.targets[0]) == f"{cv}.children"]
    if len(assigns) == 1 and norm(assigns[0].value) == "children" and assigns[0] in fn.body and fn.body.index(assigns[0]) > fn.body.index(loop):
        ctx.R.ok("CTX-7", "context.children is assigned once, after the loop")
    else:
        ctx.R.fail("CTX-7", mod, fn, "context.children must be assigned the collected list once, after the loop", construct="context.children assignment")
    init = [s for s in fn.body if (isinstance(s, ast.Assign) and norm(s.targets[0]) == "children" and norm(s.value) == "[]")
            or (isinstance(s, ast.AnnAssign) and norm(s.target) == "children" and s.value is not None and norm(s.value) == "[]")]
    if not init:
        ctx.R.fail("CTX-7", mod, fn, "children must start as an empty list", construct="children = []")
    # GCM attribute names
    for v in versions:
        need = {"gen", "func", "args", "kwds"}
        if need <= set(CL[v]["gcm_attrs"]):
            ctx.R.ok("CTX-6", f"{v}: _GeneratorContextManagerBase has gen/func/args/kwds")
        else:
            ctx.R.fail("CTX-6", mod, g, f"CPython {v}: _GeneratorContextManagerBase attributes are {CL[v]['gcm_attrs']}", construct=f"{v}: GCM attrs")


def slc5(ctx: Ctx) -> None:
    """SLC-5 the reversed-slice stop index `index(inner) - 1` must not be computed for index 0
    (-1 wraps around: the stitched greenlet slice becomes empty)"""
    mod = ctx.P.mod("_glue")
    fn = mod.fn("unwrap_stackslice")
    subs = [n for n in ast.walk(fn) if isinstance(n, ast.BinOp) and isinstance(n.op, ast.Sub) and isinstance(n.right, ast.Constant) and n.right.value == 1
            and isinstance(n.left, ast.Call) and isinstance(n.left.func, ast.Attribute) and n.left.func.attr == "index"]
    if len(subs) != 1:
        raise AnalysisError(f"SLC-5: {len(subs)} `<list>.index(<frame>) - 1` expressions found (1 confirmed by hand)")
    e = subs[0]
    lst, item = norm(e.left.func.value), norm(e.left.args[0])
    # collect the conditions under which this expression is evaluated (if/else statements and IfExp arms)
    conds = []
    child = e
    for a in mod.ancestors(e):
        if a is fn:
            break
        if isinstance(a, ast.IfExp):
            if child is a.body or any(child is x for x in ast.walk(a.body)):
                conds.append((a.test, True))
            elif any(child is x for x in ast.walk(a.orelse)):
                conds.append((a.test, False))
        elif isinstance(a, ast.If):
            if any(child is x for b in a.body for x in ast.walk(b)):
                conds.append((a.test, True))
            elif any(child is x for b in a.orelse for x in ast.walk(b)):
                conds.append((a.test, False))
        child = a
    atom0 = f"{lst}[0] is {item}"
    import itertools
    from ..util import Atomizer
    az = Atomizer()
    fs = [(az.compile(c), pol) for c, pol in conds]
    if atom0 not in az.atoms:
        ok = False
    else:
        i0 = az.atoms.index(atom0)
        ok = True
        for vals in itertools.product([False, True], repeat=len(az.atoms)):
            if all(f(vals) == pol for f, pol in fs) and vals[i0]:
                ok = False  # the expression can be evaluated although the item is at index 0
    if ok:
        ctx.R.ok("SLC-5", f"`{norm(e)}` is evaluated only when `{atom0}` is false (index 0 is mapped to an open slice end instead)")
    else:
        ctx.R.fail("SLC-5", mod, e, f"`{norm(e)}` can be evaluated when {item} is {lst}[0]: the stop index becomes -1, which addresses the *last* element, so the greenlet-stitched slice "
                   "`[to_idx:from_idx:-1]` is empty and extraction silently falls back to an f_back walk that stops at the greenlet boundary",
                   construct=f"{norm(e)} unguarded against index 0")


def slc6(ctx: Ctx) -> None:
    """SLC-6 the walk through greenlet parents ends when there is no parent left, not when some greenlet has no frame: the
    loop that steps `g = g.parent` is controlled by a test on g (a dead greenlet on the chain has gr_frame None and must
    only contribute no frames)"""
    mod = ctx.P.mod("_glue")
    n = 0
    for q, fn in mod.defs.items():
        if not isinstance(fn, (ast.FunctionDef, ast.AsyncFunctionDef)):
            continue
        for st in ast.walk(fn):
            if isinstance(st, ast.Assign) and len(st.targets) == 1 and isinstance(st.targets[0], ast.Name) and isinstance(st.value, ast.Attribute) \
                    and st.value.attr == "parent" and norm(st.value.value) == st.targets[0].id and mod.enclosing_def(st) is fn:
                gv = st.targets[0].id
                if not any(isinstance(x, ast.Attribute) and x.attr == "gr_frame" and norm(x.value) == gv for x in ast.walk(fn)):
                    continue
                n += 1
                ctx.R.saw(mod, q)
                loops = [l for l in mod.ancestors(st) if isinstance(l, (ast.While, ast.For))]
                loops = [l for l in loops if mod.enclosing_def(l) is fn]
                if not loops:
                    ctx.R.undecided("SLC-6", f"{q}: the greenlet parent step is not inside a loop")
                    continue
                outer = loops[-1]
                if not isinstance(outer, ast.While) or (isinstance(outer.test, ast.Constant)):
                    ctx.R.undecided("SLC-6", f"{q}: the greenlet parent walk is not a conditional while loop")
                elif any(isinstance(x, ast.Name) and x.id == gv for x in ast.walk(outer.test)):
                    ctx.R.ok("SLC-6", f"{q}: the walk `{gv} = {gv}.parent` runs while `{norm(outer.test)}`")
                else:
                    ctx.R.fail("SLC-6", mod, outer, f"{q}: the loop that follows greenlet parents runs while `{norm(outer.test)}`, which does not test the greenlet: a finished greenlet on the parent chain "
                               "(gr_frame is None) ends the walk, and the frames of its ancestors (which an exception would still propagate through) are lost", construct=f"{q}: greenlet parent walk controlled by {norm(outer.test)}")
    if n < 1:
        raise AnalysisError("SLC-6: the greenlet parent walk (g = g.parent with g.gr_frame) was not found in _glue")


def slc7(ctx: Ctx) -> None:
    """SLC-7 the branch of unwrap_stackslice that stitches the running stack through greenlet parents is taken for every slice
    of the current thread (whatever anchors are given): the plain f_back walk that follows it stops at the outermost frame of
    the current greenlet, so any anchor-dependent condition on the stitching sends the slices it excludes to a walk that cannot
    cross a greenlet boundary"""
    mod = ctx.P.mod("_glue")
    fn = mod.fn("unwrap_stackslice")
    walk = [st for st in walk_scope(fn) if isinstance(st, ast.Assign) and len(st.targets) == 1 and isinstance(st.targets[0], ast.Name) and isinstance(st.value, ast.Attribute)
            and st.value.attr == "parent" and norm(st.value.value) == st.targets[0].id]
    if not walk:
        ctx.R.undecided("SLC-7", "the greenlet parent walk is not in unwrap_stackslice itself")
        return
    anchors = {"spec"} | {norm(a.targets[0]) for a in fn.body if isinstance(a, ast.Assign) and norm(a.value).startswith("spec.")}
    conj: List[ast.AST] = []
    for g_, pol in guards_of(mod, walk[0], fn):
        if isinstance(g_, (ast.While, ast.For)):
            continue
        if not pol:
            conj.append(ast.UnaryOp(op=ast.Not(), operand=g_))
        elif isinstance(g_, ast.BoolOp) and isinstance(g_.op, ast.And):
            conj.extend(g_.values)
        else:
            conj.append(g_)
    bad = []
    unknown = []
    for c in conj:
        names = {x.id for x in ast.walk(c) if isinstance(x, ast.Name)}
        t = norm(c)
        if names & anchors:
            bad.append(c)
        elif "implementation" in t or "greenlet" in t.lower() or "parent" in t or t in ("greenlet is not None", "current is not None"):
            continue
        elif names <= {st.targets[0].id for st in walk} | {"current"}:
            continue
        else:
            unknown.append(c)
    if bad:
        ctx.R.fail("SLC-7", mod, bad[0], f"the greenlet-stitched walk runs only when `{norm(bad[0])[:70]}`: slices excluded by that condition fall back to following f_back from the inner frame, which ends at the "
                   "outermost frame of the current greenlet; an outer anchor in a parent greenlet is then never found (RuntimeError / truncated stack instead of the path an exception would take)",
                   construct="anchor-dependent gate on the greenlet-stitched walk")
    elif unknown:
        ctx.R.undecided("SLC-7", f"gate of the greenlet-stitched walk not understood: `{norm(unknown[0])[:70]}`")
    else:
        ctx.R.ok("SLC-7", f"greenlet-stitched walk gated by {[norm(c)[:50] for c in conj]}", "no condition on the slice's anchors or limit")


def slc8(ctx: Ctx) -> None:
    """SLC-8 the search for an outer frame on other threads' stacks tries every other thread until one of them yields frames: the
    loop over sys._current_frames() is left early only when the attempt for the thread at hand produced a non-empty list
    (skipping the calling thread is a `continue`, never the end of the search: the order of that mapping is unspecified)"""
    mod = ctx.P.mod("_glue")
    fn = mod.fn("unwrap_stackslice")
    loops = [l for l in walk_scope(fn) if isinstance(l, ast.For) and "sys._current_frames()" in norm(l.iter)]
    if len(loops) != 1:
        ctx.R.undecided("SLC-8", f"{len(loops)} loops over sys._current_frames() in unwrap_stackslice (1 expected)")
        return
    loop = loops[0]
    # the attempt for one thread: a call that is handed that thread's innermost frame (the value half of the loop target)
    fvar = norm(loop.target.elts[1]) if isinstance(loop.target, ast.Tuple) and len(loop.target.elts) == 2 else None

    def is_attempt(v: ast.AST) -> bool:
        return isinstance(v, ast.Call) and (norm(v.func) == "try_from" or (fvar is not None and any(norm(a_) == fvar for a_ in v.args)))
    res = {norm(a.targets[0]) for a in walk_scope(loop) if isinstance(a, ast.Assign) and len(a.targets) == 1 and is_attempt(a.value)} \
        | {norm(a.target) for a in walk_scope(loop) if isinstance(a, ast.NamedExpr) and is_attempt(a.value)}
    inlined = False
    if not res:
        # the attempt was inlined by the normaliser (a new helper): whatever list the loop body builds from that thread's frame
        res = {n_.id for a in walk_scope(loop) if isinstance(a, (ast.Assign, ast.AnnAssign)) for n_ in ast.walk(a.targets[0] if isinstance(a, ast.Assign) else a.target)
               if isinstance(n_, ast.Name) and isinstance(n_.ctx, ast.Store)} - {n_.id for n_ in ast.walk(loop.target) if isinstance(n_, ast.Name)}
        inlined = True
    if not res or (inlined and fvar is not None and not any(isinstance(n_, ast.Name) and n_.id == fvar and isinstance(n_.ctx, ast.Load) for n_ in walk_scope(loop))):
        ctx.R.undecided("SLC-8", "no `x = try_from(<that thread's frame>)` inside the thread search loop")
        return
    me = {"get_ident"} | {norm(a.targets[0]) for a in walk_scope(fn) if isinstance(a, ast.Assign) and len(a.targets) == 1 and "get_ident()" in norm(a.value)}

    def about_me(g_: ast.AST) -> bool:
        t_ = norm(g_)
        return "get_ident" in t_ or any(isinstance(n_, ast.Name) and n_.id in me for n_ in ast.walk(g_))
    n = 0
    for b in walk_scope(loop):
        if not isinstance(b, (ast.Break, ast.Return)):
            continue
        if isinstance(b, ast.Break) and [l for l in mod.ancestors(b) if isinstance(l, (ast.For, ast.While))][0] is not loop:
            continue
        n += 1
        gs = path_guards_of(mod, b, loop)
        found = False
        for g_, pol in gs:
            for x in ([g_] + (list(g_.values) if isinstance(g_, ast.BoolOp) and isinstance(g_.op, ast.And) and pol else [])):
                t = norm(x)
                if pol and (t in res or any(t in (f"len({r}) > 0", f"len({r})", f"{r} != []", f"len({r}) != 0") for r in res)):
                    found = True
                if not pol and any(t in (f"not {r}", f"len({r}) == 0") for r in res):
                    found = True
        if found:
            ctx.R.ok("SLC-8", f"`{norm(b)}` at line {b.lineno} of the thread search", "only after try_from(...) returned frames")
        elif any(about_me(g_) for g_, _ in gs):
            ctx.R.fail("SLC-8", mod, b, "the search of other threads' stacks ends when it meets the calling thread's own entry: threads that come after it in sys._current_frames() are never tried, so an outer "
                       "frame running on one of them is reported as \"Couldn't find where the above frame is running\"", construct="thread search ends at the calling thread")
        else:
            ctx.R.undecided("SLC-8", f"the thread search loop is left at line {b.lineno} under conditions that do not test the result of try_from: {[norm(g_)[:40] for g_, _ in gs]}")
    # the attempt itself must not be restricted to a subset of the other threads
    for a in ([] if inlined else list(walk_scope(loop))):
        if (isinstance(a, ast.Assign) and is_attempt(a.value)) or (isinstance(a, ast.NamedExpr) and is_attempt(a.value)):
            gs = path_guards_of(mod, a, loop)
            other = [(g_, pol) for g_, pol in gs if not about_me(g_)]
            if other:
                ctx.R.undecided("SLC-8", f"try_from is attempted only under `{norm(other[0][0])[:60]}`")
            elif not gs:
                ctx.R.ok("SLC-8", "every thread's innermost frame is tried (including the caller's: harmless, the own stack was tried before)")
            else:
                ctx.R.ok("SLC-8", "every thread other than the calling one is tried", norm(gs[0][0]))
    if n == 0:
        ctx.R.ok("SLC-8", "the thread search loop has no early exit")


C04 = [slc1, slc2, slc3, slc4, slc5, slc6, slc7, slc8]
C09 = [gcm1, ctx678]
