"""REG-1..6 (C12): code_dispatch registry, IdentityDict siblings, get_code cases, customize option liveness."""
from __future__ import annotations

import ast
from typing import Dict, List, Optional, Set

from ..ctx import Ctx
from ..model import AnalysisError, Mod, norm, walk_scope, calls_in
from .opcodes import guards_of, nguards
from ..util import equivalent


def reg1_2(ctx: Ctx) -> None:
    mod = ctx.P.mod("_code_dispatch")
    dec = mod.fn("code_dispatch.decorate")
    ctx.R.saw(mod, "code_dispatch.decorate")
    regs = [s for s in dec.body if (isinstance(s, ast.Assign) and norm(s.targets[0]) == "registry")
            or (isinstance(s, ast.AnnAssign) and norm(s.target) == "registry" and s.value is not None)]
    if len(regs) != 1:
        # the dispatcher may have become a class: its registry must then be created per instance, not once per class
        for cls_ in [c for c in ast.walk(mod.tree) if isinstance(c, ast.ClassDef) and c.name != "IdentityDict"]:
            for st in cls_.body:
                tg = st.targets[0] if isinstance(st, ast.Assign) else (st.target if isinstance(st, ast.AnnAssign) else None)
                v_ = getattr(st, "value", None)
                if isinstance(tg, ast.Name) and isinstance(v_, ast.Call) and norm(v_.func).split("[")[0] in ("IdentityDict", "dict", "WeakKeyDictionary", "weakref.WeakKeyDictionary"):
                    stores = [x for m_ in cls_.body if isinstance(m_, ast.FunctionDef) for x in ast.walk(m_)
                              if isinstance(x, ast.Subscript) and isinstance(x.ctx, ast.Store) and norm(x.value) in (f"self.{tg.id}", f"cls.{tg.id}", f"{cls_.name}.{tg.id}")]
                    if stores:
                        ctx.R.fail("REG-1", mod, st, f"the registry `{cls_.name}.{tg.id}` is a class attribute created once: every dispatcher made by code_dispatch (elaborate_frame, unwrap_context_generator, "
                                   "user-made ones) shares it, so a registration for one hook is looked up by all the others", construct="registry shared between dispatchers")
                        return
        raise AnalysisError("REG-1: `registry = ...` vanished")
    v = regs[0].value
    f = v.func if isinstance(v, ast.Call) else None
    base = f.value if isinstance(f, ast.Subscript) else f
    if isinstance(v, ast.Call) and isinstance(base, ast.Name) and base.id == "IdentityDict" and not v.args:
        ctx.R.ok("REG-1", "the dispatch registry is an IdentityDict (keyed by id(code))")
    else:
        ctx.R.fail("REG-1", mod, regs[0], "the registry must be an IdentityDict: with an equality-keyed mapping a registration also applies to a distinct-but-equal code object")
    # REG-2 siblings
    cls = mod.fn("IdentityDict")
    ctx.R.saw(mod, "IdentityDict")
    n_key = n_store = n_proj = 0
    for m in cls.body:
        if not isinstance(m, ast.FunctionDef):
            continue
        params = [a.arg for a in m.args.args[1:]]
        # a local dict that becomes self._data (built by an explicit loop) counts as the table; loop variables over the
        # constructor's items count as keys
        data_names = {"self._data"} | {norm(a_.value) for a_ in ast.walk(m) if isinstance(a_, ast.Assign) and norm(a_.targets[0]) == "self._data" and isinstance(a_.value, ast.Name)}
        for l_ in ast.walk(m):
            if isinstance(l_, ast.For) and isinstance(l_.target, ast.Tuple) and norm(l_.iter) in params:
                params = params + [norm(e) for e in l_.target.elts]
        for n in ast.walk(m):
            # keyed accesses
            keyexpr = None
            if isinstance(n, ast.Subscript) and norm(n.value) in data_names:
                keyexpr = n.slice
            elif isinstance(n, ast.Call) and isinstance(n.func, ast.Attribute) and norm(n.func.value) == "self._data" \
                    and n.func.attr in ("pop", "get", "setdefault", "__getitem__", "__delitem__", "__contains__") and n.args:
                keyexpr = n.args[0]
            if keyexpr is not None:
                n_key += 1
                if isinstance(keyexpr, ast.Name):
                    al = [a.value for a in ast.walk(m) if isinstance(a, ast.Assign) and len(a.targets) == 1 and norm(a.targets[0]) == keyexpr.id]
                    if len(al) == 1:
                        keyexpr = al[0]
                if isinstance(keyexpr, ast.Call) and norm(keyexpr.func) == "id" and len(keyexpr.args) == 1 and norm(keyexpr.args[0]) in params:
                    ctx.R.ok("REG-2", f"IdentityDict.{m.name}: key wrapped as {norm(keyexpr)}")
                else:
                    ctx.R.fail("REG-2", mod, n, f"IdentityDict.{m.name} addresses _data by `{norm(keyexpr)}` instead of id(<key>): siblings disagree on the key domain")
        # stores keep the key itself as element 0
        for n in ast.walk(m):
            val = None
            if isinstance(n, ast.Assign) and isinstance(n.targets[0], ast.Subscript) and norm(n.targets[0].value) in data_names:
                val = n.value
                keyname = norm(n.targets[0].slice.args[0]) if isinstance(n.targets[0].slice, ast.Call) and n.targets[0].slice.args else None
            elif isinstance(n, ast.Call) and isinstance(n.func, ast.Attribute) and norm(n.func.value) == "self._data" and n.func.attr == "setdefault" and len(n.args) == 2:
                val = n.args[1]
                keyname = norm(n.args[0].args[0]) if isinstance(n.args[0], ast.Call) and n.args[0].args else None
            elif isinstance(n, ast.DictComp) and m.name == "__init__":
                val = n.value
                keyname = norm(n.key.args[0]) if isinstance(n.key, ast.Call) and norm(n.key.func) == "id" and n.key.args else None
                n_key += 1
                if keyname is None:
                    ctx.R.fail("REG-2", mod, n, "IdentityDict.__init__ must key its items by id(k)")
            if val is not None:
                n_store += 1
                if isinstance(val, ast.Tuple) and len(val.elts) == 2 and keyname is not None and norm(val.elts[0]) == keyname:
                    ctx.R.ok("REG-2", f"IdentityDict.{m.name}: stores ({keyname}, value): the key object is kept alive, its id cannot be reused while registered")
                else:
                    ctx.R.fail("REG-2", mod, n, f"IdentityDict.{m.name} must store the pair (key, value) with the key itself first: otherwise the key may die and its id be reused by another code object")
        # value-returning accessors project element 1
        if m.name in ("__getitem__", "pop", "setdefault", "popitem"):
            # unpacking form: k, v = self._data[...] ; return v
            for a_ in ast.walk(m):
                if isinstance(a_, ast.Assign) and isinstance(a_.targets[0], ast.Tuple) and len(a_.targets[0].elts) == 2 and all(isinstance(e, ast.Name) for e in a_.targets[0].elts) \
                        and "self._data" in norm(a_.value) and m.name != "popitem":
                    k_, v_ = (e.id for e in a_.targets[0].elts)
                    for r in ast.walk(m):
                        if isinstance(r, ast.Return) and isinstance(r.value, ast.Name) and r.value.id in (k_, v_):
                            n_proj += 1
                            if r.value.id == v_:
                                ctx.R.ok("REG-2", f"IdentityDict.{m.name}: returns the second element (the value) of the unpacked pair")
                            else:
                                ctx.R.fail("REG-2", mod, r, f"IdentityDict.{m.name} must return element 1 of the stored pair (the value), not the key or the pair")
            for r in ast.walk(m):
                if isinstance(r, ast.Return) and r.value is not None and "self._data" in norm(r.value):
                    n_proj += 1
                    if isinstance(r.value, ast.Subscript) and norm(r.value.slice) == "1":
                        ctx.R.ok("REG-2", f"IdentityDict.{m.name}: returns element 1 (the value)")
                    else:
                        ctx.R.fail("REG-2", mod, r, f"IdentityDict.{m.name} must return element 1 of the stored pair (the value), not the key or the pair")
        if m.name == "__iter__":
            r = [x for x in ast.walk(m) if isinstance(x, ast.GeneratorExp)]
            if len(r) == 1 and isinstance(r[0].generators[0].target, ast.Tuple) and norm(r[0].elt) == norm(r[0].generators[0].target.elts[0]) \
                    and norm(r[0].generators[0].iter) == "self._data.values()":
                n_proj += 1
                ctx.R.ok("REG-2", "IdentityDict.__iter__ yields the key objects")
            else:
                ctx.R.fail("REG-2", mod, m, "IdentityDict.__iter__ must yield the key objects (element 0 of each stored pair)")
    if n_key < 6 or n_store < 3 or n_proj < 4:
        raise AnalysisError(f"REG-2: found {n_key} keyed accesses, {n_store} stores, {n_proj} projections (6/3/4 confirmed by hand)")


def _reg3_strip(ctx: Ctx, mod: Mod, fn: ast.AST) -> None:
    """the wrapper-stripping part of get_code as a step function, decided for every combination of the tests it makes:
    a partial / a bound, class or static method / an object with __wrapped__ is replaced by what it wraps AND looked at again;
    only when none applies does the stripping end, with the object unchanged (so towers in any order are peeled)"""
    from ..stepper import Stepper, enumerate_table
    from ..emit import Unsupported
    from ..util import resolve_expr
    var = fn.args.args[0].arg
    loops = [s for s in fn.body if isinstance(s, ast.While)]
    helper = None
    if not loops:
        # thing = helper(thing) with a (recursive) helper of the package
        for s in fn.body:
            if isinstance(s, ast.Assign) and norm(s.targets[0]) == var and isinstance(s.value, ast.Call) and len(s.value.args) == 1 and norm(s.value.args[0]) == var:
                cal = ctx.P.resolve_call(mod, s.value)
                if cal.kind == "pkg":
                    hq = cal.name.split(".")[-1]
                    if mod.has(hq):
                        helper = mod.fn(hq)
        if helper is None:
            raise AnalysisError("REG-3: neither an unwrapping loop nor a call of an unwrapping helper found in get_code")
    if len(loops) > 1:
        raise AnalysisError("REG-3: several while loops in get_code")
    v = var if helper is None else helper.args.args[0].arg
    P, M, C, S, W = (f"isinstance({v}, functools.partial)", f"isinstance({v}, types.MethodType)", f"isinstance({v}, classmethod)",
                     f"isinstance({v}, staticmethod)", f"hasattr({v}, '__wrapped__')")
    known = [P, M, C, S, W]

    def run(assign):
        st = Stepper(assign, resolve=lambda e: resolve_expr(mod, e))
        env: Dict[str, ast.AST] = {}
        if helper is None:
            loop = loops[0]
            if not st.truth(loop.test):
                return ("EXIT", v)
            k, val = st.run(loop.body, env)

            class _Pick(ast.NodeTransformer):
                # `a if <test this row decides> else b` is the arm the row selects
                def visit_IfExp(self, e_: ast.IfExp):
                    self.generic_visit(e_)
                    t_ = norm(e_.test)
                    if t_ in assign:
                        return e_.body if assign[t_] else e_.orelse
                    return e_
            import copy as _copy
            cur = norm(_Pick().visit(_copy.deepcopy(env[v]))) if v in env else v
            if k in ("continue", "fall"):
                return ("LOOP", cur)
            if k == "break":
                return ("EXIT", cur)
            if k == "return":
                return ("EXIT", norm(val) if val is not None else "None")
            return ("RAISE", "")
        k, val = st.run([x for x in helper.body if not (isinstance(x, ast.Expr) and isinstance(x.value, ast.Constant))], env)
        if k == "return" and val is not None:
            if isinstance(val, ast.Call) and isinstance(val.func, ast.Name) and val.func.id == helper.name and len(val.args) == 1:
                return ("LOOP", norm(val.args[0]))
            return ("EXIT", norm(val))
        if k == "fall":
            return ("EXIT", "None")
        return ("RAISE", "")

    try:
        atoms, rows = enumerate_table(run, known)
    except Unsupported as ex:
        ctx.R.undecided("REG-3", f"wrapper stripping of get_code is outside the step interpreter: {ex}")
        return
    groups: Dict[tuple, list] = {}
    for assign, out in rows:
        allowed = set()
        if assign[P]:
            allowed.add(f"{v}.func")
        if assign[M] or assign[C] or assign[S]:
            allowed.add(f"{v}.__func__")
        if assign[W]:
            allowed |= {f"inspect.unwrap({v})", f"inspect.unwrap(cast(types.FunctionType, {v}))", f"{v}.__wrapped__"}
        good = (out[0] == "LOOP" and out[1] in allowed) if allowed else (out == ("EXIT", v))
        groups.setdefault(tuple(assign[k] for k in known), []).append((assign, out, allowed, good))
    bad = None
    partial_bad = None
    for key, lst in groups.items():
        wrong = [r for r in lst if not r[3]]
        if wrong and len(wrong) == len(lst):
            bad = bad or wrong[0]
        elif wrong:
            partial_bad = partial_bad or wrong[0]
    where = loops[0] if helper is None else helper
    if bad is not None:
        assign, out, allowed, _ = bad
        shown = ", ".join(k for k in known if assign[k]) or "none of the wrapper tests holds"
        if allowed and out[0] == "EXIT":
            why = f"stripping ends there with `{out[1]}` instead of looking at the result again: a tower with that layer on top of another wrapper is not peeled to the function, and registrations bind to (or fail on) the inner wrapper"
        elif allowed:
            why = f"the object is replaced by `{out[1]}`, which is not what that wrapper wraps ({sorted(allowed)})"
        else:
            why = f"the stripping must end with the object unchanged; it {'continues with' if out[0] == 'LOOP' else 'ends with'} `{out[1]}`"
        ctx.R.fail("REG-3", mod, where, f"get_code wrapper stripping, case [{shown}]: {why}", construct=f"get_code stripping case {shown}")
    elif partial_bad is not None:
        ctx.R.undecided("REG-3", f"wrapper stripping differs from the reference only for some values of conditions the rule does not know: {partial_bad[0]}")
    else:
        ctx.R.ok("REG-3", f"get_code strips partial / bound, class, static method / __wrapped__ layers to a fixpoint in any order ({len(rows)} combinations of {len(atoms)} tests)")


def reg3(ctx: Ctx) -> None:
    mod = ctx.P.mod("_code_dispatch")
    fn = mod.fn("get_code")
    ctx.R.saw(mod, "get_code")
    _reg3_strip(ctx, mod, fn)
    # function / code object
    txt = norm(fn)
    if "isinstance(thing, types.FunctionType)" in txt and "code = thing.__code__" in txt and "isinstance(thing, types.CodeType)" in txt:
        ctx.R.ok("REG-3", "function -> __code__, code object -> itself, anything else -> TypeError")
    else:
        ctx.R.fail("REG-3", mod, fn, "after unwrapping, a function must yield its __code__ and a code object itself", construct="code extraction")
    # nested names
    outer = [s for s in fn.body if isinstance(s, ast.For) and "nested_names" in norm(s.iter)]
    if len(outer) != 1:
        raise AnalysisError("REG-3: nested-name loop vanished")
    namevar = norm(outer[0].target.elts[1]) if isinstance(outer[0].target, ast.Tuple) else norm(outer[0].target)
    inner = [s for s in ast.walk(outer[0]) if isinstance(s, ast.For) and s is not outer[0] and norm(s.iter).endswith(".co_consts")]
    name_cmp = [c for c in ast.walk(outer[0]) if isinstance(c, ast.Compare) and len(c.ops) == 1 and isinstance(c.ops[0], ast.Eq)
                and sorted([norm(c.left).split(".")[-1], norm(c.comparators[0])]) in (sorted(["co_name", namevar]),)]
    code_test = [c for c in ast.walk(outer[0]) if isinstance(c, ast.Call) and norm(c.func) == "isinstance" and len(c.args) == 2 and "CodeType" in norm(c.args[1])]
    raises = [r for r in ast.walk(outer[0]) if isinstance(r, ast.Raise)]
    if not inner:
        # candidates produced by a helper: the search must stay one level deep (the direct children of the current code object)
        deep = None
        for l_ in [x for x in ast.walk(outer[0]) if isinstance(x, ast.For) and x is not outer[0] and isinstance(x.iter, ast.Call)]:
            cal = ctx.P.resolve_call(mod, l_.iter)
            hq = cal.name.split(".")[-1] if cal.kind == "pkg" else None
            if hq and mod.has(hq):
                hf = mod.fn(hq)
                if "co_consts" in norm(hf) and any(isinstance(c, ast.Call) and isinstance(c.func, ast.Name) and c.func.id == hf.name for c in ast.walk(hf)):
                    deep = (l_, hf.name)
        if deep:
            ctx.R.fail("REG-3", mod, deep[0], f"nested names are searched among everything {deep[1]}() yields, which recurses into nested code objects: a name that is also defined deeper inside an earlier sibling "
                       "resolves to that definition instead of the direct child, so a registration binds to a code object that is not the one that runs", construct="nested-name lookup descends more than one level")
        else:
            ctx.R.undecided("REG-3", "nested-name lookup no longer iterates over co_consts in a recognisable way")
    elif not name_cmp:
        ctx.R.fail("REG-3", mod, outer[0], f"nested names are looked up in co_consts without comparing co_name with the requested name: the first nested code object is taken whatever it is called",
                   construct="nested-name lookup: co_name comparison missing")
    elif not code_test:
        ctx.R.fail("REG-3", mod, outer[0], "nested-name lookup does not test that the constant is a code object", construct="nested-name lookup: isinstance CodeType missing")
    elif not raises:
        ctx.R.fail("REG-3", mod, outer[0], "a nested name that does not exist must raise, not silently keep the enclosing code object", construct="nested-name lookup: no raise")
    else:
        ctx.R.ok("REG-3", "nested names are resolved through co_consts by co_name (code objects only), failing loudly when absent")
    rets = [s for s in fn.body if isinstance(s, ast.Return)]
    rv = norm(rets[-1].value) if rets and rets[-1].value is not None else None
    updated_in_loop = {norm(a_.targets[0]) for a_ in ast.walk(outer[0]) if isinstance(a_, ast.Assign) and len(a_.targets) == 1 and isinstance(a_.targets[0], ast.Name)}
    if rv is None or not (rv == "code" or rv in updated_in_loop):
        ctx.R.fail("REG-3", mod, fn, "get_code must return the resolved code object", construct="return code")


def reg4_6(ctx: Ctx) -> None:
    mod = ctx.P.mod("_code_dispatch")
    reg = mod.fn("code_dispatch.decorate.register")
    dis = mod.fn("code_dispatch.decorate.dispatch")
    dec = mod.fn("code_dispatch.decorate")
    # REG-4 registration
    st = [s for s in walk_scope(reg) if isinstance(s, ast.Assign) and isinstance(s.targets[0], ast.Subscript) and norm(s.targets[0].value) == "registry"]
    if len(st) != 1:
        ctx.R.fail("REG-4", mod, reg, "register must store into the registry exactly once", construct="registry[...] = func")
    else:
        s = st[0]
        key = norm(s.targets[0].slice)
        src = [x for x in walk_scope(reg) if isinstance(x, ast.Assign) and norm(x.targets[0]) == key]
        keyexpr = norm(src[0].value) if len(src) == 1 else key
        gs = [(norm(gx), pol) for gx, pol in guards_of(mod, s, reg)]
        membership = [gx for gx, pol in gs if " in registry" in gx or "registry.get(" in gx or "registry.keys()" in gx]
        if membership:
            ctx.R.fail("REG-4", mod, s, f"the registration store is guarded by `{membership[0]}`: an existing registration is not replaced (the documented behaviour is that the latest wins)")
        elif keyexpr == "get_code(code, *nested_names)" and norm(s.value) == "func":
            ctx.R.ok("REG-4", "registry[get_code(code, *nested_names)] = func (latest wins)")
        elif keyexpr.startswith("get_code(") and keyexpr != "get_code(code, *nested_names)":
            ctx.R.fail("REG-4", mod, s, f"the registry key must be get_code(code, *nested_names); the code uses {keyexpr}: nested names are ignored / the wrong target is resolved")
        elif "get_code" not in keyexpr:
            ctx.R.fail("REG-4", mod, s, f"the registry is keyed by `{keyexpr}` instead of the code object resolved by get_code(code, *nested_names)")
        else:
            ctx.R.undecided("REG-4", f"registration store `{norm(s)}` not understood")
    # register returns the implementation (it is used as a decorator: returning None would replace the user's function)
    lastret = reg.body[-1]
    if isinstance(lastret, ast.Return) and lastret.value is not None and norm(lastret.value) == "func":
        ctx.R.ok("REG-4", "register returns the registered function (decorator use keeps the name bound)")
    elif not isinstance(lastret, ast.Return) or lastret.value is None:
        ctx.R.fail("REG-4", mod, reg, "register must return the registered function: used as a decorator it would otherwise rebind the implementation's name to None", construct="register: return func")
    else:
        ctx.R.undecided("REG-4", f"register returns `{norm(lastret.value)}`")
    # non-decorator form register(target, *names, impl): the last positional argument is the implementation iff it is callable
    nd = [s_ for s_ in reg.body if isinstance(s_, ast.If) and "callable(" in norm(s_.test)]
    if len(nd) == 1:
        at = ["func is None", "nested_names", "callable(nested_names[-1])"]
        try:
            okn, cexn = equivalent(nd[0].test, lambda e: e[at[0]] and e[at[1]] and e[at[2]], at)
        except AnalysisError as ex:
            okn, cexn = None, str(ex)
        bodytxt = [norm(x) for x in nd[0].body]
        if okn and any(b.endswith("nested_names[-1])") or b == "func = nested_names[-1]" for b in bodytxt) and "nested_names = nested_names[:-1]" in bodytxt:
            ctx.R.ok("REG-4", "register(target, *names, impl): the trailing callable is the implementation and is removed from the names")
        elif okn is False:
            ctx.R.fail("REG-4", mod, nd[0], f"the non-decorator form must take the last positional argument as the implementation iff no func= was given, there are extra arguments and the last one is callable; counterexample {cexn}",
                       construct="register: trailing-callable condition")
        elif okn:
            ctx.R.fail("REG-4", mod, nd[0], "the trailing callable must become the implementation (nested_names[-1]) and be dropped from the nested names (nested_names[:-1])", construct="register: trailing-callable handling")
        else:
            ctx.R.undecided("REG-4", "trailing-callable condition not understood")
    for c in calls_in(reg, True):
        if isinstance(c.func, ast.Attribute) and norm(c.func.value) == "registry" and c.func.attr == "setdefault":
            # only reachable when the caller passes a non-default value of an option of register()?
            defaults = {a.arg: d for a, d in list(zip(reversed(reg.args.args), reversed(reg.args.defaults))) + list(zip(reg.args.kwonlyargs, reg.args.kw_defaults)) if isinstance(d, ast.Constant)}
            off_default = False
            for g_, pol in guards_of(mod, c, reg):
                neg = isinstance(g_, ast.UnaryOp) and isinstance(g_.op, ast.Not)
                nm = g_.operand if neg else g_
                if isinstance(nm, ast.Name) and nm.id in defaults and not any(isinstance(w, ast.Name) and w.id == nm.id and isinstance(w.ctx, ast.Store) for w in ast.walk(reg)):
                    if (bool(defaults[nm.id].value) != neg) != pol:
                        off_default = True
            if off_default and any(isinstance(a_, ast.Assign) and isinstance(a_.targets[0], ast.Subscript) and norm(a_.targets[0].value) == "registry" for a_ in walk_scope(reg)):
                ctx.R.ok("REG-4", "registry.setdefault(...) is reached only for a non-default value of an option of register(); the default path assigns")
            else:
                ctx.R.fail("REG-4", mod, c, "setdefault keeps the first registration: the documented behaviour is that the latest wins")
    # dispatch
    txt = [norm(s) for s in dis.body]
    tr = [s for s in dis.body if isinstance(s, ast.Try)]
    dtext = norm(dis)
    if len(tr) == 1:
        t = tr[0]
        hnames = [norm(h.type) if h.type is not None else "<bare>" for h in t.handlers]
        looks = [x for x in ast.walk(t) if isinstance(x, ast.Subscript) and norm(x.value) == "registry"]
        if hnames == ["KeyError"] and looks and any(isinstance(x, ast.Return) and norm(x.value) == "default_impl" for x in t.handlers[0].body):
            keytxt = norm(looks[0].slice)
            ksrc = [a for a in dis.body if isinstance(a, ast.Assign) and norm(a.targets[0]) == keytxt]
            if keytxt == "code_from_arg(arg)" or (len(ksrc) == 1 and norm(ksrc[0].value) == "code_from_arg(arg)"):
                ctx.R.ok("REG-4", "dispatch: registry[code_from_arg(arg)], default only on KeyError")
            else:
                ctx.R.fail("REG-4", mod, dis, f"dispatch must look up code_from_arg(arg); it looks up `{keytxt}`", construct="dispatch key")
        elif any(h in ("Exception", "BaseException", "<bare>") for h in hnames):
            ctx.R.fail("REG-4", mod, t, "dispatch falls back to the default implementation on any exception, not only when no registration exists: an error inside code_from_arg is swallowed and the wrong implementation runs",
                       construct="dispatch: broad except")
        else:
            ctx.R.undecided("REG-4", "dispatch try/except has an unrecognised shape")
    elif "registry.get(code_from_arg(arg), default_impl)" in dtext or ("registry.get(code, default_impl)" in dtext and "code = code_from_arg(arg)" in txt):
        ctx.R.ok("REG-4", "dispatch: registry.get(code_from_arg(arg), default_impl)")
    else:
        ctx.R.undecided("REG-4", "dispatch body not understood")
    w = mod.fn("code_dispatch.decorate.wrapper")
    wret = [x for x in ast.walk(w) if isinstance(x, ast.Return) and x.value is not None]
    wtxt = norm(wret[-1].value) if wret else ""
    alias = {norm(a.targets[0]): norm(a.value) for a in ast.walk(w) if isinstance(a, ast.Assign) and len(a.targets) == 1}
    for k_, v_ in alias.items():
        if wtxt.startswith(k_ + "("):
            wtxt = v_ + wtxt[len(k_):]
    if wtxt == "dispatch(__first_arg)(__first_arg, *args, **kwargs)":
        ctx.R.ok("REG-4", "wrapper calls dispatch(first_arg)(first_arg, ...)")
    elif "dispatch(" not in norm(w):
        ctx.R.fail("REG-4", mod, w, "the wrapper does not go through dispatch: registered specialisations are never called")
    else:
        ctx.R.undecided("REG-4", f"wrapper return `{wtxt[:60]}` not understood")
    # REG-6 attributes
    want = {"wrapper.register": "register", "wrapper.dispatch": "dispatch", "wrapper.registry": None}
    got = {norm(s.targets[0]): norm(s.value) for s in dec.body if isinstance(s, ast.Assign) and norm(s.targets[0]).startswith("wrapper.")}
    for s in dec.body:
        # wrapper.__dict__.update(register=..., ...) / setattr(wrapper, "register", ...)
        c_ = s.value if isinstance(s, ast.Expr) and isinstance(s.value, ast.Call) else None
        if c_ is not None and norm(c_.func) in ("wrapper.__dict__.update", "vars(wrapper).update") and not c_.args:
            for k_ in c_.keywords:
                if k_.arg:
                    got.setdefault(f"wrapper.{k_.arg}", norm(k_.value))
        elif c_ is not None and norm(c_.func) == "setattr" and len(c_.args) == 3 and norm(c_.args[0]) == "wrapper" and isinstance(c_.args[1], ast.Constant) and isinstance(c_.args[1].value, str):
            got.setdefault(f"wrapper.{c_.args[1].value}", norm(c_.args[2]))
    for k, v in want.items():
        if k not in got:
            ctx.R.fail("REG-6", mod, dec, f"the documented attribute {k.split('.')[1]} is not set on the dispatcher", construct=k)
        elif v is not None and got[k] != v:
            ctx.R.fail("REG-6", mod, dec, f"{k} must be {v}", construct=k)
        elif v is None and got[k] not in ("types.MappingProxyType(registry)", "registry"):
            ctx.R.fail("REG-6", mod, dec, "registry attribute must expose the registry", construct=k)
        else:
            ctx.R.ok("REG-6", f"{k} = {got[k]}")
    # hooks are declared with code_dispatch keyed by the frame's running code object
    cm = ctx.P.mod("_customization")
    cf = cm.fn("_code_of_frame")
    if any(isinstance(s, ast.Return) and norm(s.value) == "frame.pyframe.f_code" for s in cf.body):
        ctx.R.ok("REG-4", "_code_of_frame returns frame.pyframe.f_code (the code object that runs)")
    else:
        ctx.R.fail("REG-4", cm, cf, "the dispatch key of a Frame must be pyframe.f_code")
    for q in ("elaborate_frame", "unwrap_context_generator"):
        fn = cm.fn(q)
        if [norm(d) for d in fn.decorator_list] == ["code_dispatch(_code_of_frame)"]:
            ctx.R.ok("REG-4", f"{q} is @code_dispatch(_code_of_frame)")
        else:
            ctx.R.fail("REG-4", cm, fn, f"{q} must dispatch on the frame's code object")


def reg5(ctx: Ctx) -> None:
    """REG-5 every keyword option of customize is forwarded in the decorator form and has an effect"""
    cm = ctx.P.mod("_customization")
    fn = cm.fn("customize")
    it = cm.fn("customize.customize_it")
    ctx.R.saw(cm, "customize")
    opts = [a.arg for a in fn.args.kwonlyargs]
    if set(opts) != {"hide", "hide_line", "prune", "elaborate"}:
        raise AnalysisError(f"REG-5: customize options changed: {opts}")
    partials = [c for c in calls_in(fn, True) if norm(c.func) == "functools.partial" and c.args and norm(c.args[0]) == "customize"]
    if len(partials) != 1:
        raise AnalysisError("REG-5: decorator form (functools.partial(customize, ...)) vanished")
    pc = partials[0]
    kws = {k.arg: norm(k.value) for k in pc.keywords if k.arg}
    star = [k.value for k in pc.keywords if k.arg is None]
    undecidable = False
    for sv in star:
        # **opts where opts is a dict literal bound in this function
        src = [a.value for a in ast.walk(fn) if isinstance(a, ast.Assign) and isinstance(sv, ast.Name) and norm(a.targets[0]) == sv.id]
        if len(src) == 1 and isinstance(src[0], ast.Dict) and all(isinstance(k, ast.Constant) for k in src[0].keys):
            kws.update({k.value: norm(v) for k, v in zip(src[0].keys, src[0].values)})
        elif len(src) == 1 and isinstance(src[0], ast.Call) and norm(src[0].func) == "dict" and not src[0].args:
            kws.update({k.arg: norm(k.value) for k in src[0].keywords if k.arg})
        else:
            undecidable = True
    for o in opts:
        if kws.get(o) == o:
            ctx.R.ok("REG-5", f"decorator form forwards {o}={o}")
        elif o in kws:
            ctx.R.fail("REG-5", cm, pc, f"the decorator form passes `{kws[o]}` for option `{o}`", construct=f"decorator form: {o}={kws[o]}")
        elif undecidable:
            ctx.R.undecided("REG-5", f"cannot see whether option `{o}` is forwarded through {norm(pc)[:60]}")
        else:
            ctx.R.fail("REG-5", cm, pc, f"option `{o}` is not forwarded in the decorator form @customize({o}=...): it is silently ignored there",
                       construct=f"decorator form: {o}")
    gs = [g for g, pol in guards_of(cm, pc, fn) if pol]
    if not any(norm(g) == "target is None" for g in gs):
        ctx.R.undecided("REG-5", "the decorator form is not chosen by `target is None` any more")
    # ---- liveness in customize_it: an option that is never read there has no effect (this is F3)
    reads = {n.id for n in ast.walk(it) if isinstance(n, ast.Name) and isinstance(n.ctx, ast.Load)}
    # other hooks registered by customize (a flags-only variant, ...), the option handed to register() itself, and
    # closure aliases (`fallback = PRUNE if prune else None`, `user_hook = elaborate`) count as reads too
    for q2, f2 in cm.defs.items():
        if q2.startswith("customize.") and f2 is not it and isinstance(f2, ast.FunctionDef) and any("elaborate_frame.register" in norm(d) for d in f2.decorator_list):
            reads |= {n.id for n in ast.walk(f2) if isinstance(n, ast.Name) and isinstance(n.ctx, ast.Load)}
    for c in calls_in(fn, True):
        if norm(c.func) == "elaborate_frame.register" or (isinstance(c.func, ast.Call) and norm(c.func.func) == "elaborate_frame.register"):
            reads |= {n.id for a_ in list(c.args) + [k.value for k in c.keywords] for n in ast.walk(a_) if isinstance(n, ast.Name)}
    for _ in range(3):
        for a_ in ast.walk(fn):
            if isinstance(a_, ast.Assign) and len(a_.targets) == 1 and isinstance(a_.targets[0], ast.Name) and a_.targets[0].id in reads and cm.enclosing_def(a_) is fn:
                reads |= {n.id for n in ast.walk(a_.value) if isinstance(n, ast.Name)}
    for o in opts:
        if o not in reads:
            ctx.R.fail("REG-5", cm, it, f"option `{o}` is never read by the registered hook: it has no effect on matching frames", construct=f"effect of {o}")
    # hide / hide_line: a store of True to the same-named Frame attribute under a guard on the option
    fparam = it.args.args[0].arg
    for o in ("hide", "hide_line"):
        if o not in reads:
            continue
        stores = [s_ for s_ in ast.walk(it) if isinstance(s_, ast.Assign) and norm(s_.targets[0]) == f"{fparam}.{o}"]
        good = [s_ for s_ in stores if norm(s_.value) in ("True", o) and (norm(s_.value) == o or any(norm(x) == o for x, pol in guards_of(cm, s_, it) if pol))]
        if good:
            # ... and on every path: the store (its guarding `if`) must dominate every return of the hook
            g_ = ctx.cfg(it)
            st0 = good[0]
            anchor = st0
            for a_ in cm.ancestors(st0):
                if isinstance(a_, ast.If) and norm(a_.test) == o:
                    anchor = a_
                    break
            an = g_.node_of(anchor)
            rets_ = [n_ for n_ in g_.nodes if n_.ast is not None and isinstance(n_.ast, ast.Return)]
            late = [r_ for r_ in rets_ if not g_.dominates(an, r_)]
            if late:
                ctx.R.fail("REG-5", cm, late[0].ast, f"option `{o}` is applied only on some paths: `{norm(late[0].ast)[:50]}` can be reached before `{fparam}.{o} = True` "
                           f"(e.g. when the elaborate callback supplies a replacement), so {o}= silently has no effect there", construct=f"effect of {o} not on every path")
            else:
                ctx.R.ok("REG-5", f"direct form: {o} -> {fparam}.{o} = True on every path")
        elif not stores:
            ctx.R.fail("REG-5", cm, it, f"option `{o}` is read but Frame.{o} is never set from it: matching frames do not get {o}=True", construct=f"effect of {o}")
        else:
            inverted = [s_ for s_ in stores if (norm(s_.value) == "True" and (o, False) in nguards(cm, s_, it))
                        or (norm(s_.value) == "False" and (o, True) in nguards(cm, s_, it))]
            if inverted:
                ctx.R.fail("REG-5", cm, inverted[0], f"option `{o}` has the opposite effect: `{norm(inverted[0])}` under `{'not ' if norm(inverted[0].value) == 'True' else ''}{o}`", construct=f"effect of {o} inverted")
            else:
                ctx.R.undecided("REG-5", f"store to {fparam}.{o} present but not in a recognised `if {o}:` shape")
    # elaborate: its result must be returned whenever it is not None
    if "elaborate" in reads:
        ealiases = {"elaborate"} | {a_.targets[0].id for a_ in ast.walk(fn) if isinstance(a_, ast.Assign) and len(a_.targets) == 1 and isinstance(a_.targets[0], ast.Name)
                                    and isinstance(a_.value, ast.Name) and a_.value.id == "elaborate" and cm.enclosing_def(a_) is fn}
        ecalls = [c for c in ast.walk(it) if isinstance(c, ast.Call) and norm(c.func) in ealiases]
        if not ecalls:
            ctx.R.fail("REG-5", cm, it, "the elaborate callback is never called", construct="effect of elaborate")
        else:
            ec = ecalls[0]
            if [norm(a) for a in ec.args] != [a.arg for a in it.args.args]:
                ctx.R.fail("REG-5", cm, ec, "the elaborate callback must be called with (frame, next_inner)", construct="elaborate arguments")
            # the variable holding the result (through conditional expressions)
            rvars = set()
            for a in ast.walk(it):
                if isinstance(a, ast.Assign) and any(x is ec for x in ast.walk(a.value)) and isinstance(a.targets[0], ast.Name):
                    rvars.add(a.targets[0].id)
            rets = [r for r in ast.walk(it) if isinstance(r, ast.Return) and r.value is not None]
            verdict = None
            for r in rets:
                v = r.value
                names = {n.id for n in ast.walk(v) if isinstance(n, ast.Name)}
                direct = any(x is ec for x in ast.walk(v))
                if not (names & rvars) and not direct:
                    continue
                if isinstance(v, ast.BoolOp) and isinstance(v.op, ast.Or):
                    verdict = ("bad", r, "is returned through `or`: a falsy result (PRUNE / an empty list) is discarded although only None means 'no result'")
                    break
                if isinstance(v, ast.Name) and v.id in rvars:
                    gsr = [(norm(gx), pol) for gx, pol in guards_of(cm, r, it)]
                    if (f"{v.id} is not None", True) in gsr or (f"{v.id} is None", False) in gsr:
                        verdict = ("ok", r, "")
                    elif (v.id, True) in gsr:
                        verdict = ("bad", r, "is returned only if truthy: a falsy result (PRUNE / an empty list) is discarded although only None means 'no result'")
                        break
                    elif verdict is None:
                        verdict = ("unknown", r, "")
                elif isinstance(v, ast.IfExp) and norm(v.body) in rvars and norm(v.test) == f"{norm(v.body)} is not None":
                    verdict = ("ok", r, "")
                elif verdict is None:
                    verdict = ("unknown", r, "")
            if verdict is None:
                ctx.R.fail("REG-5", cm, it, "the result of the elaborate callback is never returned: a replacement it supplies is ignored", construct="effect of elaborate")
            elif verdict[0] == "bad":
                ctx.R.fail("REG-5", cm, verdict[1], "the result of the elaborate callback " + verdict[2], construct="effect of elaborate")
            elif verdict[0] == "ok":
                ctx.R.ok("REG-5", "elaborate's non-None result is returned first")
            else:
                ctx.R.undecided("REG-5", "the elaborate result reaches a return in a shape that is not recognised")
    # prune
    if "prune" in reads:
        prets = [r for r in ast.walk(it) if isinstance(r, ast.Return) and r.value is not None and (norm(r.value) in ("PRUNE", "()") or (isinstance(r.value, ast.IfExp) and norm(r.value.body) in ("PRUNE", "()")))]
        okp = False
        for r in prets:
            if isinstance(r.value, ast.IfExp):
                okp = okp or (norm(r.value.test) == "prune" and norm(r.value.orelse) == "None")
            else:
                okp = okp or any(norm(gx) == "prune" and pol for gx, pol in guards_of(cm, r, it))
        if okp:
            ctx.R.ok("REG-5", "otherwise PRUNE iff prune")
        elif not prets and any(isinstance(a_, ast.Assign) and cm.enclosing_def(a_) is fn and "PRUNE" in norm(a_.value) and "prune" in norm(a_.value)
                               and isinstance(a_.targets[0], ast.Name) and any(isinstance(n_, ast.Name) and n_.id == a_.targets[0].id for r_ in ast.walk(it) if isinstance(r_, ast.Return) and r_.value is not None for n_ in ast.walk(r_.value))
                               for a_ in ast.walk(fn)):
            ctx.R.undecided("REG-5", "PRUNE reaches the hook's return through a closure variable computed from `prune`")
        elif not prets:
            ctx.R.fail("REG-5", cm, it, "option `prune` is read but PRUNE is never returned", construct="effect of prune")
        else:
            ctx.R.undecided("REG-5", "PRUNE is returned in a shape that is not recognised")
    # documented defaults: every flag off, no elaborate callback
    dflt = {a.arg: norm(d) for a, d in zip(fn.args.kwonlyargs, fn.args.kw_defaults)}
    want = {"hide": "False", "hide_line": "False", "prune": "False", "elaborate": "None"}
    for o, w in want.items():
        if dflt.get(o) == w:
            ctx.R.ok("REG-5", f"default {o}={w}")
        else:
            ctx.R.fail("REG-5", cm, fn, f"the default of option `{o}` must be {w} (found {dflt.get(o)}): every customize() call that does not mention it would switch it on", construct=f"customize default {o}={dflt.get(o)}")
    decs = [norm(d) for d in it.decorator_list]
    # install = elaborate_frame.register(target, *inner_names) ... install(customize_it): the decorator spelled out
    inst = {a_.targets[0].id for a_ in walk_scope(fn) if isinstance(a_, ast.Assign) and len(a_.targets) == 1 and isinstance(a_.targets[0], ast.Name) and norm(a_.value) == "elaborate_frame.register(target, *inner_names)"}
    spelled = [c_ for c_ in walk_scope(fn) if isinstance(c_, ast.Call) and isinstance(c_.func, ast.Name) and c_.func.id in inst and len(c_.args) == 1 and norm(c_.args[0]) == it.name and not c_.keywords]
    if decs == ["elaborate_frame.register(target, *inner_names)"]:
        ctx.R.ok("REG-5", "customize_it is registered for (target, *inner_names)")
    elif not decs and len(spelled) == 1 and not guards_of(cm, spelled[0], fn):
        ctx.R.ok("REG-5", "customize_it is registered for (target, *inner_names) (decorator applied by an explicit call)")
    else:
        ctx.R.fail("REG-5", cm, it, "customize_it must be registered as the elaborate_frame hook for (target, *inner_names)")
    if isinstance(fn.body[-1], ast.Return) and norm(fn.body[-1].value) == "target":
        ctx.R.ok("REG-5", "customize returns the target unchanged")
    else:
        ctx.R.fail("REG-5", cm, fn, "customize must return its target unchanged (decorator use)")


def reg8(ctx: Ctx) -> None:
    """REG-8 customize always registers: in every function of the customization module that registers an elaborate_frame hook
    for customize, each normal way out (other than handing back the decorator form for `target is None`) has passed a
    registration -- whatever the option values.  (customize(fn) with every option off must still replace an earlier
    customization of fn: the latest registration wins.)"""
    cm = ctx.P.mod("_customization")
    n = 0
    for q, fn in cm.defs.items():
        if not isinstance(fn, (ast.FunctionDef, ast.AsyncFunctionDef)) or not (q == "customize" or q.startswith("_") or "." in q):
            continue
        sites = []
        for st in ast.walk(fn):
            if cm.enclosing_def(st) is not fn and st is not fn:
                # nested defs: their decorator is evaluated in fn
                if isinstance(st, ast.FunctionDef) and cm.enclosing_def(st) is fn and any("elaborate_frame.register" in norm(d) for d in st.decorator_list):
                    sites.append(st)
                continue
            if isinstance(st, ast.FunctionDef) and st is not fn and any("elaborate_frame.register" in norm(d) for d in st.decorator_list):
                sites.append(st)
            elif isinstance(st, ast.Expr) and isinstance(st.value, ast.Call) and "elaborate_frame.register" in norm(st.value.func):
                sites.append(st)
            elif isinstance(st, (ast.Assign, ast.Return)) and isinstance(getattr(st, "value", None), ast.Call) and "elaborate_frame.register" in norm(st.value.func):
                sites.append(st)
        if not sites:
            continue
        n += 1
        ctx.R.saw(cm, q)
        g = ctx.cfg(fn)
        through = {g.node_of(s_).idx for s_ in sites}
        rets = [r for r in ast.walk(fn) if isinstance(r, ast.Return) and cm.enclosing_def(r) is fn]
        bad = None
        for r in rets:
            if any(norm(gx) == "target is None" and pol for gx, pol in guards_of(cm, r, fn)):
                continue
            rn = g.node_of(r)
            if rn.idx in through:
                continue
            if not g.all_paths_pass(g.entry, {rn.idx}, through):
                bad = r
        # falling off the end
        if bad is None and not g.all_paths_pass(g.entry, {g.exit.idx}, through | {g.node_of(r).idx for r in rets} | {x.idx for x in g.nodes if x.ast is not None and isinstance(x.ast, ast.Raise)}):
            bad = fn
        if bad is not None:
            conds = sorted({norm(gx)[:60] for s_ in sites for gx, pol in guards_of(cm, s_, fn) if norm(gx) != "target is None"})
            ctx.R.fail("REG-8", cm, bad, f"{q}: a path reaches `{norm(bad)[:40] if bad is not fn else 'the end'}` without registering the elaborate_frame hook (registration is conditional on {conds or 'something'}): "
                       "customize(fn) with all options off then leaves an earlier customization / registration of fn in force instead of replacing it", construct=f"{q}: registration not on every path")
        else:
            ctx.R.ok("REG-8", f"{q}: every normal exit has registered the hook ({len(sites)} registration site(s))")
    if n < 1:
        raise AnalysisError("REG-8: no function of _customization registers an elaborate_frame hook")


def reg7(ctx: Ctx) -> None:
    """REG-7 nothing on the resolution path memoises by equality: code objects compare equal when their contents are equal,
    so an lru_cache / cache keyed by a code object hands back the result computed for a different-but-equal one"""
    mod = ctx.P.mod("_code_dispatch")
    n = 0
    for q, fn in mod.defs.items():
        if not isinstance(fn, (ast.FunctionDef, ast.AsyncFunctionDef)):
            continue
        n += 1
        for d in fn.decorator_list:
            dn = norm(d.func) if isinstance(d, ast.Call) else norm(d)
            if dn.split(".")[-1] in ("lru_cache", "cache"):
                ctx.R.fail("REG-7", mod, fn, f"`{q}` is memoised with @{dn}: its cache is keyed by equality, so for two distinct-but-equal code objects (the same source compiled twice, a reloaded module) "
                           "the second lookup returns the first one's result and a registration binds to code that does not run", construct=f"@{dn} on {q}")
    for st in mod.tree.body:
        if isinstance(st, (ast.Assign, ast.AnnAssign)) and st.value is not None and isinstance(st.value, (ast.Dict, ast.Call)) and norm(st.value) in ("{}", "dict()", "WeakKeyDictionary()", "weakref.WeakKeyDictionary()"):
            ctx.R.fail("REG-7", mod, st, "a module-level equality-keyed mapping in the code-resolution module: results cached under a code object are found again for an equal-but-distinct one",
                       construct=f"module-level cache {norm(st)[:60]}")
    ctx.R.ok("REG-7", f"no equality-keyed memoisation on {n} functions of _code_dispatch")



def reg9_pop_sentinel(ctx: Ctx) -> None:
    """REG-9 IdentityDict.pop tells "no default given" from every value a caller can pass: the default parameter's own default is a
    private sentinel object, not None / False / 0 / "" -- with a passable constant, `pop(missing, None)` raises KeyError instead of
    returning None, and the mapping no longer behaves like the dict it stands in for"""
    mod = ctx.P.mod("_code_dispatch")
    if not mod.has("IdentityDict.pop"):
        ctx.R.ok("REG-9", "IdentityDict has no pop of its own", "MutableMapping.pop (sentinel-based) is used")
        return
    fn = mod.fn("IdentityDict.pop")
    a = fn.args
    pos = a.posonlyargs + a.args
    dmap = {x.arg: d for x, d in zip(pos[len(pos) - len(a.defaults):], a.defaults)}
    dmap.update({x.arg: d for x, d in zip(a.kwonlyargs, a.kw_defaults) if d is not None})
    cands = [n_ for n_ in dmap if n_ not in ("self", "key")]
    if len(cands) != 1:
        ctx.R.undecided("REG-9", f"IdentityDict.pop has {len(cands)} defaulted parameters besides the key (1 expected)")
        return
    d = dmap[cands[0]]
    raises = [r for r in ast.walk(fn) if isinstance(r, ast.Raise)]
    if isinstance(d, ast.Constant) and not (d.value is Ellipsis):
        if raises:
            ctx.R.fail("REG-9", mod, fn, f"IdentityDict.pop uses the passable value `{d.value!r}` as its \"no default given\" marker: pop(<missing key>, {d.value!r}) raises KeyError instead of returning {d.value!r}",
                       construct=f"pop default marker {d.value!r}")
        else:
            ctx.R.undecided("REG-9", "IdentityDict.pop never raises")
    else:
        ctx.R.ok("REG-9", f"IdentityDict.pop: `{cands[0]}` defaults to the private marker `{norm(d)[:40]}`")


C12 = [reg9_pop_sentinel, reg1_2, reg3, reg4_6, reg5, reg7, reg8]
