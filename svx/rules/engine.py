"""Rules over the extraction engine (_extract.py, _customization.py):
CONT-1..5, DEF-1, CONT-W (C05); ENG-1, ENG-2, YF-1 (C10); CTX-1..5 (C11);
OPT-1..8 (C13); ORI-1..3 (C16)."""
from __future__ import annotations

import ast
from typing import Dict, List, Optional, Set, Tuple

from ..cfg import CFG, handler_is_broad
from ..ctx import Ctx
from ..dataflow import definite_assignment, nonempty_analysis, _stores
from ..model import AnalysisError, Callee, Mod, norm, walk_scope, calls_in, PKG
from ..util import (broad_handlers, contains, enclosing_loops, enclosing_tries, equivalent, in_body)
from .opcodes import guards_of

HOOKS = {
    f"{PKG}._customization.unwrap_stackitem": "unwrap_stackitem hook (singledispatch: third-party code)",
    f"{PKG}._customization.elaborate_frame": "elaborate_frame hook (code_dispatch: third-party code)",
    f"{PKG}._lowlevel.contexts_active_in_frame": "context analysis (ctypes / bytecode inspection)",
    f"{PKG}._extract.fill_context": "elaborate_context / unwrap_context hooks",
}

# calls in the containment scope that cannot raise given the engine's own invariants
ALLOW = {
    "builtin:isinstance": "total",
    "builtin:len": "on deques/lists/tuples the engine built or on a documented Sequence",
    "builtin:reversed": "on a tuple the engine built or on a hook result already tested to be a Sequence",
    "builtin:list": "over a generator expression of the engine's own tuples",
    "builtin:RuntimeError": "exception construction",
    "builtin:TypeError": "exception construction",
    "builtin:type": "total",
    "builtin:bool": "the truth test a statement would make anyway (`if x:` / `not x`); on the engine's own containers or a documented Sequence",
    "builtin:range": "over an integer the engine computed",
    "builtin:id": "total",
    "ext:collections.deque": "empty deque construction",
    "ext:exceptiongroup.ExceptionGroup": "non-empty list of Exception instances collected by `except Exception`",
    "builtin:ExceptionGroup": "non-empty list of Exception instances collected by `except Exception`",
    f"pkg:{PKG}._extract.better_origin": "own try/except TypeError around weakref.ref",
    f"pkg:{PKG}._types.Frame": "dataclass over a real frame object; __post_init__ reads f_lineno",
    f"pkg:{PKG}._types.Stack": "dataclass construction",
    f"pkg:{PKG}._types.StackSlice": "dataclass construction",
    f"pkg:{PKG}._glue.add_glue_as_needed": "glue failures are turned into warnings (rules GLUE-4, C17)",
    f"pkg:{PKG}._extract.extract_iter": "generator creation: no code runs until next()",
    f"pkg:{PKG}._extract.extract_child": "the containment scope itself",
    f"pkgattr:{PKG}._extract.current_options.push": "thread-local save/restore (rules OPT-2)",
}
CONTAINER_METHODS = {"append", "appendleft", "pop", "popleft"}


def _engine_mod(ctx: Ctx) -> Mod:
    return ctx.P.mod("_extract")


def _main_loop(fn: ast.AST) -> ast.While:
    loops = [s for s in fn.body if isinstance(s, ast.While)]
    if len(loops) != 1:
        raise AnalysisError("extract_iter: main `while to_unwrap or to_elaborate` loop not found")
    return loops[0]


def _hook_calls(ctx: Ctx, mod: Mod, fn: ast.AST) -> List[Tuple[ast.Call, str]]:
    out = []
    for c in calls_in(fn, scope_only=True):
        cal = ctx.P.resolve_call(mod, c)
        key = cal.name if cal.kind == "pkg" else None
        if key in HOOKS:
            out.append((c, HOOKS[key]))
        elif cal.kind == "builtin" and cal.name == "next" and not (
                c.args and isinstance(c.args[0], ast.Call) and ctx.P.resolve_call(mod, c.args[0]).is_pkg("_extract", "extract_iter")):
            out.append((c, "stepping a FrameIterator (third-party generator)"))
    return out


def cont1_2(ctx: Ctx) -> None:
    """CONT-1 every hook / frame-source call in extract_iter is inside try/except Exception that neither
    re-raises nor leaves the engine loop; CONT-2 the handler records the exception in save_errors"""
    mod = _engine_mod(ctx)
    fn = mod.fn("extract_iter")
    ctx.R.saw(mod, "extract_iter")
    main = _main_loop(fn)
    params = [a.arg for a in fn.args.args]
    if len(params) < 2:
        raise AnalysisError("extract_iter lost its save_errors parameter")
    errs = params[1]
    hooks = _hook_calls(ctx, mod, fn)
    for call, why in hooks:
        tries = enclosing_tries(mod, call)
        good = None
        for t in tries:
            bh = broad_handlers(t)
            if bh:
                good = (t, bh[0])
                break
        label = norm(call)[:70]
        if good is None:
            # inside `with <manager defined in this package>(...)`: whether that manager's __exit__ swallows the exception is not followed
            own_with = [w_ for w_ in mod.ancestors(call) if isinstance(w_, ast.With) and any(isinstance(i_.context_expr, ast.Call) and isinstance(i_.context_expr.func, ast.Name)
                                                                                                and mod.has(i_.context_expr.func.id) for i_ in w_.items)]
            if own_with:
                ctx.R.undecided("CONT-1", f"{why}: `{label}` runs under `with {norm(own_with[0].items[0].context_expr)[:50]}`, a manager defined in the package; whether its __exit__ contains the exception is not followed")
                continue
            narrow = [norm(h.type) for t in tries for h in t.handlers if h.type is not None]
            ctx.R.fail("CONT-1", mod, call,
                       f"{why}: this call is not inside a try whose handler catches Exception"
                       + (f" (only {narrow})" if narrow else "") + ": an exception raised here escapes extract()",
                       construct=label)
            continue
        t, h = good
        # the handler must be reached before any narrower handler that re-raises... (ordering)
        idx = t.handlers.index(h)
        esc = None
        for st in h.body:
            for n in [st] + contains(st, (ast.Raise, ast.Return, ast.Break)):
                if isinstance(n, (ast.Raise, ast.Return)):
                    esc = n
                elif isinstance(n, ast.Break):
                    loops = enclosing_loops(mod, n)
                    if loops and loops[0] is main:
                        esc = n
        if esc is not None:
            ctx.R.fail("CONT-1", mod, esc, f"{why}: the handler around `{label}` re-raises or leaves the engine loop: the fault is not contained / outer frames are lost",
                       construct=f"{label} -> {norm(esc)}")
            continue
        call_loops = enclosing_loops(mod, call)
        try_loops = enclosing_loops(mod, t)
        if call_loops and (not try_loops or try_loops[0] is not call_loops[0]):
            ctx.R.fail("CONT-1", mod, t, f"{why}: the try that contains a fault of `{label}` encloses the whole `{norm(call_loops[0]).splitlines()[0][:50]}` loop instead of one iteration: "
                       "one failing item ends the loop and the remaining items are skipped (never elaborated)", construct=f"{label}: try outside its loop")
            continue
        if "FrameIterator" in why:
            il = enclosing_loops(mod, t)
            ends = [n for st in h.body for n in [st] + contains(st, (ast.Break, ast.Return, ast.Raise)) if isinstance(n, ast.Break)]
            if il and il[0] is not main and not ends:
                ctx.R.fail("CONT-1", mod, h, "after a FrameIterator raised, the handler does not leave the stepping loop: an iterator whose __next__ keeps raising is stepped forever (extract hangs)",
                           construct=f"handler of {label}: no break")
                continue
        ctx.R.ok("CONT-1", f"extract_iter: {label}", f"guarded by `except {norm(h.type) if h.type else ''}`; {why}")
        # CONT-2
        name = h.name
        rec = False
        for n in ast.walk(h):
            if isinstance(n, ast.Call) and norm(n.func) == f"{errs}.append" and n.args and name and norm(n.args[0]) == name:
                rec = True
        if rec:
            ctx.R.ok("CONT-2", f"extract_iter: handler of {label}", f"{errs}.append({name})")
        else:
            ctx.R.fail("CONT-2", mod, h, f"the handler that contains a fault of `{label}` does not record the exception in {errs}: it would be missing from Stack.error",
                       construct=f"handler of {label}")
    ctx.R.expect_min("CONT-1", 3)
    ctx.R.expect_min("CONT-2", 3)
    # the narrower handler before a broad one must not pre-empt Exception subclasses other than StopIteration
    for t in contains(fn, ast.Try):
        seen_broad = False
        for h in t.handlers:
            if handler_is_broad(h):
                seen_broad = True
            elif not seen_broad and h.type is not None and norm(h.type) != "StopIteration":
                if any(isinstance(n, ast.Raise) for n in ast.walk(h)):
                    ctx.R.fail("CONT-1", mod, h, "a narrower handler placed before `except Exception` re-raises")


def cont3(ctx: Ctx) -> None:
    """CONT-3 every pop()/popleft()/[0]/[-1] on the engine's queues is dominated by a non-emptiness test"""
    mod = _engine_mod(ctx)
    total = 0
    for q, base in (("extract_iter", {"to_unwrap", "to_elaborate", "items"}), ("extract_child", {"errors"}), ("extract_outermost", {"errors"})):
        fn = mod.fn(q)
        ctx.R.saw(mod, q)
        containers = set(base)
        for n in walk_scope(fn):
            if isinstance(n, ast.Call) and isinstance(n.func, ast.Attribute) and n.func.attr in ("popleft", "pop") \
                    and isinstance(n.func.value, ast.Name) and not n.args:
                containers.add(n.func.value.id)
        g = ctx.cfg(fn)
        for acc, c, ok in nonempty_analysis(g, containers):
            total += 1
            if ok:
                ctx.R.ok("CONT-3", f"{q}: {norm(acc)}", f"{c} is known non-empty on every path")
            elif any(isinstance(l_, ast.For) and isinstance(l_.iter, ast.Call) and norm(l_.iter.func) == "range" for l_ in mod.ancestors(acc) if isinstance(l_, (ast.For, ast.While))):
                ctx.R.undecided("CONT-3", f"`{norm(acc)}` sits in a counted loop (`for ... in range(...)`): whether the count is bounded by len({c}) is arithmetic this rule does not follow")
            else:
                ctx.R.fail("CONT-3", mod, acc, f"`{norm(acc)}` is reachable with `{c}` possibly empty (no dominating non-emptiness test): IndexError escapes extract()",
                           construct=f"{norm(acc)} in {norm(_stmt(mod, acc))[:100]}")
    if total < 6:
        raise AnalysisError(f"CONT-3: {total} container accesses found (13 confirmed by hand on the reference tree; fewer than 6 means the queues were not recognised)")


def _stmt(mod: Mod, n: ast.AST) -> ast.AST:
    while not isinstance(n, ast.stmt):
        n = mod.parent_of(n)
    return n


def cont4(ctx: Ctx) -> None:
    """CONT-4 once a frame is taken from the queue, every non-raising path to the next iteration yields it"""
    mod = _engine_mod(ctx)
    fn = mod.fn("extract_iter")
    main = _main_loop(fn)
    g = ctx.cfg(fn)
    take = None
    for st in walk_scope(fn):
        if isinstance(st, ast.Assign) and isinstance(st.value, ast.Call) and norm(st.value.func) == "to_elaborate.popleft" \
                and isinstance(st.targets[0], ast.Tuple):
            take = st
    if take is None:
        raise AnalysisError("CONT-4: `frame, depth = to_elaborate.popleft()` vanished")
    fvar = norm(take.targets[0].elts[0])
    ys = [st for st in walk_scope(fn) if isinstance(st, ast.Expr) and isinstance(st.value, ast.Yield) and st.value.value is not None and norm(st.value.value) == fvar]
    if not ys:
        ctx.R.fail("CONT-4", mod, take, f"the frame taken from the queue is never yielded", construct="yield frame")
        return
    a = g.node_of(take)
    header = g.node_of(main)
    dsts = {header.idx, g.exit.idx}
    through = {g.node_of(y).idx for y in ys}
    if g.all_paths_pass(a, dsts, through):
        ctx.R.ok("CONT-4", f"extract_iter: every path from `{norm(take)}` to the next iteration or return passes `yield {fvar}`")
    else:
        path = g.witness_path(a, dsts, through)
        ctx.R.fail("CONT-4", mod, take, "a frame can be taken from the queue and dropped without being yielded: path "
                   + " -> ".join(norm(n.ast).split("\n")[0][:40] for n in path if n.ast is not None)[:400],
                   construct=f"path from {norm(take)} avoiding yield")
    # the elaborate_frame handler keeps the frame visible and prunes the rest
    for call, why in _hook_calls(ctx, mod, fn):
        if ctx.P.resolve_call(mod, call).is_pkg("_customization", "elaborate_frame"):
            tries = enclosing_tries(mod, call)
            hs = broad_handlers(tries[0]) if tries else []
            if not hs:
                continue  # CONT-1 reports it
            body = [norm(s) for s in hs[0].body]
            tgt = _stmt(mod, call)
            rvar = norm(tgt.targets[0]) if isinstance(tgt, ast.Assign) else "replacement"
            if f"{fvar}.hide = False" in body:
                ctx.R.ok("CONT-4", "elaborate_frame handler un-hides the frame")
            else:
                ctx.R.fail("CONT-4", mod, hs[0], "when elaborate_frame fails the frame must be kept visible (frame.hide = False): a hook that set hide and then raised would make the failing frame vanish from the output",
                           construct="elaborate_frame handler: frame.hide = False")
            if f"{rvar} = PRUNE" in body or f"{rvar} = ()" in body:
                ctx.R.ok("CONT-4", "elaborate_frame handler prunes the rest")
            else:
                ctx.R.fail("CONT-4", mod, hs[0], f"when elaborate_frame fails `{rvar}` must be bound (to PRUNE): otherwise it is unbound or stale on that path",
                           construct="elaborate_frame handler: replacement = PRUNE")


def _cont5_by_evaluation(ctx: Ctx, mod, fn: ast.FunctionDef):
    """evaluate extract_child (engine MINI) with an extract_iter stand-in that yields two frames, records n exceptions and
    returns a leaf: -> ("ok", n_cases) / ("bad", text, construct) / None when outside the evaluator's fragment"""
    from types import SimpleNamespace as NS
    from ..minieval import Mini, Raised, Unsupported, _Return
    params = [a.arg for a in fn.args.args] + [a.arg for a in fn.args.kwonlyargs]
    if len(params) != 2:
        return None
    SliceT = NS(tname="StackSlice")
    n_ok = 0
    for is_slice in (False, True):
        for n in (0, 1, 2, 3):
            item, leaf = NS(tag="stackitem", is_slice=is_slice), NS(tag="leaf")
            fr, errs = [NS(tag="frame0"), NS(tag="frame1")], [NS(tag=f"error{i}") for i in range(n)]
            state = {"k": 0, "list": None}

            def extract_iter(it_, lst_):
                if it_ is not item or not isinstance(lst_, list):
                    raise Unsupported("extract_iter called on something else")
                state["list"] = lst_
                return NS(tag="iterator", gi_frame=None)

            def nxt(it_, *d_):
                if state["k"] < len(fr):
                    state["k"] += 1
                    return fr[state["k"] - 1]
                if state["k"] == len(fr):
                    state["k"] += 1
                    state["list"].extend(errs)          # everything extract_iter recorded is in the list by the time it returns
                    raise Raised("StopIteration", NS(tag="StopIteration", value=leaf))
                raise Unsupported("next() after the iterator finished")

            def isinst(o_, c_):
                if c_ is not SliceT:
                    raise Unsupported("isinstance against another class")
                return o_ is item and is_slice

            def stack(**kw):
                return NS(kind="Stack", **kw)
            env = {params[0]: item, params[1]: False, "current_options": NS(with_contexts=True, recurse_child_tasks=False), "StackSlice": SliceT}
            m = Mini(env, {q: f for q, f in mod.defs.items() if isinstance(f, ast.FunctionDef) and "." not in q and f is not fn},
                     {"extract_iter": extract_iter, "next": nxt, "isinstance": isinst, "Stack": stack, "ExceptionGroup": lambda msg, lst: NS(kind="group", members=list(lst), same=lst is state["list"])})
            res = None
            try:
                try:
                    for st in fn.body:
                        m.stmt(st)
                except _Return as r:
                    res = r.value
            except (Unsupported, Raised):
                return None
            except Exception:
                return None
            if not isinstance(res, NS) or getattr(res, "kind", None) != "Stack":
                return None
            case = f"{n} recorded exception(s)"
            err = getattr(res, "error", None)
            if n == 0 and err is not None or n == 1 and err is not errs[0] or n >= 2 and not (isinstance(err, NS) and getattr(err, "kind", "") == "group" and len(err.members) == n and all(a is b for a, b in zip(err.members, errs))):
                got = "None" if err is None else "the first exception alone" if n and err is errs[0] else "another single exception" if err in errs else f"a group of {len(err.members)}" if getattr(err, "kind", "") == "group" else "something else"
                want = {0: "None", 1: "that exception itself"}.get(n, f"an ExceptionGroup of all {n}")
                return ("bad", f"with {case} Stack.error must be {want}, the code computes {got}: recorded faults are lost or mis-shaped", f"len(errors) == {n}")
            if getattr(res, "leaf", None) is not leaf:
                return ("bad", "Stack.leaf must be the value extract_iter returns (StopIteration.value)", "leaf")
            fs = getattr(res, "frames", None)
            if not isinstance(fs, list) or len(fs) != 2 or any(a is not b for a, b in zip(fs, fr)):
                return ("bad", "Stack.frames must be the frames extract_iter yielded, in order", "frames")
            want_root = None if is_slice else item
            if getattr(res, "root", "missing") is not want_root:
                return ("bad", f"Stack.root must be {'None for a StackSlice' if is_slice else 'the extracted object'}", "root")
            n_ok += 1
    return ("ok", n_ok)


def cont5(ctx: Ctx) -> None:
    """CONT-5 extract_child turns the error list into None / the single exception / an ExceptionGroup"""
    mod = _engine_mod(ctx)
    fn = mod.fn("extract_child")
    ctx.R.saw(mod, "extract_child")
    # errors list passed to extract_iter
    it_calls = [c for c in calls_in(fn, True) if ctx.P.resolve_call(mod, c).is_pkg("_extract", "extract_iter")]
    if len(it_calls) != 1 or len(it_calls[0].args) < 2:
        raise AnalysisError("CONT-5: extract_iter(stackitem, errors) call vanished")
    ev5 = _cont5_by_evaluation(ctx, mod, fn)
    if ev5 is not None and ev5[0] == "ok":
        ctx.R.ok("CONT-5", f"extract_child evaluated on {ev5[1]} cases (0-3 recorded exceptions; object / StackSlice)", "error is None / the exception / an ExceptionGroup of all; leaf, frames and root passed through")
        return
    if ev5 is not None:
        ctx.R.fail("CONT-5", mod, fn, ev5[1], construct=ev5[2])
        return
    errs = norm(it_calls[0].args[1])
    item = norm(it_calls[0].args[0])
    hs = [h for t in contains(fn, ast.Try) for h in t.handlers if h.type is not None and norm(h.type) == "StopIteration"]
    if len(hs) != 1:
        raise AnalysisError("CONT-5: StopIteration handler of extract_child vanished")
    h = hs[0]
    stacks = [c for c in ast.walk(h) if isinstance(c, ast.Call) and ctx.P.resolve_call(mod, c).is_pkg("_types", "Stack")]
    if len(stacks) != 1:
        raise AnalysisError("CONT-5: Stack(...) construction vanished")
    kw = {k.arg: k.value for k in stacks[0].keywords}
    evar = norm(kw["error"]) if "error" in kw else None
    if evar is None:
        ctx.R.fail("CONT-5", mod, stacks[0], "Stack is built without error=: recorded exceptions are dropped")
        return
    if "leaf" not in kw or norm(kw["leaf"]) != f"{h.name}.value":
        ctx.R.fail("CONT-5", mod, stacks[0], "leaf must be the generator's return value (StopIteration.value)")
    else:
        ctx.R.ok("CONT-5", f"leaf={norm(kw['leaf'])}")
    if "frames" not in kw:
        ctx.R.fail("CONT-5", mod, stacks[0], "Stack is built without the frames collected so far")
    # shape of the error computation: abstractly evaluate for len(errors) in {0, 1, 2}
    assigns = [s for s in ast.walk(h) if isinstance(s, ast.Assign) and norm(s.targets[0]) == evar]

    def classify(e: ast.AST, n: int) -> str:
        if isinstance(e, ast.IfExp):
            t = _len_test(e.test, errs, n)
            if t is None:
                return "?"
            return classify(e.body if t else e.orelse, n)
        if isinstance(e, ast.Constant) and e.value is None:
            return "none"
        if isinstance(e, ast.Subscript) and norm(e.value) == errs and norm(e.slice) == "0":
            return "single" if n >= 1 else "indexerror"
        if isinstance(e, ast.Call) and norm(e.func) == "ExceptionGroup" and len(e.args) == 2 and norm(e.args[1]) == errs:
            return "group"
        return "?"

    def run(body: List[ast.stmt], n: int) -> Optional[str]:
        val = None
        for st in body:
            if isinstance(st, ast.If):
                t = _len_test(st.test, errs, n)
                if t is None:
                    continue
                r = run(st.body if t else st.orelse, n)
                if r is not None:
                    val = r
            elif isinstance(st, ast.Assign) and norm(st.targets[0]) == evar:
                val = classify(st.value, n)
        return val

    def run_helper(n: int) -> Optional[str]:
        """error = helper(errors): evaluate the helper's returns abstractly (one level)"""
        for a in assigns:
            v = a.value
            if isinstance(v, ast.Call) and len(v.args) == 1 and norm(v.args[0]) == errs:
                cal = ctx.P.resolve_call(mod, v)
                if cal.kind == "pkg" and cal.name.startswith(f"{PKG}._extract."):
                    hf = mod.defs.get(cal.name.split(".")[-1])
                    if isinstance(hf, ast.FunctionDef) and len(hf.args.args) == 1:
                        pv = hf.args.args[0].arg

                        def cls2(e: ast.AST) -> str:
                            if isinstance(e, ast.IfExp):
                                t = _len_test(e.test, pv, n)
                                return "?" if t is None else cls2(e.body if t else e.orelse)
                            if isinstance(e, ast.Constant) and e.value is None:
                                return "none"
                            if isinstance(e, ast.Subscript) and norm(e.value) == pv and norm(e.slice) == "0":
                                return "single" if n >= 1 else "indexerror"
                            if isinstance(e, ast.Call) and norm(e.func) == "ExceptionGroup" and len(e.args) == 2 and norm(e.args[1]) == pv:
                                return "group"
                            return "?"

                        def walk(body: List[ast.stmt]) -> Optional[str]:
                            for st in body:
                                if isinstance(st, ast.If):
                                    t = _len_test(st.test, pv, n)
                                    if t is None:
                                        return "?"
                                    r = walk(st.body if t else st.orelse)
                                    if r is not None:
                                        return r
                                elif isinstance(st, ast.Return):
                                    return cls2(st.value) if st.value is not None else "none"
                            return None
                        return walk(hf.body)
        return None

    want = {0: "none", 1: "single", 2: "group", 3: "group"}
    for n, w in want.items():
        got = run(h.body, n)
        if got in (None, "?"):
            got = run_helper(n) or got
        if got == w:
            ctx.R.ok("CONT-5", f"len({errs}) == {n} -> error is {w}")
        elif got in (None, "?"):
            ctx.R.undecided("CONT-5", f"cannot evaluate how Stack.error is computed for {n} recorded exception(s)")
        else:
            ctx.R.fail("CONT-5", mod, h, f"with {n} recorded exception(s) Stack.error must be {w}, the code computes {got}",
                       construct=f"len({errs}) == {n}")


def _len_test(t: ast.AST, var: str, n: int) -> Optional[bool]:
    if isinstance(t, ast.Name) and t.id == var:
        return n > 0
    if isinstance(t, ast.UnaryOp) and isinstance(t.op, ast.Not):
        r = _len_test(t.operand, var, n)
        return None if r is None else not r
    if isinstance(t, ast.Compare) and len(t.ops) == 1 and norm(t.left) == f"len({var})" and isinstance(t.comparators[0], ast.Constant):
        k = t.comparators[0].value
        op = t.ops[0]
        return {ast.Gt: n > k, ast.GtE: n >= k, ast.Lt: n < k, ast.LtE: n <= k, ast.Eq: n == k, ast.NotEq: n != k}[type(op)]
    return None


def def1(ctx: Ctx) -> None:
    """DEF-1 (our own 'possibly-undefined'): every local read in the engine is assigned on every path,
    including the exceptional edges into handlers"""
    for mn, qs in (("_extract", ["extract_iter", "extract_child", "extract_outermost", "extract_until", "fill_context"]),
                   ("_glue", ["install_glue_for_module", "add_glue_as_needed"])):
        mod = ctx.P.mod(mn)
        for q in qs:
            if not mod.has(q):
                if q == "install_glue_for_module":
                    continue
                raise AnalysisError(f"DEF-1: {mn}.{q} vanished")
            fn = mod.fn(q)
            ctx.R.saw(mod, q)
            locs = set()
            for n in walk_scope(fn):
                if isinstance(n, ast.Name) and isinstance(n.ctx, ast.Store):
                    locs.add(n.id)
            glob = {nm for n in walk_scope(fn) if isinstance(n, (ast.Global, ast.Nonlocal)) for nm in n.names}
            locs -= glob
            bad = definite_assignment(ctx.cfg(fn), fn, locs)
            if not bad:
                ctx.R.ok("DEF-1", f"{mn}.{q}: {len(locs)} locals definitely assigned before every read")
            for node, name in bad:
                ctx.R.fail("DEF-1", mod, node, f"local `{name}` may be read before assignment on some path (e.g. through an exception handler that does not bind it): UnboundLocalError escapes",
                           construct=f"{name} in {norm(_stmt(mod, node))[:100]}")


def contw(ctx: Ctx) -> None:
    """CONT-W every other call in the containment scope is on the frozen allowlist; an unlisted call
    makes the check undecided (exit 2), not a violation"""
    mod = _engine_mod(ctx)
    unknown = []
    for q in ("extract", "extract_child", "extract_iter"):
        fn = mod.fn(q)
        hook_ids = {id(c) for c, _ in _hook_calls(ctx, mod, fn)}
        for c in calls_in(fn, scope_only=True):
            if id(c) in hook_ids:
                continue
            cal = ctx.P.resolve_call(mod, c)
            key = f"{cal.kind}:{cal.name}"
            if cal.kind == "method" and cal.name in CONTAINER_METHODS and isinstance(cal.recv, ast.Name):
                ctx.R.ok("CONT-W", f"{q}: {norm(c)[:60]}", "method of a container the engine built")
                continue
            if cal.kind == "builtin" and cal.name == "next":
                ctx.R.ok("CONT-W", f"{q}: {norm(c)[:60]}", "drives extract_iter, whose own containment is CONT-1")
                continue
            if key in ALLOW:
                ctx.R.ok("CONT-W", f"{q}: {norm(c)[:60]}", ALLOW[key])
                continue
            # constructor of a plain record class of the package (NamedTuple / dataclass: fields only, no __init__ / __new__ / __post_init__)
            if cal.kind == "pkg" and isinstance(c.func, ast.Name) and mod.has(c.func.id) and isinstance(mod.fn(c.func.id), ast.ClassDef):
                cls_ = mod.fn(c.func.id)
                body_ = [b for b in cls_.body if not (isinstance(b, ast.Expr) and isinstance(b.value, ast.Constant))]
                if body_ and all(isinstance(b, ast.AnnAssign) or (isinstance(b, ast.FunctionDef) and not b.name.startswith("__")) for b in body_) \
                        and not any(isinstance(x, ast.Starred) and norm(x.value) not in ("to_elaborate.pop()", "to_elaborate.popleft()") for x in c.args):
                    ctx.R.ok("CONT-W", f"{q}: {norm(c)[:60]}", "constructor of a plain record class (fields only): cannot raise for a fixed argument count")
                    continue
            # inside a broad try: contained whatever it is
            if any(broad_handlers(t) for t in enclosing_tries(mod, c)):
                ctx.R.ok("CONT-W", f"{q}: {norm(c)[:60]}", "inside try/except Exception")
                continue
            unknown.append(f"{q}: {norm(c)[:80]} [{key}]")
    if unknown:
        raise AnalysisError("CONT-W: call(s) in the containment scope that are not on the reviewed allowlist; cannot decide whether they may raise: " + "; ".join(unknown))
    ctx.R.expect_min("CONT-W", 10)


# ===================================================================== C10
def option_default(mod, fn: ast.AST, e: ast.AST) -> Optional[int]:
    """the integer an expression stands for on the default path: a literal; a module-level constant; `current_options.X` (or a
    local assigned once from it) where X's class-level default in ExtractOptions and the default of every parameter X of the
    package's functions are the same int literal (so it differs only when a caller asks for it)"""
    if isinstance(e, ast.Constant) and isinstance(e.value, int) and not isinstance(e.value, bool):
        return e.value
    if isinstance(e, ast.Name):
        defs = [a for a in walk_scope(fn) if isinstance(a, ast.Assign) and len(a.targets) == 1 and isinstance(a.targets[0], ast.Name) and a.targets[0].id == e.id]
        if len(defs) == 1:
            return option_default(mod, fn, defs[0].value)
        if not defs:
            top = [a for a in mod.tree.body if isinstance(a, (ast.Assign, ast.AnnAssign)) and norm(a.targets[0] if isinstance(a, ast.Assign) else a.target) == e.id and a.value is not None]
            if len(top) == 1 and isinstance(top[0].value, ast.Constant) and isinstance(top[0].value.value, int):
                return top[0].value.value
        return None
    if isinstance(e, ast.Attribute) and norm(e.value) == "current_options":
        cls = [c for c in mod.tree.body if isinstance(c, ast.ClassDef) and c.name == "ExtractOptions"]
        if not cls:
            return None
        vals = [a.value for a in cls[0].body if isinstance(a, (ast.Assign, ast.AnnAssign)) and norm(a.targets[0] if isinstance(a, ast.Assign) else a.target) == e.attr and a.value is not None]
        if len(vals) != 1 or not (isinstance(vals[0], ast.Constant) and isinstance(vals[0].value, int) and not isinstance(vals[0].value, bool)):
            return None
        for f in ast.walk(mod.tree):
            if isinstance(f, (ast.FunctionDef, ast.AsyncFunctionDef)):
                for a, d in list(zip(reversed(f.args.args), reversed(f.args.defaults))) + list(zip(f.args.kwonlyargs, f.args.kw_defaults)):
                    if a.arg == e.attr and d is not None and not (isinstance(d, ast.Constant) and d.value == vals[0].value):
                        return None
        return vals[0].value
    return None


def eng1(ctx: Ctx) -> None:
    """ENG-1 progress guard of the unwrap loop"""
    mod = _engine_mod(ctx)
    fn = mod.fn("extract_iter")
    main = _main_loop(fn)
    inner = [s for s in main.body if isinstance(s, ast.While)]
    if not inner:
        raise AnalysisError("ENG-1: inner unwrap loop not found")
    loop = inner[0]
    unwrap_calls = [c for c in calls_in(loop, True) if ctx.P.resolve_call(mod, c).is_pkg("_customization", "unwrap_stackitem")]
    if len(unwrap_calls) != 1:
        raise AnalysisError(f"ENG-1: {len(unwrap_calls)} unwrap_stackitem calls in the unwrap loop")
    uc = unwrap_calls[0]
    incs = [s for s in walk_scope(fn) if isinstance(s, ast.AugAssign) and isinstance(s.op, ast.Add)]
    counters = {norm(s.target) for s in incs if isinstance(s.value, ast.Constant) and s.value.value == 1}
    cands = [c for c in counters if any(isinstance(s, ast.Compare) and norm(s.left) == c for s in ast.walk(loop))]
    if len(cands) != 1:
        ctx.R.fail("ENG-1", mod, loop, "the unwrap loop has no progress counter that is incremented and compared: an unwrap cycle hangs extract()", construct="progress counter")
        return
    cnt = cands[0]
    my_incs = [s for s in incs if norm(s.target) == cnt]
    t_uc = enclosing_tries(mod, uc)
    if len(my_incs) != 1 or not t_uc or not in_body(t_uc[0].body, my_incs[0], mod) or my_incs[0].lineno < uc.lineno:
        ctx.R.fail("ENG-1", mod, my_incs[0] if my_incs else loop, f"`{cnt}` must be incremented exactly once per unwrap_stackitem call, after it, in the same try body",
                   construct=f"{cnt} += 1")
    else:
        ctx.R.ok("ENG-1", f"{cnt} += 1 once per unwrap_stackitem call")
    # comparison against a literal bound followed by raise inside the containment try
    cmps = [s for s in ast.walk(loop) if isinstance(s, ast.If) and isinstance(s.test, ast.Compare) and norm(s.test.left) == cnt]
    okb = False
    nonlit = None
    for s in cmps:
        c = s.test
        bnd = option_default(mod, fn, c.comparators[0])
        if isinstance(c.ops[0], (ast.Gt, ast.GtE)) and bnd is None and any(isinstance(x, ast.Raise) for x in s.body):
            nonlit = c
        if isinstance(c.ops[0], (ast.Gt, ast.GtE)) and bnd is not None \
                and any(isinstance(x, ast.Raise) for x in s.body):
            bound = bnd
            tries = enclosing_tries(mod, s)
            if not tries or not broad_handlers(tries[0]):
                ctx.R.fail("ENG-1", mod, s, "the 'no progress' RuntimeError is raised outside the containment try: extract() raises instead of ending with an error")
            elif bound != 100:
                ctx.R.fail("ENG-1", mod, s, f"the documented bound is 100 steps without progress, the code uses {bound}")
            else:
                okb = True
                ctx.R.ok("ENG-1", f"{norm(c)} -> raise inside the containment try")
    if not okb and nonlit is not None and not any(f.rule == "ENG-1" for f in ctx.R.findings):
        ctx.R.undecided("ENG-1", f"the progress bound `{norm(nonlit)}` is not a literal and not an option with a literal default")
    elif not okb and not any(f.rule == "ENG-1" for f in ctx.R.findings):
        ctx.R.fail("ENG-1", mod, loop, "no `counter > <literal>: raise` test in the unwrap loop", construct="progress bound")
    # reset before the loop and in every branch that records progress
    prev = main.body[main.body.index(loop) - 1] if main.body.index(loop) > 0 else None
    # ... on every path into the loop: the nearest preceding statements of the block may be other plain assignments / asserts
    k_ = main.body.index(loop) - 1
    found_reset = False
    while k_ >= 0:
        st_ = main.body[k_]
        if norm(st_) == f"{cnt} = 0" or (isinstance(st_, ast.AnnAssign) and norm(st_.target) == cnt and norm(st_.value) == "0"):
            found_reset = True
            break
        if isinstance(st_, (ast.Assign, ast.AnnAssign, ast.Assert, ast.Pass)) and not any(isinstance(n_, ast.Name) and n_.id == cnt for n_ in ast.walk(st_)) \
                or (isinstance(st_, ast.Expr) and isinstance(st_.value, ast.Constant)):
            k_ -= 1
            continue
        break
    if found_reset:
        ctx.R.ok("ENG-1", f"{cnt} = 0 before the unwrap loop")
    elif any(isinstance(a_, (ast.Assign, ast.AnnAssign)) and norm(a_.targets[0] if isinstance(a_, ast.Assign) else a_.target) == cnt and norm(a_.value) == "0" and a_.lineno < loop.lineno
             and any(a_ is x_ for x_ in ast.walk(main)) for a_ in ast.walk(main)):
        ctx.R.undecided("ENG-1", f"`{cnt}` is reset to 0 inside the main loop before the unwrap loop, but not as one of the plain statements directly in front of it")
    else:
        ctx.R.fail("ENG-1", mod, loop, f"`{cnt}` is not reset to 0 immediately before the unwrap loop", construct=f"{cnt} = 0 before loop")
    n_prog = 0
    for s in ast.walk(loop):
        if isinstance(s, ast.Expr) and isinstance(s.value, ast.Call) and norm(s.value.func) == "to_elaborate.append":
            n_prog += 1
            blk = _block_of(mod, s)
            before = [norm(x) for x in blk[:blk.index(s)]]
            if f"{cnt} = 0" in before:
                ctx.R.ok("ENG-1", f"progress branch `{norm(s)[:50]}` resets {cnt}")
            else:
                ctx.R.fail("ENG-1", mod, s, f"a branch that records progress does not reset `{cnt}`: a long but finite chain is mis-reported as a loop",
                           construct=f"reset before {norm(s)[:60]}")
    if n_prog < 2:
        raise AnalysisError("ENG-1: progress branches not found")
    # ... and nowhere else inside the loop: a reset that is not followed by handing an item to the
    # elaboration queue lets an unwrap cycle through that branch run forever
    for s in ast.walk(loop):
        if isinstance(s, ast.Assign) and norm(s) == f"{cnt} = 0":
            blk = _block_of(mod, s)
            after = [norm(x) for x in blk[blk.index(s) + 1:]]
            if any(a.startswith("to_elaborate.append(") for a in after):
                continue
            ctx.R.fail("ENG-1", mod, s, f"`{cnt}` is reset in a branch that does not record progress (nothing is handed to the elaboration queue there): "
                       "an unwrapping cycle that passes through this branch is never detected and extract() hangs",
                       construct=f"{cnt} = 0 without progress in: {norm(_enclosing_if_test(mod, s))[:100]}")


def _enclosing_if_test(mod: Mod, st: ast.AST) -> ast.AST:
    for a in mod.ancestors(st):
        if isinstance(a, (ast.If, ast.While)):
            return a.test
    return st


def _block_of(mod: Mod, st: ast.stmt) -> List[ast.stmt]:
    p = mod.parent_of(st)
    for f in ("body", "orelse", "finalbody"):
        b = getattr(p, f, None)
        if isinstance(b, list) and any(x is st for x in b):
            return b
    raise AnalysisError("block not found")


def _touches_q(st: ast.AST) -> bool:
    return any(isinstance(x, ast.Name) and x.id in ("to_unwrap", "to_elaborate") for x in ast.walk(st))


def _eng2_by_evaluation(ctx: Ctx, mod, fn, rest: List[ast.stmt], rvar: str, ninner: str):
    """evaluate what follows `yield frame` in the main loop (engine MINI) on concrete queues and hook results and compare the
    queues afterwards with the documented rules: None keeps everything; otherwise the result (a sequence, or one item) replaces
    what is queued at the frame's depth or deeper -- unless its last element is next_inner, the insert form, which drops only
    the queued copy of next_inner -- and everything still queued moves back to be unwrapped, in order, behind the new items.
    -> ("ok", n) / ("bad", text, construct) / None when outside the evaluator's fragment"""
    from types import SimpleNamespace as NS
    from ..minieval import Mini, Raised, Unsupported
    SeqT = NS(tname="Sequence")
    FrameT = NS(tname="Frame")

    def isinst(o_, c_):
        if c_ is SeqT:
            return isinstance(o_, (list, tuple))
        if c_ is FrameT:
            return isinstance(o_, NS) and getattr(o_, "is_frame", False)
        raise Unsupported("isinstance against another class")
    d = 2
    n_ok = 0
    queues = {"nothing queued": [], "next_inner alone, same depth": [("N", 2)], "next_inner deeper, a deeper sibling, an outward item": [("N", 3), ("X", 3), ("Y", 1)],
              "three at the frame's depth, one outward": [("N", 2), ("X", 2), ("Y", 2), ("Z", 1)],
              "next_inner outward of the frame (the frame was reached through more unwrapping layers), then a sibling": [("N", 1), ("Y", 1)]}
    for qlabel, qspec in queues.items():
        for rlabel in ("None", "PRUNE ()", "[]", "one item", "two items", "(item, next_inner)", "(next_inner,)", "[item, next_inner] (a list)", "(item, an object equal to next_inner but not it)"):
            objs = {k: NS(tag=k, is_frame=(k == "N")) for k in ("N", "X", "Y", "Z", "A", "B")}
            E = [(objs[k], dep) for k, dep in qspec]
            N = E[0][0] if E else None
            A, B = objs["A"], objs["B"]
            twin_of_N = NS(**vars(N)) if N is not None else None          # compares equal to next_inner, is another object
            if rlabel.startswith("(item, an object equal") and N is None:
                continue
            R = {"None": None, "PRUNE ()": (), "[]": [], "one item": A, "two items": (A, B), "(item, next_inner)": (A, N), "(next_inner,)": (N,), "[item, next_inner] (a list)": [A, N],
                 "(item, an object equal to next_inner but not it)": (A, twin_of_N)}[rlabel]
            U: List[Any] = []
            env = {"to_elaborate": E, "to_unwrap": U, rvar: R, ninner: N, "depth": d, "frame": NS(tag="frame", is_frame=True, hide=False), "PRUNE": (),
                   "collections": NS(abc=NS(Sequence=SeqT)), "Sequence": SeqT, "Frame": FrameT, "save_errors": []}
            before = [(it, dep) for it, dep in E]
            m = Mini(env, {q: f for q, f in mod.defs.items() if isinstance(f, ast.FunctionDef) and "." not in q and f is not fn}, {"isinstance": isinst, "better_origin": lambda a_, b_: NS(tag="origin")})
            try:
                m.run(rest)
            except (Unsupported, Raised):
                return None
            except Exception:
                return None
            E2, U2 = m.env.get("to_elaborate"), m.env.get("to_unwrap")
            if not isinstance(E2, list) or not isinstance(U2, list):
                return None
            try:
                after = [(x[-2], x[-1]) for x in U2] + [(x[0], x[1]) for x in E2]
            except Exception:
                return None
            if R is None:
                want = before
            else:
                items = list(R) if isinstance(R, (list, tuple)) else [R]
                if items and items[-1] is N:
                    kept = before[1:] if before else []
                else:
                    kept = list(before)
                    while kept and kept[0][1] >= d:
                        kept.pop(0)
                want = [(it, d) for it in items] + kept
            same = len(after) == len(want) and all(a[0] is w[0] and a[1] == w[1] for a, w in zip(after, want))
            if not same:
                show = lambda l_: "[" + ", ".join(f"{getattr(i_, 'tag', i_)}@{dp}" for i_, dp in l_) + "]"
                return ("bad", f"with {qlabel} ({show(before)}; the frame is at depth {d}) and elaborate_frame returning {rlabel}, the queues hold {show(after)} afterwards; the documented rules give {show(want)}: "
                        "part of the stack is dropped, duplicated or reordered", f"queues after {rlabel} with {qlabel}")
            n_ok += 1
    return ("ok", n_ok)


def eng2(ctx: Ctx) -> None:
    """ENG-2 the elaborate_frame result is dispatched over exactly the four documented shapes"""
    from ..util import flip_compare
    mod = _engine_mod(ctx)
    fn = mod.fn("extract_iter")
    main = _main_loop(fn)
    body = main.body
    yi = [i for i, s in enumerate(body) if isinstance(s, ast.Expr) and isinstance(s.value, ast.Yield)]
    if len(yi) != 1:
        raise AnalysisError("ENG-2: `yield frame` is not a top-level statement of the main loop")
    rest = body[yi[0] + 1:]
    ecall = [c for c in calls_in(main, True) if ctx.P.resolve_call(mod, c).is_pkg("_customization", "elaborate_frame")]
    if len(ecall) != 1:
        raise AnalysisError("ENG-2: elaborate_frame call not found")
    est = _stmt(mod, ecall[0])
    rvar = norm(est.targets[0])
    ninner = norm(ecall[0].args[1]) if len(ecall[0].args) > 1 else None
    if ninner is None:
        raise AnalysisError("ENG-2: elaborate_frame call lost its next_inner argument")
    ev2 = _eng2_by_evaluation(ctx, mod, fn, rest, rvar, ninner) if rvar.isidentifier() and ninner.isidentifier() else None
    if ev2 is not None and ev2[0] == "ok":
        ctx.R.ok("ENG-2", f"_extract.extract_iter: the code after `yield frame` evaluated on {ev2[1]} (queue, hook result) cases", "None keeps; a result replaces depth >= the frame's; (..., next_inner) inserts and drops one queued copy; the rest is re-queued in order")
        return
    if ev2 is not None:
        ctx.R.fail("ENG-2", mod, est, ev2[1], construct=ev2[2])
        return
    # `if r is not None: <everything else>` as the last statement of the iteration is `if r is None: continue` + the rest
    keep_form = False
    while rest and isinstance(rest[-1], ast.If) and norm(rest[-1].test) == f"{rvar} is not None" and not rest[-1].orelse \
            and not any(isinstance(x, ast.If) and norm(x.test) == f"{rvar} is None" for x in rest) and est in [_stmt(mod, ecall[0])] \
            and all(not _touches_q(x) for x in rest[:-1]):
        keep_form = True
        rest = rest[:-1] + list(rest[-1].body)
    # (1) None -> continue
    none_if = [s for s in rest if isinstance(s, ast.If) and norm(s.test) == f"{rvar} is None"]
    if keep_form and not none_if:
        ctx.R.ok("ENG-2", f"{rvar} is None -> keep the rest (everything else is under `if {rvar} is not None`)")
        none_if = None
    def _touches_queues(st: ast.AST) -> bool:
        return any(isinstance(x, ast.Name) and x.id in ("to_unwrap", "to_elaborate") for x in ast.walk(st))
    if none_if is None:
        pass
    elif none_if and len(none_if[0].body) == 1 and isinstance(none_if[0].body[0], ast.Continue) \
            and not any(_touches_queues(s_) for s_ in rest[:rest.index(none_if[0])]):
        ctx.R.ok("ENG-2", f"{rvar} is None -> keep the rest")
    elif none_if and len(none_if[0].body) == 1 and isinstance(none_if[0].body[0], ast.Continue):
        ctx.R.undecided("ENG-2", "the queues are touched between the yield and the `replacement is None` test")
    elif none_if:
        ctx.R.fail("ENG-2", mod, none_if[0], "a None result must leave the remainder untouched (`continue`)", construct="None -> continue")
    else:
        ctx.R.undecided("ENG-2", "the `replacement is None` test is not the first statement after the yield")
    # (2) non-sequence -> singleton: items bound from an isinstance(..., Sequence) choice
    ivar = None
    okseq = None
    for s_ in rest:
        test = body_v = else_v = None
        if isinstance(s_, ast.If) and len(s_.body) == 1 and len(s_.orelse) == 1 and isinstance(s_.body[0], ast.Assign) and isinstance(s_.orelse[0], ast.Assign) \
                and norm(s_.body[0].targets[0]) == norm(s_.orelse[0].targets[0]):
            test, body_v, else_v, tgt = s_.test, s_.body[0].value, s_.orelse[0].value, norm(s_.body[0].targets[0])
        elif isinstance(s_, (ast.Assign, ast.AnnAssign)) and isinstance(s_.value, ast.IfExp):
            test, body_v, else_v, tgt = s_.value.test, s_.value.body, s_.value.orelse, norm(s_.targets[0] if isinstance(s_, ast.Assign) else s_.target)
        if test is not None and "isinstance" in norm(test) and "Sequence" in norm(test):
            from ..util import implies_sequence
            ivar = tgt
            neg = isinstance(test, ast.UnaryOp) and isinstance(test.op, ast.Not)
            core = test.operand if neg else test
            a, b = (else_v, body_v) if neg else (body_v, else_v)
            # fast-path disjuncts that themselves imply Sequence-ness (type(r) is tuple) do not change the test
            if isinstance(core, ast.BoolOp) and isinstance(core.op, ast.Or) and implies_sequence(core, rvar):
                core = [x for x in core.values if norm(x).startswith(f"isinstance({rvar},") and "Sequence" in norm(x)][0]
            okseq = norm(core).startswith(f"isinstance({rvar},") and norm(a) == rvar and norm(b) == f"({rvar},)"
            seq_node = s_
    if ivar is None:
        ctx.R.undecided("ENG-2", "cannot find where the elaborate result is normalised to a sequence")
        return
    if okseq:
        ctx.R.ok("ENG-2", "sequence kept, anything else wrapped in a 1-tuple")
    else:
        ctx.R.fail("ENG-2", mod, seq_node, "a non-sequence result must be treated as a one-item sequence, a sequence as itself", construct="items = replacement / (replacement,)")
    # (3) re-queue loop: pop from the right of to_elaborate, appendleft onto to_unwrap
    rq = [s_ for s_ in rest if isinstance(s_, ast.While) and nonempty_of(s_.test) == "to_elaborate"]
    if len(rq) == 1:
        pops = [c for c in ast.walk(rq[0]) if isinstance(c, ast.Call) and isinstance(c.func, ast.Attribute) and norm(c.func.value) == "to_elaborate" and c.func.attr in ("pop", "popleft")]
        pushes = [c for c in ast.walk(rq[0]) if isinstance(c, ast.Call) and isinstance(c.func, ast.Attribute) and norm(c.func.value) == "to_unwrap" and c.func.attr in ("append", "appendleft")]
        if len(pops) == 1 and len(pushes) == 1:
            if (pops[0].func.attr, pushes[0].func.attr) == ("pop", "appendleft"):
                ctx.R.ok("ENG-2", "pending items are moved back to the unwrap queue in order (pop right / appendleft)")
            else:
                ctx.R.fail("ENG-2", mod, rq[0], f"items behind the frame are moved back with {pops[0].func.attr}() / {pushes[0].func.attr}(): their order is reversed (or they land behind older items)",
                           construct="re-queue loop")
        else:
            ctx.R.undecided("ENG-2", "re-queue loop has an unrecognised body")
    else:
        ctx.R.undecided("ENG-2", "re-queue loop `while to_elaborate` not found")
    # (4) replace vs insert
    disp = [s_ for s_ in rest if isinstance(s_, ast.If) and ivar in norm(s_.test) and ninner in norm(s_.test)]
    if len(disp) != 1:
        # the dispatch may test a local computed before (insert_only = ...): find the `if` by what it guards and resolve the local
        import copy as _copy
        from ..emit import subst as _subst
        cands = [s_ for s_ in rest if isinstance(s_, ast.If) and any(isinstance(x, ast.Call) and norm(x.func) == "to_unwrap.popleft" for x in ast.walk(s_))
                 and any(isinstance(x, ast.While) for b_ in (s_.body, s_.orelse) for y in b_ for x in ast.walk(y))]
        if len(cands) == 1:
            env_ = {}
            for a_ in rest:
                if isinstance(a_, ast.Assign) and len(a_.targets) == 1 and isinstance(a_.targets[0], ast.Name) and a_.lineno <= cands[0].lineno and a_ is not cands[0]:
                    env_[a_.targets[0].id] = a_.value
            env_.pop(ivar, None)
            d0 = _copy.copy(cands[0])
            d0.test = _subst(cands[0].test, env_)
            eqs = [c_ for c_ in ast.walk(d0.test) if isinstance(c_, ast.Compare) and any(isinstance(o_, (ast.Eq, ast.NotEq)) for o_ in c_.ops) and ninner in norm(c_)]
            if eqs:
                ctx.R.fail("ENG-2", mod, cands[0], f"the insert form (result ends in {ninner}) is recognised by an equality comparison `{norm(eqs[0])[:60]}` instead of the identity of the last item: "
                           "a list and a tuple never compare equal, so a hook that returns a list ending in next_inner has the rest of the stack replaced instead of kept; "
                           "and == runs user __eq__ on stack items", construct="replace/insert decided by ==")
                return
            if ivar in norm(d0.test) and ninner in norm(d0.test):
                disp = [d0]
    if len(disp) != 1:
        ctx.R.undecided("ENG-2", "replace/insert dispatch not found")
        return
    d = disp[0]

    def is_prune_branch(stmts: List[ast.stmt]) -> bool:
        return any(isinstance(x, ast.While) for s_ in stmts for x in ast.walk(s_))
    if is_prune_branch(d.body) == is_prune_branch(d.orelse):
        # positive evidence of one specific wrong form: the whole queue filtered by depth instead of its leading run removed
        for br in (d.body, d.orelse):
            for s_ in br:
                for a_ in ast.walk(s_):
                    if isinstance(a_, ast.Assign) and norm(a_.targets[0]) == "to_unwrap":
                        comps = [c_ for c_ in ast.walk(a_.value) if isinstance(c_, (ast.GeneratorExp, ast.ListComp)) and norm(c_.generators[0].iter) == "to_unwrap" and c_.generators[0].ifs
                                 and "depth" in norm(c_.generators[0].ifs[0])]
                        if comps:
                            ctx.R.fail("ENG-2", mod, a_, f"the replace form filters the *whole* unwrap queue by depth (`{norm(a_)[:70]}`): only the leading run of entries at depth >= the frame's depth are its "
                                       "callees; deeper entries that sit behind an entry further out belong to a later, unrelated group and must stay (PRUNE removes nothing outward of the frame's callees)",
                                       construct="replace: whole-queue depth filter")
                            return
        ctx.R.undecided("ENG-2", "cannot tell the replace branch from the insert branch")
        return
    replace_in_body = is_prune_branch(d.body)
    rep, ins = (d.body, d.orelse) if replace_in_body else (d.orelse, d.body)
    atoms = [ivar, f"{ivar}[-1] is {ninner}"]
    spec = (lambda e: (not e[atoms[0]]) or (not e[atoms[1]])) if replace_in_body else (lambda e: not ((not e[atoms[0]]) or (not e[atoms[1]])))
    try:
        ok, cex = equivalent(d.test, spec, atoms)
    except AnalysisError as ex:
        ctx.R.undecided("ENG-2", str(ex))
        ok = None
    if ok:
        ctx.R.ok("ENG-2", f"replace iff (not {ivar}) or ({ivar}[-1] is not {ninner})", "truth table over 2 atoms")
    elif ok is False:
        ctx.R.fail("ENG-2", mod, d, f"the remainder must be replaced iff the result is empty or does not end in {ninner}, and extended otherwise; counterexample {cex}",
                   construct="replace/insert condition")
    # replace branch: prune by depth
    pr = [x for s_ in rep for x in ast.walk(s_) if isinstance(x, ast.While)]
    if len(pr) == 1:
        t = pr[0].test
        conj = list(t.values) if isinstance(t, ast.BoolOp) and isinstance(t.op, ast.And) else [t]
        cmpn = [c for c in conj if isinstance(c, ast.Compare)]
        pops = [c for c in ast.walk(pr[0]) if isinstance(c, ast.Call) and norm(c.func) == "to_unwrap.popleft"]
        if len(cmpn) == 1 and len(pops) == 1 and any(nonempty_of(c) == "to_unwrap" for c in conj):
            txt = norm(cmpn[0]) if norm(cmpn[0].left).startswith("to_unwrap") else flip_compare(cmpn[0])
            if txt in ("to_unwrap[0][2] >= depth", "to_unwrap[0].depth >= depth"):
                ctx.R.ok("ENG-2", "replace: drop queued items whose depth >= the frame's depth (its callees), nothing outward")
            else:
                ctx.R.fail("ENG-2", mod, pr[0], f"replace/prune must remove exactly the queued items at depth >= the elaborated frame's depth; the loop tests `{txt}`", construct="prune-by-depth loop")
        else:
            ctx.R.undecided("ENG-2", "prune-by-depth loop has an unrecognised shape")
    else:
        ctx.R.undecided("ENG-2", "prune-by-depth loop not found in the replace branch")
    # insert branch: drop exactly one copy of next_inner
    pops = [c for s_ in ins for c in ast.walk(s_) if isinstance(c, ast.Call) and norm(c.func) == "to_unwrap.popleft"]
    loops_in_ins = [x for s_ in ins for x in ast.walk(s_) if isinstance(x, (ast.While, ast.For))]
    if len(pops) == 1 and not loops_in_ins:
        # ... unconditionally (as long as the queue is not empty: next_inner is None for the innermost frame).  The stale copy is the
        # head of the queue whatever its depth: next_inner can be an *outward* sibling of the frame that inserts before it
        from .opcodes import path_guards_of as _pgo
        extra = []
        for g_, pol in _pgo(mod, pops[0], d):
            for c_ in (list(g_.values) if isinstance(g_, ast.BoolOp) and isinstance(g_.op, ast.And) and pol else [g_]):
                if nonempty_of(c_) == "to_unwrap" and pol:
                    continue
                if c_ is d.test or norm(c_) == norm(d.test):
                    continue
                extra.append((c_, pol))
        depthy = [c_ for c_, _ in extra if "depth" in norm(c_) or "[2]" in norm(c_)]
        if depthy:
            ctx.R.fail("ENG-2", mod, pops[0], f"the insert form drops the queued copy of {ninner} only when `{norm(depthy[0])[:60]}`: {ninner} is the head of the queue whatever its depth (the frame that inserts "
                       "before it may have been reached through more unwrapping layers than what follows it), so for an outward sibling the stale copy stays and that frame is reported twice",
                       construct="insert branch: popleft conditional on depth")
        elif extra:
            ctx.R.undecided("ENG-2", f"the insert form's popleft is under an extra condition `{norm(extra[0][0])[:60]}`")
        else:
            ctx.R.ok("ENG-2", "insert: exactly one queued copy of next_inner is dropped")
    else:
        ctx.R.fail("ENG-2", mod, d, f"the insert form must drop exactly one queued copy of {ninner} (it is in both lists); found {len(pops)} popleft call(s)",
                   construct="insert branch popleft")
    # push
    push = [s_ for s_ in rest if isinstance(s_, ast.For) and ivar in norm(s_.iter)]
    if len(push) == 1:
        calls = [c for c in ast.walk(push[0]) if isinstance(c, ast.Call) and isinstance(c.func, ast.Attribute) and norm(c.func.value) == "to_unwrap" and c.func.attr in ("append", "appendleft")]
        roles = _queue_roles(mod, fn, calls[0].args[0]) if len(calls) == 1 and calls[0].args else None
        if roles is not None:
            rev = norm(push[0].iter) == f"reversed({ivar})"
            left = calls[0].func.attr == "appendleft"
            dep = norm(roles["depth"])
            itv = norm(push[0].target)
            org = norm(roles["origin"]) if roles["origin"] is not None else "None"
            if org != f"better_origin({itv}, None)":
                ctx.R.fail("ENG-2", mod, calls[0], f"an item a hook redirected the trace to is queued with origin `{org}` instead of better_origin({itv}, None): a coroutine / generator reached through an "
                           "elaborate_frame redirect (customize(elaborate=...), greenback, trio from_thread) then yields frames whose origin is not that object", construct="redirect push origin")
            if rev and left and dep == "depth":
                ctx.R.ok("ENG-2", "result items are queued in order at the frame's depth")
            elif rev != left:
                ctx.R.fail("ENG-2", mod, push[0], "result items must be pushed in reverse with appendleft (or forward with append at the front): their order is reversed", construct="push loop")
            elif dep != "depth":
                ctx.R.fail("ENG-2", mod, push[0], f"result items must be queued at the elaborated frame's depth, not `{dep}`: a later prune by that frame misses or over-reaches them", construct="push loop")
            else:
                ctx.R.undecided("ENG-2", "push loop has an unrecognised shape")
        else:
            ctx.R.undecided("ENG-2", "push loop has an unrecognised body")
    else:
        ctx.R.undecided("ENG-2", "push loop over the result items not found")


def _queue_roles(mod: Mod, fn: ast.AST, arg: Optional[ast.AST]) -> Optional[Dict[str, Optional[ast.AST]]]:
    """the (origin, item, depth) of a record pushed onto the unwrap queue, whatever the record looks like: a 3-tuple whose
    positions are named by the `a, b, c = to_unwrap.popleft()` unpacking, or a call of a NamedTuple / dataclass of the module
    (fields by name, defaults filled in).  Roles come from the names: *origin*, *depth*, anything else is the item."""
    def role(name: str) -> str:
        return "origin" if "origin" in name else ("depth" if "depth" in name else "item")
    if arg is None:
        return None
    if isinstance(arg, ast.Tuple):
        if any(isinstance(e, ast.Starred) for e in arg.elts):
            return None
        names = None
        for a_ in ast.walk(fn):
            if isinstance(a_, ast.Assign) and isinstance(a_.targets[0], ast.Tuple) and isinstance(a_.value, ast.Call) and norm(a_.value.func) in ("to_unwrap.popleft", "to_unwrap.pop") \
                    and all(isinstance(e, ast.Name) for e in a_.targets[0].elts):
                names = [e.id for e in a_.targets[0].elts]
        if names is None or len(names) != len(arg.elts):
            return None
        out: Dict[str, Optional[ast.AST]] = {}
        for nm, e in zip(names, arg.elts):
            out[role(nm)] = e
        return out if set(out) == {"origin", "item", "depth"} else None
    if isinstance(arg, ast.Call) and isinstance(arg.func, ast.Name) and mod.has(arg.func.id) and isinstance(mod.fn(arg.func.id), ast.ClassDef):
        if any(isinstance(e, ast.Starred) for e in arg.args) or any(k.arg is None for k in arg.keywords):
            return None
        cls = mod.fn(arg.func.id)
        flds = [(s_.target.id, s_.value) for s_ in cls.body if isinstance(s_, ast.AnnAssign) and isinstance(s_.target, ast.Name)]
        bound: Dict[str, Optional[ast.AST]] = {}
        for (nm, dflt), e in zip(flds, arg.args):
            bound[nm] = e
        for k in arg.keywords:
            bound[k.arg] = k.value
        for nm, dflt in flds:
            bound.setdefault(nm, dflt)
        out = {}
        for nm, e in bound.items():
            out[role(nm)] = e
        return out if set(out) == {"origin", "item", "depth"} else None
    return None


def nonempty_of(t: ast.AST) -> Optional[str]:
    """`q` / `len(q) > 0` / `len(q) >= 1` / `len(q) != 0` -> 'q'"""
    if isinstance(t, ast.Name):
        return t.id
    if isinstance(t, ast.Compare) and len(t.ops) == 1 and isinstance(t.left, ast.Call) and norm(t.left.func) == "len" and isinstance(t.left.args[0], ast.Name) \
            and isinstance(t.comparators[0], ast.Constant):
        k, op = t.comparators[0].value, t.ops[0]
        if (isinstance(op, ast.Gt) and k == 0) or (isinstance(op, ast.GtE) and k == 1) or (isinstance(op, ast.NotEq) and k == 0):
            return t.left.args[0].id
    return None


def eng34(ctx: Ctx) -> None:
    """ENG-3 every item produced by unwrapping is queued one level deeper, with its origin chosen by better_origin;
    ENG-4 the unwrap loop drains the unwrap queue completely before a frame is elaborated (prune-by-depth relies on it)"""
    mod = _engine_mod(ctx)
    fn = mod.fn("extract_iter")
    main = _main_loop(fn)
    inner = [s_ for s_ in main.body if isinstance(s_, ast.While)]
    if not inner:
        raise AnalysisError("ENG-3: inner unwrap loop not found")
    loop = inner[0]
    pushes = [c for c in ast.walk(loop) if isinstance(c, ast.Call) and norm(c.func) in ("to_unwrap.appendleft", "to_unwrap.append", "to_unwrap.insert")]
    if not pushes:
        ctx.R.undecided("ENG-3", "no push onto the unwrap queue inside the unwrap loop")
    for c in pushes:
        a = c.args[0] if c.args else None
        if norm(c.func) == "to_unwrap.insert":
            a = c.args[1] if len(c.args) == 2 else None
            # results take the unwrapped item's place in order: an insertion index that comes from enumerate() over the
            # results must not be used under a filter on the item (skipped entries would still advance the index)
            idx = c.args[0] if c.args else None
            fors = [f_ for f_ in mod.ancestors(c) if isinstance(f_, ast.For) and isinstance(f_.iter, ast.Call) and norm(f_.iter.func) == "enumerate"
                    and isinstance(f_.target, ast.Tuple) and len(f_.target.elts) == 2]
            if isinstance(idx, ast.Name) and fors and norm(fors[0].target.elts[0]) == idx.id:
                itemv = norm(fors[0].target.elts[1])
                filt = [gx for gx, pol in guards_of(mod, c, fn) if any(isinstance(x, ast.Name) and x.id == itemv for x in ast.walk(gx)) and any(gx is y for y in ast.walk(fors[0]))]
                if filt:
                    ctx.R.fail("ENG-3", mod, c, f"unwrap results are inserted at the index enumerate() gives them while `{norm(filt[0])}` skips some: a skipped entry (None) still advances the index, so the "
                               "items after it land behind the next pending sibling instead of taking the unwrapped item's place in order", construct="insert index counts skipped entries")
                else:
                    ctx.R.ok("ENG-3", "unwrap results are inserted at consecutive indices from the front")
            elif isinstance(idx, ast.Constant) and idx.value == 0:
                pass  # same as appendleft
            else:
                ctx.R.undecided("ENG-3", f"insertion index `{norm(idx) if idx is not None else ''}` of unwrap results not understood")
        roles = _queue_roles(mod, fn, a)
        if roles is None:
            ctx.R.undecided("ENG-3", f"push `{norm(c)[:60]}` is not a record whose origin / item / depth can be told apart")
            continue
        o, it_, d = (norm(roles[k]) if roles[k] is not None else "None" for k in ("origin", "item", "depth"))
        if d != "depth + 1":
            ctx.R.fail("ENG-3", mod, c, f"an item produced by unwrapping is queued at `{d}` instead of one level below its parent (`depth + 1`): a prune or replacement issued by the frame it "
                       "unwraps to then also removes its following siblings (they no longer look 'outward')", construct=f"unwrap push depth {d}")
        elif not (o.startswith("better_origin(") and o.endswith(", origin)") and o[len("better_origin("):-len(", origin)")] == it_):
            ctx.R.fail("ENG-3", mod, c, f"the origin of an unwrapped item must be better_origin(<item>, origin); the code queues `{o}`: a coroutine / async generator reached through a wrapper keeps the outer object as origin",
                       construct=f"unwrap push origin {o}")
        else:
            ctx.R.ok("ENG-3", f"unwrap results are queued as ({o}, {it_}, depth + 1)")
    # ENG-4: what can make the loop stop while to_unwrap is still non-empty?
    t = loop.test
    conj = list(t.values) if isinstance(t, ast.BoolOp) and isinstance(t.op, ast.And) else [t]
    if not any(isinstance(x, ast.Name) and x.id == "to_unwrap" for x in conj):
        ctx.R.undecided("ENG-4", "unwrap loop condition does not test to_unwrap directly")
        return
    rest = [x for x in conj if not (isinstance(x, ast.Name) and x.id == "to_unwrap")]
    # elements of to_elaborate are (item, depth) tuples: every append is a tuple display
    apps = [c for c in ast.walk(fn) if isinstance(c, ast.Call) and norm(c.func) in ("to_elaborate.append", "to_elaborate.appendleft")]
    def _record_not_frame(a0: ast.AST) -> bool:
        # a tuple display, or an instance of a class the module defines that is not (a subclass of) Frame
        if isinstance(a0, ast.Tuple):
            return True
        if isinstance(a0, ast.Call) and isinstance(a0.func, ast.Name):
            cd = [c_ for c_ in mod.tree.body if isinstance(c_, ast.ClassDef) and c_.name == a0.func.id]
            return len(cd) == 1 and cd[0].name != "Frame" and not any("Frame" in norm(b_) for b_ in cd[0].bases)
        return False
    all_tuples = bool(apps) and all(c.args and _record_not_frame(c.args[0]) for c in apps)

    def always_true(e: ast.AST) -> Optional[bool]:
        if isinstance(e, ast.BoolOp) and isinstance(e.op, ast.Or):
            rs = [always_true(x) for x in e.values]
            return True if any(r is True for r in rs) else (None if any(r is None for r in rs) else False)
        if isinstance(e, ast.UnaryOp) and isinstance(e.op, ast.Not):
            r = always_true(e.operand)
            return None if r is None else (not r)
        if isinstance(e, ast.Call) and norm(e.func) == "isinstance" and all_tuples and norm(e.args[0]) == "to_elaborate[0]" and "Frame" in norm(e.args[1]):
            return False  # a tuple is never a Frame
        if isinstance(e, ast.Constant):
            return bool(e.value)
        return None
    if not rest:
        ctx.R.ok("ENG-4", "the unwrap loop runs until the unwrap queue is empty")
    else:
        verdicts = [always_true(x) for x in rest]
        if all(v is True for v in verdicts):
            ctx.R.ok("ENG-4", "the unwrap loop runs until the unwrap queue is empty", "its extra condition is vacuous: to_elaborate holds (item, depth) tuples, so isinstance(to_elaborate[0], Frame) is never true")
            ctx.R.note("ENG-4: the 'lazy unwrapping' condition of extract_iter is always true (it tests a tuple against Frame); the engine relies on the resulting eager drain")
        else:
            ctx.R.fail("ENG-4", mod, loop, "the unwrap loop can stop while items are still waiting to be unwrapped: a frame is then elaborated before its later siblings are expanded, "
                       "and a prune/replacement by that frame stops at the first unexpanded sibling (queued at a smaller depth) instead of removing the frame's callees",
                       construct=f"unwrap loop condition {norm(t)[:100]}")


def yf1(ctx: Ctx) -> None:
    """YF-1 yields_frames wraps in FrameIterator; PRUNE is (); the engine steps only FrameIterators"""
    cm = ctx.P.mod("_customization")
    ctx.R.saw(cm, "yields_frames")
    w = cm.fn("yields_frames.wrapper")
    rets = [s for s in w.body if isinstance(s, ast.Return)]
    if len(rets) == 1 and norm(rets[0].value) == "FrameIterator(fn(*args, **kwargs))":
        ctx.R.ok("YF-1", "yields_frames wrapper returns FrameIterator(fn(*args, **kwargs))")
    else:
        ctx.R.fail("YF-1", cm, w, "yields_frames must wrap the call result in FrameIterator (that is how the engine tells a frame series from a generator stack item)")
    p = cm.toplevel_assign("PRUNE")
    if p is not None and norm(p.value) == "()":
        ctx.R.ok("YF-1", "PRUNE = ()")
    else:
        ctx.R.fail("YF-1", cm, p, "PRUNE is documented to be equivalent to an empty tuple", qualname="_customization.PRUNE")
    nx = cm.fn("FrameIterator.__next__")
    nxb = nx.body
    while len(nxb) == 1 and isinstance(nxb[0], ast.Try) and not nxb[0].orelse and not nxb[0].finalbody \
            and all(len(h_.body) == 1 and isinstance(h_.body[0], ast.Raise) and h_.body[0].exc is None for h_ in nxb[0].handlers):
        nxb = nxb[0].body            # handlers that only re-raise handle nothing
    if any(isinstance(s, ast.Return) and norm(s.value) == "next(self.inner)" for s in nxb):
        ctx.R.ok("YF-1", "FrameIterator.__next__ delegates to the wrapped iterator")
    else:
        if any(isinstance(c_, ast.Call) and norm(c_) == "next(self.inner)" for c_ in ast.walk(nx)):
            ctx.R.undecided("YF-1", "FrameIterator.__next__ calls next(self.inner) in a form that is not a plain return")
        else:
            ctx.R.fail("YF-1", cm, nx, "FrameIterator.__next__ must return next(self.inner)")
    mod = _engine_mod(ctx)
    fn = mod.fn("extract_iter")
    for c in calls_in(fn, True):
        cal = ctx.P.resolve_call(mod, c)
        if cal.kind == "builtin" and cal.name == "next":
            from .opcodes import guards_of
            gs = [norm(g) for g, pol in guards_of(mod, c, fn) if pol]
            if any(g.startswith("isinstance(") and "FrameIterator" in g for g in gs):
                ctx.R.ok("YF-1", "next() is applied only under isinstance(..., FrameIterator)")
            else:
                ctx.R.fail("YF-1", mod, c, "an unwrap result is iterated without being a FrameIterator: a generator that is itself a stack item would be consumed (C06) ")
    # the unwrap default returns None (irreducible)
    d = cm.fn("unwrap_stackitem")
    if any(isinstance(s, ast.Return) and norm(s.value) == "None" for s in d.body):
        ctx.R.ok("YF-1", "default unwrap_stackitem returns None (irreducible)")
    else:
        ctx.R.fail("YF-1", cm, d, "the default unwrap_stackitem must return None")


# ===================================================================== C11
def ctx_rules(ctx: Ctx) -> None:
    """CTX-1..4 on the loop of fill_context"""
    mod = _engine_mod(ctx)
    fn = mod.fn("fill_context")
    ctx.R.saw(mod, "fill_context")
    loops = [s for s in fn.body if isinstance(s, ast.For)]
    if len(loops) != 1:
        wl = [s for s in fn.body if isinstance(s, ast.While) and any(isinstance(c, ast.Call) and norm(c.func) in ("unwrap_context", "elaborate_context") for c in ast.walk(s))]
        if len(wl) == 1:
            # a hand-rolled guard: a counter compared with a literal.  It bounds the loop only if nothing resets it.
            cnts = {norm(c.left) for c in ast.walk(wl[0]) if isinstance(c, ast.Compare) and isinstance(c.left, ast.Name) and isinstance(c.comparators[0], ast.Constant)
                    and isinstance(c.ops[0], (ast.Gt, ast.GtE))}
            for cv_ in cnts:
                resets = [a for a in ast.walk(wl[0]) if isinstance(a, ast.Assign) and norm(a.targets[0]) == cv_]
                if resets:
                    ctx.R.fail("CTX-3", mod, resets[0], f"fill_context's step counter `{cv_}` is reset inside the unwrap loop: a cycle of managers that passes through the resetting branch is never "
                               "detected (more than 100 steps must yield an error, not a hang)", construct=f"{cv_} reset inside the unwrap loop")
        raise AnalysisError("CTX: the bounded loop of fill_context vanished")
    loop = loops[0]
    cvar = fn.args.args[0].arg
    g = ctx.cfg(fn)
    calls = calls_in(loop, True)
    el = [c for c in calls if ctx.P.resolve_call(mod, c).is_pkg("_customization", "elaborate_context") and in_body(loop.body, c, mod)]
    un = [c for c in calls if ctx.P.resolve_call(mod, c).is_pkg("_customization", "unwrap_context") and in_body(loop.body, c, mod)]
    if len(el) != 1 or len(un) != 1:
        raise AnalysisError(f"CTX-1: expected one elaborate_context and one unwrap_context call in the loop body, found {len(el)}/{len(un)}")
    # CTX-1
    want_args = [f"{cvar}.obj", cvar]
    for c, nm in ((el[0], "elaborate_context"), (un[0], "unwrap_context")):
        if [norm(a) for a in c.args] != want_args:
            ctx.R.fail("CTX-1", mod, c, f"{nm} must be called on the current manager and its context: ({', '.join(want_args)})")
        else:
            ctx.R.ok("CTX-1", norm(c))
    ne, nu = g.node_of(_stmt(mod, el[0])), g.node_of(_stmt(mod, un[0]))
    if g.all_paths_pass(g.node_of(loop), {nu.idx}, {ne.idx}):
        ctx.R.ok("CTX-1", "elaborate_context precedes unwrap_context in every iteration")
    else:
        ctx.R.fail("CTX-1", mod, un[0], "unwrap_context can run before elaborate_context in an iteration: the original manager would not be elaborated first")
    # CTX-2 reset on rebinding
    rvar = norm(_stmt(mod, un[0]).targets[0])
    reb = [s for s in walk_scope(loop) if isinstance(s, ast.Assign) and norm(s.targets[0]) == f"{cvar}.obj"]
    if len(reb) != 1 or norm(reb[0].value) != rvar:
        ctx.R.fail("CTX-2", mod, reb[0] if reb else loop, f"the manager returned by unwrap_context must replace {cvar}.obj", construct="context.obj = inner_mgr")
    else:
        nr = g.node_of(reb[0])
        header = g.node_of(loop)
        for field, val in (("inner_stack", "None"), ("children", "()")):
            st = [s for s in walk_scope(loop) if isinstance(s, ast.Assign) and norm(s.targets[0]) == f"{cvar}.{field}"]
            ok = False
            for s in st:
                if norm(s.value) == val and g.all_paths_pass(nr, {header.idx, g.exit.idx}, {g.node_of(s).idx}):
                    ok = True
            if ok:
                ctx.R.ok("CTX-2", f"{cvar}.{field} = {val} on every path from the rebinding to the next elaborate")
            else:
                ctx.R.fail("CTX-2", mod, reb[0], f"after the manager is replaced, {cvar}.{field} must be reset to {val} before re-elaboration: "
                           "otherwise the outer manager's " + field + " leaks onto the inner one", construct=f"{cvar}.{field} = {val}")
    # CTX-3 exits
    def leaves(st: ast.stmt) -> bool:
        # `break`, or `return` (the loop is the last thing the function does with the context)
        return isinstance(st, ast.Break) or (isinstance(st, ast.Return) and st.value is None)
    none_if = [s for s in loop.body if isinstance(s, ast.If) and norm(s.test) == f"{rvar} is None"]
    if len(none_if) == 1 and leaves(none_if[0].body[-1]):
        ctx.R.ok("CTX-3", "None result leaves the loop")
    elif len(none_if) == 1:
        ctx.R.fail("CTX-3", mod, none_if[0], "a None result of unwrap_context must stop the loop", construct="None -> break")
    else:
        tests_on_r = [s for s in ast.walk(loop) if isinstance(s, ast.If) and rvar in norm(s.test)]
        falsy = [s for s in tests_on_r if norm(s.test) in (f"not {rvar}", rvar)]
        if falsy:
            ctx.R.fail("CTX-3", mod, falsy[0], f"the result of unwrap_context is tested for truthiness (`{norm(falsy[0].test)}`): a falsy manager (e.g. one with __len__ == 0) is treated like None / PRUNE "
                       "instead of replacing the outer manager", construct="None -> break")
        else:
            ctx.R.undecided("CTX-3", "no `inner_mgr is None` test found in the loop")
    pr_if = [s for s in loop.body if isinstance(s, ast.If) and norm(s.test) in (f"{rvar} == PRUNE", f"{rvar} == ()", f"{rvar} is PRUNE", f"PRUNE == {rvar}")]
    if len(pr_if) == 1 and " is " in norm(pr_if[0].test):
        # identity with PRUNE recognises a hook's literal `()` only while PRUNE *is* the empty-tuple literal
        cm_ = ctx.P.mod("_customization")
        pd = cm_.toplevel_assign("PRUNE")
        if pd is None or not (isinstance(pd.value, ast.Tuple) and not pd.value.elts):
            ctx.R.fail("CTX-3", mod, pr_if[0], f"`{norm(pr_if[0].test)}` compares by identity, and PRUNE is defined as `{norm(pd.value) if pd is not None else '?'}`: a hook that returns the documented equivalent, "
                       "a literal empty tuple, is no longer recognised -- `()` becomes context.obj and the context is not hidden", construct="PRUNE recognised by identity")
    if len(pr_if) == 1:
        b = [norm(x) for x in pr_if[0].body]
        if f"{cvar}.hide = True" in b and leaves(pr_if[0].body[-1]) and b.index(f"{cvar}.hide = True") < len(b) - 1:
            ctx.R.ok("CTX-3", "PRUNE marks the context hidden and leaves the loop")
        else:
            ctx.R.fail("CTX-3", mod, pr_if[0], "PRUNE must set context.hide = True and then stop: without the break `()` becomes context.obj")
        # PRUNE test precedes the rebinding
        if reb and pr_if[0].lineno > reb[0].lineno:
            ctx.R.fail("CTX-3", mod, pr_if[0], "PRUNE must be tested before the result is installed as the new manager")
    else:
        hides = [s for s in ast.walk(loop) if isinstance(s, ast.Assign) and norm(s) == f"{cvar}.hide = True"]
        if hides:
            ctx.R.undecided("CTX-3", "PRUNE handling present but its test is not recognised")
        else:
            ctx.R.fail("CTX-3", mod, loop, "no PRUNE test on the unwrap_context result: PRUNE never hides the context", construct="PRUNE -> hide, break")
    # bounded by literal, else raises
    from ..util import resolve_const
    it = loop.iter
    okb, bound = (False, None)
    if isinstance(it, ast.Call) and norm(it.func) == "range" and len(it.args) == 1:
        okb, bound = resolve_const(mod, loop, it.args[0])
        if not okb:
            od = option_default(mod, fn, it.args[0])
            okb, bound = (od is not None), od
    if okb and bound == 100:
        ctx.R.ok("CTX-3", "loop bounded by range(100)")
    elif okb:
        ctx.R.fail("CTX-3", mod, loop, f"the unwrap loop must be bounded by the documented 100 steps, it is bounded by {bound}", construct=norm(it))
    else:
        ctx.R.undecided("CTX-3", f"cannot resolve the bound of `{norm(it)}`")
    exits_by_return = all(isinstance(x, ast.Return) for x in ast.walk(loop) if isinstance(x, (ast.Break, ast.Return))) and any(isinstance(x, ast.Return) for x in ast.walk(loop))
    after_loop = fn.body[fn.body.index(loop) + 1:]
    if loop.orelse and isinstance(loop.orelse[-1], ast.Raise) and "RuntimeError" in norm(loop.orelse[-1]):
        ctx.R.ok("CTX-3", "exhausting the bound raises RuntimeError (reported through Stack.error by CONT-1)")
    elif exits_by_return and after_loop and isinstance(after_loop[-1], ast.Raise):
        ctx.R.ok("CTX-3", "exhausting the bound raises RuntimeError (every normal exit of the loop returns; the code after it raises)")
    else:
        ctx.R.fail("CTX-3", mod, loop, "exhausting the bound must raise (an error, not a silent acceptance of a cycle)", construct="for-else raise")
    # CTX-4 self-push outside an extraction
    first = fn.body[0] if not (isinstance(fn.body[0], ast.Expr) and isinstance(fn.body[0].value, ast.Constant)) else fn.body[1]
    ok4 = isinstance(first, ast.If) and norm(first.test) in ("current_options.with_contexts is None", "current_options.recurse_child_tasks is None")
    if ok4:
        w = [s for s in first.body if isinstance(s, ast.With)]
        r = [s for s in first.body if isinstance(s, ast.Return)]
        ok4 = len(w) == 1 and len(r) == 1 and first.body.index(r[0]) > first.body.index(w[0])
        if ok4:
            call = w[0].items[0].context_expr
            # `P()` with module-level `P = functools.partial(current_options.push, **kw)` is current_options.push(**kw)
            if isinstance(call, ast.Call) and isinstance(call.func, ast.Name) and not call.args:
                pa = mod.toplevel_assign(call.func.id)
                pv = getattr(pa, "value", None)
                if isinstance(pv, ast.Call) and norm(pv.func) in ("functools.partial", "partial") and len(pv.args) == 1:
                    call = ast.Call(func=pv.args[0], args=[], keywords=list(pv.keywords) + list(call.keywords))
            kws = {k.arg: norm(k.value) for k in call.keywords} if isinstance(call, ast.Call) else {}
            # an option handed on from an optional parameter of fill_context itself: the default path passes that parameter's default
            own_defaults = {a_.arg: norm(d_) for a_, d_ in list(zip(reversed(fn.args.args), reversed(fn.args.defaults))) + list(zip(fn.args.kwonlyargs, fn.args.kw_defaults)) if isinstance(d_, ast.Constant)}
            kws = {k_: (own_defaults[v_] if v_ in own_defaults and not any(isinstance(w_, ast.Name) and w_.id == v_ and isinstance(w_.ctx, ast.Store) for w_ in ast.walk(fn)) else v_) for k_, v_ in kws.items()}
            ex = mod.fn("extract")
            defaults = {a.arg: norm(d) for a, d in zip(ex.args.kwonlyargs, ex.args.kw_defaults)}
            pushf = mod.fn("ExtractOptions.push")
            push_defaults = {a.arg: norm(d) for a, d in zip(pushf.args.kwonlyargs, pushf.args.kw_defaults) if d is not None}
            same = all(kws.get(k_, push_defaults.get(k_)) == v_ for k_, v_ in defaults.items() if k_ in ("with_contexts", "recurse_child_tasks") or k_ in kws or k_ in push_defaults) \
                and {"with_contexts", "recurse_child_tasks"} <= set(kws)
            ok4 = norm(call.func) == "current_options.push" and same and len(w[0].body) == 1 and norm(w[0].body[0]) == f"fill_context({cvar})"
    if ok4:
        ctx.R.ok("CTX-4", "outside an extraction fill_context re-enters itself under push(<defaults of extract>) and returns")
    else:
        ctx.R.fail("CTX-4", mod, first, "outside any extract() fill_context must run under current_options.push with the documented defaults of extract() "
                   "and then return (same result inside and outside an extraction)", construct="fill_context self-push")


def ctx5(ctx: Ctx) -> None:
    """CTX-5 both lookup paths hand the outermost frame to unwrap_context_generator after a registry test"""
    mod = ctx.P.mod("_glue")
    q = "glue_contextlib.unwrap_generatorbased_contextmanager"
    fn = mod.fn(q)
    ctx.R.saw(mod, q)
    calls = [c for c in calls_in(fn, True) if ctx.P.resolve_call(mod, c).is_pkg("_customization", "unwrap_context_generator")]
    if not calls:
        raise AnalysisError("CTX-5: unwrap_generatorbased_contextmanager no longer calls unwrap_context_generator")
    cvar = fn.args.args[1].arg
    mvar = fn.args.args[0].arg
    # extraction with overridden options on the exiting path (the hook would see a different Frame than on the other path)
    for c in ast.walk(fn):
        if isinstance(c, ast.Call) and ctx.P.resolve_call(mod, c).is_pkg("_extract", "extract_outermost") and (len(c.args) > 1 or c.keywords):
            ctx.R.fail("CTX-5", mod, c, "on the exiting path the frame handed to unwrap_context_generator is extracted with overridden options: "
                       "the hook sees a different Frame (e.g. no contexts) than on the non-exiting path, where it gets inner_stack.frames[0]", construct=f"exiting path: {norm(c)}")
    # what the hook returns, for every combination of: code registered / inner stack present / it has frames / extraction raises
    import copy
    from ..stepper import Stepper, enumerate_table
    from ..emit import Unsupported
    body = copy.deepcopy([x for x in fn.body if not (isinstance(x, ast.Expr) and isinstance(x.value, ast.Constant))])

    class Canon(ast.NodeTransformer):
        """`mgr_code in unwrap_context_generator.registry` -> REGISTERED whatever the code variable is called"""
        def visit_Compare(self, n: ast.Compare):
            self.generic_visit(n)
            if len(n.ops) == 1 and isinstance(n.ops[0], (ast.In, ast.NotIn)) and norm(n.comparators[0]) == "unwrap_context_generator.registry":
                name = ast.copy_location(ast.Name(id="REGISTERED", ctx=ast.Load()), n)
                return name if isinstance(n.ops[0], ast.In) else ast.copy_location(ast.UnaryOp(op=ast.Not(), operand=name), n)
            return n


    class NeverNone(ast.NodeTransformer):
        """a Frame out of extract_outermost(...) / out of a non-empty frames list is never None"""
        def visit_Compare(self, n: ast.Compare):
            self.generic_visit(n)
            if len(n.ops) == 1 and isinstance(n.ops[0], (ast.Is, ast.IsNot)) and isinstance(n.comparators[0], ast.Constant) and n.comparators[0].value is None:
                t = norm(n.left)
                if "extract_outermost(" in t or t.endswith(".frames[0]"):
                    return ast.copy_location(ast.Constant(value=isinstance(n.ops[0], ast.IsNot)), n)
            return n

    body = [Canon().visit(x) for x in body]
    R_, N_, F_ = "REGISTERED", f"{cvar}.inner_stack is None", f"{cvar}.inner_stack.frames"
    known = [R_, N_, F_]

    def run(assign):
        st = Stepper(assign, simplify=lambda e: NeverNone().visit(e))
        k, v = st.run(body, {})
        if k == "return":
            return norm(v) if v is not None else "None"
        return "None" if k == "fall" else k

    try:
        atoms, rows = enumerate_table(run, known)
    except Unsupported as ex:
        ctx.R.undecided("CTX-5", f"unwrap_generatorbased_contextmanager is outside the step interpreter: {ex}")
        rows = []
        atoms = []
    raise_atoms = [a for a in atoms if a.startswith("raises:") and "extract_outermost" in a]
    code_atoms = [a for a in atoms if a.startswith("hasattr(") or "_code" in a]
    bad = None
    some = None
    groups = {}
    for assign, out in rows:
        if not all(assign.get(a, True) for a in code_atoms if a.startswith("hasattr(")) and not any(assign.get(a) for a in code_atoms if a.startswith("hasattr(")):
            continue  # neither gi_code nor ag_code: not a generator-based manager at all
        if assign.get(f"{mvar}_code is None") or any(assign[a] for a in atoms if a.endswith("is None") and "code" in a):
            continue
        if not assign[R_]:
            want = {"None"}
        elif not assign[N_]:
            want = {f"unwrap_context_generator({cvar}.inner_stack.frames[0], {cvar})"} if assign[F_] else {"None"}
        else:
            if raise_atoms and any(assign[a] for a in raise_atoms):
                want = {"None"}
            else:
                want = {f"unwrap_context_generator(_extract.extract_outermost({mvar}.gen), {cvar})", f"unwrap_context_generator(extract_outermost({mvar}.gen), {cvar})"}
        key = (assign[R_], assign[N_], assign[F_], tuple(assign[a] for a in raise_atoms))
        groups.setdefault(key, []).append((assign, out, want, out in want))
    for key, lst in groups.items():
        wrong = [r for r in lst if not r[3]]
        if wrong and len(wrong) == len(lst):
            bad = bad or wrong[0]
        elif wrong:
            some = some or wrong[0]
    extra = [a for a in atoms if a not in known and a not in raise_atoms and a not in code_atoms]
    if rows and bad is None and some is None:
        ctx.R.ok("CTX-5", "unwrap_context_generator gets inner_stack.frames[0] when the inner stack exists (None if it has no frames), the outermost frame of a fresh extraction of mgr.gen when it does not, "
                 "and only for registered generator code", f"{len(rows)} combinations of {atoms}")
    elif bad is not None or (some is not None and not any(k_ in e for e in extra for k_ in known)):
        assign, out, want, _ = bad or some
        shown = {k_: v_ for k_, v_ in assign.items() if k_ in known or k_ in raise_atoms or k_ in extra}
        ctx.R.fail("CTX-5", mod, fn, f"unwrap_generatorbased_contextmanager: with {shown} it returns `{out}` where `{sorted(want)[0]}` is required: a generator-based manager whose generator code has an "
                   "unwrap_context_generator registration must be replaced by what that hook returns for the generator's outermost frame, whether or not an inner stack was attached before",
                   construct="generator-manager unwrapping table")
    elif some is not None:
        ctx.R.undecided("CTX-5", f"differs from the reference only for some values of {extra}")
    for c in calls:
        if len(c.args) < 2 or norm(c.args[1]) != cvar:
            ctx.R.fail("CTX-5", mod, c, "second argument must be the context")
    # registration sibling: GCMBase gets both hooks
    g = mod.fn("glue_contextlib")
    regs = {}
    for d in ast.walk(g):
        if isinstance(d, ast.FunctionDef):
            for dec in d.decorator_list:
                if isinstance(dec, ast.Call) and norm(dec.func) in ("elaborate_context.register", "unwrap_context.register"):
                    regs.setdefault(norm(dec.args[0]), set()).add(norm(dec.func).split(".")[0])
    if regs.get("GCMBase") == {"elaborate_context", "unwrap_context"}:
        ctx.R.ok("CTX-5", "contextlib's generator-manager base has both an elaborate_context and an unwrap_context registration")
    else:
        ctx.R.fail("CTX-5", mod, g, f"_GeneratorContextManagerBase must be registered for both hooks; found {regs.get('GCMBase')}", construct="GCMBase registrations")


# ===================================================================== C13
def opt1(ctx: Ctx) -> None:
    mod = _engine_mod(ctx)
    cls = mod.fn("ExtractOptions")
    ctx.R.saw(mod, "ExtractOptions.push")
    # OPT-1
    bases = [norm(b) for b in cls.bases]
    if "threading.local" in bases or ("local" in bases and mod.imports.get("local", ("", ""))[0] == "threading"):
        ctx.R.ok("OPT-1", "ExtractOptions derives from threading.local")
    else:
        ctx.R.fail("OPT-1", mod, cls, f"ExtractOptions must be thread-local (bases: {bases}): with a plain object, concurrent extractions on other threads see each other's options",
                   construct="class ExtractOptions(threading.local)")
    inst = []
    for m in ctx.P.analysed_mods():
        for c in ast.walk(m.tree):
            if isinstance(c, ast.Call) and isinstance(c.func, ast.Name) and c.func.id == "ExtractOptions" \
                    and (m.name == "_extract" or m.imports.get("ExtractOptions", ("",))[0].endswith("_extract")):
                inst.append((m, c))
    if len(inst) == 1 and isinstance(inst[0][0].parent_of(inst[0][1]), ast.Assign) and norm(inst[0][0].parent_of(inst[0][1]).targets[0]) == "current_options" \
            and inst[0][0].parent_of(inst[0][1]) in mod.tree.body:
        ctx.R.ok("OPT-1", "current_options is the only instance, created at module level")
    else:
        ctx.R.fail("OPT-1", mod, cls, f"ExtractOptions must have exactly one module-level instance (current_options); found {len(inst)} constructions", construct="current_options = ExtractOptions()")
    # OPT-1b: a class-level attribute of a threading.local subclass is shared by ALL threads; only
    # immutable defaults are per-thread-safe (a list/dict/set/object there is one object for everybody)
    n_attr = 0
    for s in cls.body:
        if isinstance(s, (ast.AnnAssign, ast.Assign)) and getattr(s, "value", None) is not None:
            n_attr += 1
            v = s.value
            tgt = norm(s.target if isinstance(s, ast.AnnAssign) else s.targets[0])
            while isinstance(v, ast.Call) and norm(v.func) in ("cast", "typing.cast") and len(v.args) == 2:
                v = v.args[1]
            if isinstance(v, ast.Constant):
                tested_none = any(isinstance(c, ast.Compare) and len(c.ops) == 1 and isinstance(c.ops[0], (ast.Is, ast.IsNot)) and isinstance(c.comparators[0], ast.Constant) and c.comparators[0].value is None
                                  and isinstance(c.left, ast.Attribute) and c.left.attr == tgt for c in ast.walk(mod.tree))
                if v.value is None:
                    ctx.R.ok("OPT-1", f"class-level default {tgt} = None (unset, immutable)")
                elif not tested_none and isinstance(v.value, (int, str, bool, float)):
                    ctx.R.ok("OPT-1", f"class-level default {tgt} = {v.value!r} (immutable; nothing tests this option against None to tell 'outside any extraction')")
                else:
                    ctx.R.fail("OPT-1", mod, s, f"the class-level default of `{tgt}` must be None ('outside any extraction'), found {v.value!r}: extract_child could not tell that it is outside an extraction")
            else:
                ctx.R.fail("OPT-1", mod, s, f"`{tgt}` is a class-level attribute of a threading.local subclass bound to a mutable object ({norm(v)[:40]}): "
                           "class attributes are shared by every thread, so option state kept in it leaks between concurrent extractions on different threads",
                           construct=f"class attribute {tgt} = {norm(v)[:60]} on threading.local subclass")
    if n_attr == 0:
        raise AnalysisError("OPT-1: ExtractOptions has no class-level defaults any more")


def _opt2_by_evaluation(ctx: Ctx, mod, cls, push, t: ast.Try, pre: List[ast.stmt], fields: List[str]) -> Optional[bool]:
    """evaluate push with every option field holding an opaque old value and every parameter an opaque argument: at the yield
    each option field must hold its argument, after the finally (reached normally and by exception) every field its old value.
    Returns None when the body is outside the evaluator's fragment (conditions on opaque values, calls): the shape rule decides"""
    import copy as _copy
    from types import SimpleNamespace
    from ..minieval import Mini, Opaque, Raised, Unsupported
    ystmts = [s_ for s_ in t.body if isinstance(s_, ast.Expr) and isinstance(s_.value, ast.Yield)]
    if len(ystmts) != 1 or t.handlers or t.orelse:
        return None
    yi = t.body.index(ystmts[0])
    written = {w.attr for w in ast.walk(push) if isinstance(w, ast.Attribute) and isinstance(w.ctx, ast.Store) and norm(w.value) == "self"}
    allf = sorted(set(fields) | written)
    me = SimpleNamespace(**{f_: Opaque(f"old {f_}") for f_ in allf})
    params = [a.arg for a in push.args.kwonlyargs + push.args.args if a.arg != "self"]
    env = {"self": me}
    env.update({p_: Opaque(f"arg {p_}") for p_ in params})
    helpers = {h.name: h for h in cls.body if isinstance(h, ast.FunctionDef) and h is not push}
    m = Mini(env, helpers)
    try:
        for s_ in pre + t.body[:yi]:
            m.stmt(s_)
        at_yield = {f_: getattr(me, f_) for f_ in allf}
        snap = _copy.deepcopy(m.env)
        # normal path
        for s_ in t.body[yi + 1:] + t.finalbody:
            m.stmt(s_)
        after_ok = {f_: getattr(m.env["self"], f_) for f_ in allf}
        # exceptional path: the rest of the try body is skipped
        m2 = Mini(snap, helpers)
        for s_ in t.finalbody:
            m2.stmt(s_)
        after_exc = {f_: getattr(m2.env["self"], f_) for f_ in allf}
    except (Unsupported, Raised):
        return None
    except Exception:
        return None
    bad = False
    for o in ("with_contexts", "recurse_child_tasks"):
        if o in params and at_yield.get(o) != Opaque(f"arg {o}"):
            bad = True
            ctx.R.fail("OPT-2", mod, push, f"during the pushed scope ExtractOptions.{o} holds {at_yield.get(o)} instead of the argument `{o}` of push", construct="self.<opt> = <opt>")
    for path, res in (("normally", after_ok), ("by exception", after_exc)):
        for f_ in allf:
            if res[f_] != Opaque(f"old {f_}"):
                bad = True
                ctx.R.fail("OPT-2", mod, t, f"ExtractOptions.{f_} is not restored from the saved value in the finally: when the scope ends {path} it holds {res[f_]} instead of its previous value; every change "
                           "push makes to the thread-local options must be scoped to that push (save, try: yield, finally: restore), otherwise a nested extract leaves its value in force",
                           construct=f"options field {f_} not scoped per push")
    if not bad:
        ctx.R.ok("OPT-2", f"push evaluated over opaque values: at the yield {at_yield}; every field of {allf} back to its previous value after the finally, on the normal and the exceptional path")
    return not bad


def opt2(ctx: Ctx) -> None:
    """OPT-2 everything ExtractOptions.push changes on the (thread-local) options object is saved before and restored, from the
    saved value, in a finally that encloses the yield -- unconditionally and per push.  A field that is set or reset only for
    the outermost push (a memo, a counter) is state shared between an extraction and the extractions nested inside it."""
    mod = _engine_mod(ctx)
    cls = mod.fn("ExtractOptions")
    fields = [norm(s.target) for s in cls.body if isinstance(s, ast.AnnAssign)]
    if not {"with_contexts", "recurse_child_tasks"} <= set(fields):
        raise AnalysisError(f"OPT-2: option fields changed: {fields}")
    push = mod.fn("ExtractOptions.push")
    ctx.R.saw(mod, "ExtractOptions.push")
    decs = [norm(d) for d in push.decorator_list]
    if "contextmanager" not in decs and "contextlib.contextmanager" not in decs:
        ctx.R.fail("OPT-2", mod, push, "push must be a @contextmanager")
    tries = [s for s in push.body if isinstance(s, ast.Try) and s.finalbody and any(isinstance(y, ast.Yield) for y in ast.walk(ast.Module(body=s.body, type_ignores=[])))]
    yields = [y for y in ast.walk(push) if isinstance(y, ast.Yield)]
    withs = [w_ for w_ in walk_scope(push) if isinstance(w_, (ast.With, ast.AsyncWith)) and any(isinstance(y, ast.Yield) for y in ast.walk(w_))]
    if (len(tries) != 1 or len(yields) != 1) and len(yields) == 1 and (withs or any(isinstance(t_, ast.Try) and t_.finalbody for t_ in walk_scope(push))):
        # the yield sits in a `with` (an ExitStack with a restoring callback, a helper manager) or in a differently shaped try: the
        # restore may well be there, in a form this rule does not read
        ctx.R.undecided("OPT-2", "push scopes its yield with a `with` statement / a try of another shape; whether the saved values are restored on every exit is not decided")
        return
    if len(tries) != 1 or len(yields) != 1:
        ctx.R.fail("OPT-2", mod, push, "push must save the option fields before overwriting them and restore them in a `finally` enclosing its single yield: "
                   "otherwise a nested extract that ends by exception leaves the inner options in force", construct="save / try: yield / finally: restore")
        return
    t = tries[0]
    pre = push.body[:push.body.index(t)]
    # ---- first try to *evaluate* push over symbolic field values (engine MINI): exact whatever the statement shapes are
    verdict = _opt2_by_evaluation(ctx, mod, cls, push, t, pre, fields)
    if verdict is not None:
        return
    # saves: local name (and tuple position) -> field
    saved: Dict[str, str] = {}
    for s_ in pre:
        if isinstance(s_, ast.Assign) and len(s_.targets) == 1 and isinstance(s_.targets[0], ast.Name):
            v = s_.value
            if isinstance(v, ast.Tuple) and all(isinstance(e, ast.Attribute) and norm(e.value) == "self" for e in v.elts):
                for i, e in enumerate(v.elts):
                    saved[f"{s_.targets[0].id}[{i}]"] = e.attr
                saved[s_.targets[0].id] = "(" + ",".join(e.attr for e in v.elts) + ")"
            elif isinstance(v, ast.Attribute) and norm(v.value) == "self":
                saved[s_.targets[0].id] = v.attr
    save_pos: Dict[str, int] = {}
    for i_, s_ in enumerate(pre):
        if isinstance(s_, ast.Assign) and len(s_.targets) == 1 and isinstance(s_.targets[0], ast.Name):
            for e in ([s_.value] if isinstance(s_.value, ast.Attribute) else list(getattr(s_.value, "elts", []))):
                if isinstance(e, ast.Attribute) and norm(e.value) == "self":
                    save_pos.setdefault(e.attr, i_)
    # restores at the top level of the finally
    restored: Dict[str, bool] = {}
    for s_ in t.finalbody:
        if isinstance(s_, ast.Assign) and len(s_.targets) == 1:
            tg, v = s_.targets[0], s_.value
            if isinstance(tg, ast.Tuple) and all(isinstance(e, ast.Attribute) and norm(e.value) == "self" for e in tg.elts):
                names = "(" + ",".join(e.attr for e in tg.elts) + ")"
                if isinstance(v, ast.Name) and saved.get(v.id) == names:
                    for e in tg.elts:
                        restored[e.attr] = True
                elif isinstance(v, ast.Tuple) and len(v.elts) == len(tg.elts) and all(saved.get(norm(x)) == e.attr for x, e in zip(v.elts, tg.elts)):
                    for e in tg.elts:
                        restored[e.attr] = True
                else:
                    for e in tg.elts:
                        restored.setdefault(e.attr, False)
            elif isinstance(tg, ast.Attribute) and norm(tg.value) == "self":
                restored[tg.attr] = restored.get(tg.attr, False) or saved.get(norm(v)) == tg.attr
    # writes anywhere in push (outside the finally's restores)
    writes = [(w, cond) for w, cond in ((w, any(isinstance(a_, (ast.If, ast.For, ast.While)) for a_ in mod.ancestors(w) if any(a_ is x for x in ast.walk(push)) and a_ is not push))
                                        for w in ast.walk(push) if isinstance(w, ast.Attribute) and isinstance(w.ctx, ast.Store) and norm(w.value) == "self")]
    written = {}
    for w, cond in writes:
        st = _stmt(mod, w)
        if any(st is x or any(st is y for y in ast.walk(x)) for x in t.finalbody):
            if cond:
                written.setdefault(w.attr, []).append(("restore-conditional", st))
            continue
        written.setdefault(w.attr, []).append(("conditional" if cond else "plain", st))
    problems = []
    for f_, evs in written.items():
        if any(k == "conditional" for k, _ in evs) or any(k == "restore-conditional" for k, _ in evs):
            problems.append((f_, [st for k, st in evs if k != "plain"][0], "is set or reset only under a condition"))
        elif f_ not in saved.values() and not any(f_ in v.strip("()").split(",") for v in saved.values()):
            problems.append((f_, evs[0][1], "is overwritten without its previous value being saved first"))
        elif not restored.get(f_):
            problems.append((f_, evs[0][1], "is not restored from the saved value in the finally"))
        else:
            first_write = min((push.body.index(st) for k, st in evs if st in push.body), default=None)
            if first_write is not None and f_ in save_pos and first_write < save_pos[f_]:
                problems.append((f_, evs[0][1], "is overwritten before its previous value is saved (the 'saved' value is already the new one)"))
    wr = {w.attr: norm(_stmt(mod, w).value) for w, cond in writes if isinstance(_stmt(mod, w), ast.Assign) and isinstance(_stmt(mod, w).targets[0], ast.Attribute)
          and not any(_stmt(mod, w) is x for x in t.finalbody)}
    for o in ("with_contexts", "recurse_child_tasks"):
        if wr.get(o) != o:
            ctx.R.fail("OPT-2", mod, push, f"push must store its argument `{o}` into the same-named field (found {wr.get(o)})", construct="self.<opt> = <opt>")
        elif not restored.get(o):
            problems.append((o, push, "is not restored from the saved value in the finally"))
    seen = set()
    for f_, at, why in problems:
        if f_ in seen:
            continue
        seen.add(f_)
        ctx.R.fail("OPT-2", mod, at, f"ExtractOptions.{f_} {why}: every change push makes to the thread-local options must be scoped to that push "
                   "(save, try: yield, finally: restore), otherwise an extraction and the extractions nested inside it (with other options) share that state, "
                   "or a nested extract that ends by exception leaves its value in force", construct=f"options field {f_} not scoped per push")
    if not problems and not any(f.rule == "OPT-2" for f in ctx.R.findings):
        ctx.R.ok("OPT-2", f"push saves {sorted(written)} before writing them and restores exactly the saved values in a finally that encloses the yield")


def opt3(ctx: Ctx) -> None:
    mod = _engine_mod(ctx)
    # OPT-3 single writer
    for m in ctx.P.analysed_mods():
        for n in ast.walk(m.tree):
            if isinstance(n, ast.Attribute) and n.attr in ("with_contexts", "recurse_child_tasks") and isinstance(n.ctx, (ast.Store, ast.Del)):
                q = m.qualname_of(n)
                if m.name == "_extract" and q == "ExtractOptions.push":
                    continue
                if m.in_dead_helper(n):
                    continue  # a helper the normaliser inlined at every call site: its body was judged there
                if m.name == "_extract" and q and q.startswith("ExtractOptions.") and q.count(".") == 1 and q.split(".")[1].startswith("_"):
                    # a private method of the options class that only push refers to (called, or registered as its restore callback)
                    meth = q.split(".")[1]
                    refs = [(m2, x_) for m2 in ctx.P.analysed_mods() for x_ in ast.walk(m2.tree) if isinstance(x_, ast.Attribute) and x_.attr == meth]
                    if refs and all(m2.name == "_extract" and m2.qualname_of(x_) == "ExtractOptions.push" for m2, x_ in refs):
                        continue
                ctx.R.fail("OPT-3", m, n, "an option field is written outside ExtractOptions.push: the save/restore discipline no longer covers every change")
            if isinstance(n, ast.Call) and norm(n.func) in ("setattr", "delattr") and n.args and "current_options" in norm(n.args[0]):
                ctx.R.fail("OPT-3", m, n, "option field written through setattr")
    ctx.R.ok("OPT-3", "no store to with_contexts / recurse_child_tasks outside ExtractOptions.push", f"{len(ctx.P.analysed_mods())} modules scanned")


def opt4(ctx: Ctx) -> None:
    mod = _engine_mod(ctx)
    # OPT-4 entry points
    defaults = None
    for q in ("extract", "extract_outermost", "extract_since", "extract_until"):
        fn = mod.fn(q)
        ctx.R.saw(mod, q)
        d = {a.arg: norm(v) for a, v in zip(fn.args.kwonlyargs, fn.args.kw_defaults) if a.arg in ("with_contexts", "recurse_child_tasks")}
        if set(d) != {"with_contexts", "recurse_child_tasks"}:
            ctx.R.fail("OPT-4", mod, fn, f"{q} must accept both options as keyword-only arguments")
            continue
        if defaults is None:
            defaults = d
        if d != {"with_contexts": "True", "recurse_child_tasks": "False"}:
            ctx.R.fail("OPT-4", mod, fn, f"{q}: documented defaults are with_contexts=True, recurse_child_tasks=False; found {d}", construct=f"{q} defaults {d}")
        else:
            ctx.R.ok("OPT-4", f"{q}: defaults {d}")
    for q in ("extract", "extract_outermost"):
        fn = mod.fn(q)
        body = [s for s in fn.body if not (isinstance(s, ast.Expr) and isinstance(s.value, ast.Constant))]
        # statements before the `with` that neither read the options nor extract anything are not "work" in the sense of this rule
        sensitive = ("current_options", "extract_iter", "extract_child", "fill_context", "unwrap_stackitem", "elaborate_frame", "contexts_active_in_frame")
        def _validation(st: ast.AST) -> bool:
            return isinstance(st, ast.If) and not st.orelse and all(isinstance(x, ast.Raise) for x in st.body)
        while len(body) > 1 and not isinstance(body[0], ast.With) and (isinstance(body[0], (ast.Expr, ast.Assign, ast.AnnAssign)) or _validation(body[0])) \
                and not any(w in norm(body[0]) for w in sensitive):
            ctx.R.note(f"OPT-4: {q}: `{norm(body[0])[:60]}` before the push does not involve the options")
            body = body[1:]
        # a shortcut in front of the push: `if <both options are, by identity, the values already in force> [and ...]: return <what the
        # with-body returns>` -- pushing the values that are already there and restoring them changes nothing
        if len(body) == 2 and isinstance(body[0], ast.If) and not body[0].orelse and len(body[0].body) == 1 and isinstance(body[0].body[0], ast.Return) and isinstance(body[1], ast.With) \
                and len(body[1].body) == 1 and norm(body[1].body[0]) == norm(body[0].body[0]):
            conj_ = [norm(v_) for v_ in (body[0].test.values if isinstance(body[0].test, ast.BoolOp) and isinstance(body[0].test.op, ast.And) else [body[0].test])]
            if all(any(c_ in (f"current_options.{o_} is {o_}", f"{o_} is current_options.{o_}") for c_ in conj_) for o_ in ("with_contexts", "recurse_child_tasks")) \
                    and any(c_.endswith(" is not None") for c_ in conj_):
                ctx.R.note(f"OPT-4: {q}: shortcut when both options already are the values in force")
                body = body[1:]
        if len(body) == 1 and isinstance(body[0], ast.With) and isinstance(body[0].items[0].context_expr, ast.Call) \
                and norm(body[0].items[0].context_expr.func) == "current_options.push":
            kws = {k.arg: norm(k.value) for k in body[0].items[0].context_expr.keywords}
            extra_kw = {k_: v_ for k_, v_ in kws.items() if k_ not in ("with_contexts", "recurse_child_tasks")}
            if extra_kw:
                ctx.R.note(f"OPT-4: {q} passes further options to push: {sorted(extra_kw)}")
            kws = {k_: v_ for k_, v_ in kws.items() if k_ in ("with_contexts", "recurse_child_tasks")}
            if kws == {"with_contexts": "with_contexts", "recurse_child_tasks": "recurse_child_tasks"}:
                ctx.R.ok("OPT-4", f"{q}: all work inside `with current_options.push(<own two parameters under their own names>)`")
            else:
                ctx.R.fail("OPT-4", mod, body[0], f"{q} must pass its own two parameters under their own names to push; found {kws}", construct=f"{q}: push({kws})")
        elif q != "extract" and not any(isinstance(x, ast.With) for x in ast.walk(fn)) and not any(w in norm(fn) for w in ("extract_iter", "current_options")):
            # delegation: everything goes through extract(...), which pushes
            dc = [c for c in calls_in(fn, True) if ctx.P.resolve_call(mod, c).is_pkg("_extract", "extract")]
            kw_ok = dc and all({k.arg: norm(k.value) for k in c.keywords}.get("with_contexts") == "with_contexts" and {k.arg: norm(k.value) for k in c.keywords}.get("recurse_child_tasks") == "recurse_child_tasks" for c in dc)
            if kw_ok:
                ctx.R.ok("OPT-4", f"{q}: delegates to extract(...) with its own two options under their own names")
            else:
                ctx.R.fail("OPT-4", mod, fn, f"{q} must pass its own two options to extract / push under their own names", construct=f"{q}: with push")
        else:
            ctx.R.fail("OPT-4", mod, fn, f"{q} must do all its work inside `with current_options.push(...)`", construct=f"{q}: with push")
    for q in ("extract_since", "extract_until"):
        fn = mod.fn(q)
        ecalls = [c for c in calls_in(fn, True) if ctx.P.resolve_call(mod, c).is_pkg("_extract", "extract")]
        if not ecalls:
            raise AnalysisError(f"OPT-4: {q} no longer calls extract")
        for c in ecalls:
            kws = {k.arg: norm(k.value) for k in c.keywords}
            if None in kws:
                # **opts
                dv = kws[None]
                src = [s for s in fn.body if isinstance(s, ast.Assign) and norm(s.targets[0]) == dv and isinstance(s.value, ast.Dict)]
                if len(src) == 1:
                    kws = {k.value: norm(v) for k, v in zip(src[0].value.keys, src[0].value.values)}
            if kws == {"with_contexts": "with_contexts", "recurse_child_tasks": "recurse_child_tasks"}:
                ctx.R.ok("OPT-4", f"{q}: forwards both options to extract")
            else:
                ctx.R.fail("OPT-4", mod, c, f"{q} must forward both options unchanged to extract; found {kws}", construct=f"{q}: extract(**{kws})")
    ctx.R.expect_min("OPT-4", 4)


def _opt6_by_evaluation(mod, fn: ast.FunctionDef):
    """evaluate extract_child (engine MINI) for the four (for_task, recurse_child_tasks) combinations: a frameless stub carrying
    only the root -- and no call of extract_iter -- exactly for (True, False).  -> True / (False, text) / None (outside the fragment)"""
    from types import SimpleNamespace as NS
    from ..minieval import Mini, Raised, Unsupported, _Return
    params = [a.arg for a in fn.args.args] + [a.arg for a in fn.args.kwonlyargs]
    if len(params) != 2:
        return None
    SliceT = NS(tname="StackSlice")
    for for_task in (False, True):
        for rec in (False, True, 0):          # 0: a falsy value that is not False (the option is tested for truth)
            item, leaf, fr = NS(tag="stackitem"), NS(tag="leaf"), [NS(tag="frame0")]
            st = {"k": 0, "called": False}

            def extract_iter(it_, lst_):
                st["called"] = True
                return NS(tag="iterator", gi_frame=None)

            def nxt(it_, *d_):
                if st["k"] < len(fr):
                    st["k"] += 1
                    return fr[st["k"] - 1]
                raise Raised("StopIteration", NS(tag="StopIteration", value=leaf))
            env = {params[0]: item, params[1]: for_task, "current_options": NS(with_contexts=True, recurse_child_tasks=rec), "StackSlice": SliceT}
            m = Mini(env, {q: f for q, f in mod.defs.items() if isinstance(f, ast.FunctionDef) and "." not in q and f is not fn},
                     {"extract_iter": extract_iter, "next": nxt, "isinstance": lambda o_, c_: False, "Stack": lambda **kw: NS(kind="Stack", **kw), "ExceptionGroup": lambda msg, lst: NS(kind="group")})
            _module_consts(m, mod)
            res = None
            try:
                try:
                    for s_ in fn.body:
                        m.stmt(s_)
                except _Return as r:
                    res = r.value
            except (Unsupported, Raised):
                return None
            except Exception:
                return None
            if not isinstance(res, NS) or getattr(res, "kind", None) != "Stack":
                return None
            stub = not st["called"] and getattr(res, "root", None) is item and getattr(res, "frames", None) in ([], ()) and getattr(res, "leaf", None) is None and getattr(res, "error", None) is None
            full = st["called"] and isinstance(getattr(res, "frames", None), list) and len(res.frames) == 1
            want_stub = for_task and not rec
            if want_stub and not stub:
                return (False, f"extract_child(for_task=True) with recurse_child_tasks=False {'runs the extraction' if st['called'] else 'returns something other than Stack(root=<task>, frames=[])'}: a child task must be a frameless stub unless recursion was requested")
            if not want_stub and not full:
                return (False, f"extract_child(for_task={for_task}) with recurse_child_tasks={rec} returns a stub / does not extract: the stack of {'a child task whose recursion was requested' if for_task else 'an inner stack'} is missing")
    return True


def _module_consts(m, mod) -> None:
    from ..minieval import Raised, Unsupported
    for a_ in mod.tree.body:
        if isinstance(a_, (ast.Assign, ast.AnnAssign)) and isinstance(getattr(a_, "value", None), (ast.Constant, ast.JoinedStr)):
            t_ = a_.targets[0] if isinstance(a_, ast.Assign) else a_.target
            if isinstance(t_, ast.Name) and t_.id not in m.env:
                try:
                    m.stmt(a_)
                except (Unsupported, Raised, Exception):
                    pass


def opt56(ctx: Ctx) -> None:
    mod = _engine_mod(ctx)
    # OPT-5 / OPT-6 extract_child
    fn = mod.fn("extract_child")
    body = [s for s in fn.body if not (isinstance(s, ast.Expr) and isinstance(s.value, ast.Constant))]
    g0 = body[0]
    if isinstance(g0, ast.If) and norm(g0.test) in ("current_options.recurse_child_tasks is None", "current_options.with_contexts is None") \
            and isinstance(g0.body[-1], ast.Raise):
        ctx.R.ok("OPT-5", "extract_child tests 'options unset' and raises before any other effect")
    else:
        ctx.R.fail("OPT-5", mod, g0, "extract_child must refuse to run outside an extraction (options unset -> raise) before doing anything else", construct="extract_child guard")
    g1 = body[1]
    okstub = False
    ev6 = _opt6_by_evaluation(mod, fn)
    if ev6 is True:
        ctx.R.ok("OPT-6", "extract_child evaluated on the four (for_task, recurse_child_tasks) combinations", "a frameless stub carrying only root, without touching extract_iter, exactly for (True, False)")
        return
    if ev6 is not None:
        ctx.R.fail("OPT-6", mod, g1, ev6[1], construct="for_task stub")
        return
    if isinstance(g1, ast.If):
        ok, cex = (False, None)
        try:
            ok, cex = equivalent(g1.test, lambda e: e["for_task"] and not e["current_options.recurse_child_tasks"], ["for_task", "current_options.recurse_child_tasks"])
        except AnalysisError:
            ok = False
        ret = g1.body[-1]
        if ok and isinstance(ret, ast.Return) and isinstance(ret.value, ast.Call) and ctx.P.resolve_call(mod, ret.value).is_pkg("_types", "Stack"):
            kws = {k.arg: norm(k.value) for k in ret.value.keywords}
            if kws.get("root") == fn.args.args[0].arg and kws.get("frames") in ("[]", "()") and set(kws) <= {"root", "frames"}:
                okstub = True
    if okstub:
        ctx.R.ok("OPT-6", "stub iff for_task and not recurse_child_tasks: Stack(root=stackitem, frames=[]) before the iterator is created")
    else:
        ctx.R.fail("OPT-6", mod, g1, "extract_child(for_task=True) must return a frameless stub carrying only root exactly when recursion was not requested", construct="for_task stub")


def opt7(ctx: Ctx) -> None:
    mod = _engine_mod(ctx)
    # OPT-7 with_contexts only governs frame.contexts
    from .opcodes import guards_of
    it = mod.fn("extract_iter")
    stores = [n for n in ast.walk(it) if isinstance(n, ast.Attribute) and n.attr == "contexts" and isinstance(n.ctx, ast.Store)]
    if not stores:
        raise AnalysisError("OPT-7: store to frame.contexts vanished")
    for s in stores:
        gs = [norm(g) for g, pol in guards_of(mod, s, it) if pol]
        if "current_options.with_contexts" in gs:
            ctx.R.ok("OPT-7", "frame.contexts is stored only under `if current_options.with_contexts`")
        else:
            ctx.R.fail("OPT-7", mod, s, "frame.contexts is computed although with_contexts may be False")
    region = [n for n in ast.walk(it) if isinstance(n, ast.If) and norm(n.test) == "current_options.with_contexts"]
    for r in region:
        bad = []
        for n in ast.walk(r):
            if isinstance(n, (ast.Name, ast.Attribute, ast.Subscript)) and isinstance(getattr(n, "ctx", None), ast.Store):
                t = norm(n)
                if t in ("frame.contexts", "next_pyframe", "context", "ex") :
                    continue
                # a name that lives only inside the region (bound and read there, nowhere else in the function) is not engine state
                if isinstance(n, ast.Name) and not any(isinstance(u_, ast.Name) and u_.id == n.id and not any(u_ is z_ for z_ in ast.walk(r)) for u_ in ast.walk(it)):
                    continue
                bad.append(t)
            if isinstance(n, ast.Call) and isinstance(n.func, ast.Attribute) and isinstance(n.func.value, ast.Name) \
                    and n.func.value.id in ("to_unwrap", "to_elaborate"):
                bad.append(norm(n))
            if isinstance(n, (ast.Break, ast.Continue, ast.Return, ast.Yield, ast.Raise)):
                bad.append(norm(n))
        if bad:
            ctx.R.fail("OPT-7", mod, r, f"the with_contexts region changes engine state {bad}: the frame series would depend on the flag", construct=f"with_contexts region writes {bad}")
        else:
            ctx.R.ok("OPT-7", "the with_contexts region writes only frame.contexts / save_errors: the frame series cannot depend on the flag through the engine")


# ===================================================================== C16
def _ori4_by_evaluation(mod, bo: ast.FunctionDef):
    """evaluate better_origin (engine MINI) on every pair of (candidate kind, fallback kind); None when outside the fragment"""
    from types import SimpleNamespace as NS
    from ..minieval import Mini, Raised, Unsupported, _Return
    T = {k: NS(tname=k) for k in ("CoroutineType", "GeneratorType", "AsyncGeneratorType", "FrameType", "FunctionType", "NoneType", "int", "object")}
    GEN = ("CoroutineType", "GeneratorType", "AsyncGeneratorType")

    def mk(kind: str, weak: bool):
        return NS(cls=T[kind], weak=weak, label=kind)
    cands = [mk(k, True) for k in GEN] + [mk("FrameType", False), mk("FunctionType", True), mk("int", False), mk("object", True)]
    falls = [None] + [mk(k, True) for k in GEN] + [mk("FunctionType", True)]

    def isinst(o_, c_):
        cs = list(c_) if isinstance(c_, (tuple, list)) else [c_]
        if not all(isinstance(x, NS) and hasattr(x, "tname") for x in cs):
            raise Unsupported("isinstance against an unknown class")
        return o_ is not None and any(o_.cls is x for x in cs)

    def typ(o_):
        return T["NoneType"] if o_ is None else o_.cls

    def wref(o_, *a_):
        if o_ is None or not o_.weak:
            raise Raised("TypeError")
        return NS(ref_of=o_)
    params = [a.arg for a in bo.args.args]
    consts = {}
    for n_ in mod.tree.body:
        if isinstance(n_, ast.Assign) and len(n_.targets) == 1 and isinstance(n_.targets[0], ast.Name):
            consts[n_.targets[0].id] = n_.value
    n_ok = 0
    for c in cands:
        for f in falls:
            env = {params[0]: c, params[1]: f, "types": NS(**T), "weakref": NS(ref=wref, WeakValueDictionary=None)}
            m = Mini(env, {}, {"isinstance": isinst, "type": typ})
            # module-level tuples of types the function refers to
            try:
                for nm, val in consts.items():
                    if any(isinstance(x, ast.Name) and x.id == nm for x in ast.walk(bo)) and isinstance(val, (ast.Tuple, ast.Attribute)):
                        m.env[nm] = m.expr(val)
                res = None
                try:
                    for st in bo.body:
                        m.stmt(st)
                except _Return as r:
                    res = r.value
            except (Unsupported, Raised):
                return None
            except Exception:
                return None
            want_c = c.weak and (c.label in GEN or f is None or f.label not in GEN)
            want = c if want_c else f
            if res is not want:
                got = "candidate" if res is c else "fallback" if res is f else "neither"
                return n_ok, (c.label + (" (weak-referenceable)" if c.weak else " (not weak-referenceable)"), "None" if f is None else f.label, got, "candidate" if want_c else "fallback")
            n_ok += 1
    return n_ok, None


def ori_rules(ctx: Ctx) -> None:
    mod = _engine_mod(ctx)
    eo = mod.fn("extract_outermost")
    ec = mod.fn("extract_child")
    ex = mod.fn("extract")
    ctx.R.saw(mod, "extract_outermost")
    # ORI-1 same iterator, same argument shapes
    c1 = [c for c in calls_in(eo, True) if ctx.P.resolve_call(mod, c).is_pkg("_extract", "extract_iter")]
    c2 = [c for c in calls_in(ec, True) if ctx.P.resolve_call(mod, c).is_pkg("_extract", "extract_iter")]
    if len(c1) != 1 or len(c2) != 1:
        raise AnalysisError("ORI-1: extract_iter calls not found")
    if c1[0].keywords or c2[0].keywords or len(c1[0].args) != len(c2[0].args):
        ctx.R.fail("ORI-1", mod, c1[0], f"extract_outermost calls the engine as `{norm(c1[0])[:80]}` while extract calls it as `{norm(c2[0])[:80]}`: "
                   "the first frame is no longer the same computation (its next_inner / contexts / flags can differ)", construct="extract_iter argument shapes differ")
    elif norm(c1[0].args[0]) == eo.args.args[0].arg and norm(c2[0].args[0]) == ec.args.args[0].arg and len(c1[0].args) == len(c2[0].args) == 2:
        ctx.R.ok("ORI-1", "extract_outermost and extract_child consume the same generator function with (stackitem, <fresh error list>)")
    else:
        ctx.R.fail("ORI-1", mod, c1[0], "extract_outermost must run the same iterator on its own stackitem as extract does")
    par = mod.parent_of(c1[0])
    bound_name = norm(par.targets[0]) if isinstance(par, ast.Assign) and len(par.targets) == 1 and isinstance(par.targets[0], ast.Name) else None
    n_next = sum(1 for x_ in ast.walk(eo) if isinstance(x_, ast.Call) and norm(x_.func) == "next" and x_.args and bound_name is not None and norm(x_.args[0]) == bound_name)
    via_name = bound_name is not None and n_next == 1 and any(isinstance(r_, ast.Return) and isinstance(r_.value, ast.Call) and norm(r_.value.func) == "next" and r_.value.args and norm(r_.value.args[0]) == bound_name
                                              for r_ in ast.walk(eo))
    if isinstance(par, ast.Call) and norm(par.func) == "next" and isinstance(mod.parent_of(par), ast.Return):
        ctx.R.ok("ORI-1", "extract_outermost returns the first item of that iterator")
    elif via_name:
        ctx.R.ok("ORI-1", f"extract_outermost returns next({bound_name}) of that iterator")
    else:
        ctx.R.fail("ORI-1", mod, c1[0], "extract_outermost must return next(extract_iter(...)): the first frame of the same computation")
    for nm, e in (("errors", c1[0].args[1]), ("errors", c2[0].args[1])):
        fn = eo if e is c1[0].args[1] else ec
        src = [s for s in ast.walk(fn) if isinstance(s, (ast.Assign, ast.AnnAssign)) and norm(s.targets[0] if isinstance(s, ast.Assign) else s.target) == norm(e)]
        if len(src) == 1 and norm(src[0].value) == "[]":
            ctx.R.ok("ORI-1", f"{mod.qualname_of(fn)}: fresh error list")
        else:
            ctx.R.fail("ORI-1", mod, fn, "the error list handed to extract_iter must be a fresh []", construct=f"{mod.qualname_of(fn)}: errors = []")
    # ORI-2 StopIteration handler: every path raises, from errors when non-empty
    hs = [h for t in contains(eo, ast.Try) for h in t.handlers if h.type is not None and norm(h.type) == "StopIteration"]
    if len(hs) != 1:
        raise AnalysisError("ORI-2: StopIteration handler vanished")
    h = hs[0]
    errs = norm(c1[0].args[1])

    def absval(e: ast.AST, env: Dict[str, str]) -> str:
        if isinstance(e, ast.Constant) and e.value is None:
            return "none"
        if isinstance(e, ast.Subscript) and norm(e.value) == errs:
            return "recorded"
        if isinstance(e, ast.Call) and norm(e.func) == "ExceptionGroup" and errs in [norm(a) for a in e.args]:
            return "group"
        if isinstance(e, ast.Call) and norm(e.func).endswith("Error"):
            return "new"
        if isinstance(e, ast.Name) and e.id in env:
            return env[e.id]
        return "?"

    def test(t: ast.AST, n: int, env: Dict[str, str]) -> Optional[bool]:
        r = _len_test(t, errs, n)
        if r is not None:
            return r
        if isinstance(t, ast.Compare) and len(t.ops) == 1 and isinstance(t.left, ast.Name) and t.left.id in env and norm(t.comparators[0]) == "None":
            v = env[t.left.id]
            if v == "?":
                return None
            return (v != "none") if isinstance(t.ops[0], ast.IsNot) else (v == "none")
        if isinstance(t, ast.Name) and t.id in env and env[t.id] != "?":
            return env[t.id] != "none"
        return None

    def outcome(body: List[ast.stmt], n: int, env: Optional[Dict[str, str]] = None) -> str:
        env = {} if env is None else env
        for st in body:
            if isinstance(st, ast.If):
                t = test(st.test, n, env)
                if t is None:
                    return "?"
                r = outcome(st.body if t else st.orelse, n, env)
                if r != "fall":
                    return r
            elif isinstance(st, (ast.Assign, ast.AnnAssign)) and isinstance(st.targets[0] if isinstance(st, ast.Assign) else st.target, ast.Name) and st.value is not None:
                env[norm(st.targets[0] if isinstance(st, ast.Assign) else st.target)] = absval(st.value, env)
            elif isinstance(st, ast.Raise):
                e = st.exc
                if e is None:
                    return "reraise-stopiteration"
                v = absval(e, env)
                return {"recorded": "raise-recorded", "group": "raise-group", "new": "raise-new"}.get(v, "?")
            elif isinstance(st, ast.Return):
                return "return"
        return "fall"

    want = {0: ("raise-new",), 1: ("raise-recorded",), 2: ("raise-group",)}
    for n, w in want.items():
        got = outcome(h.body, n)
        if got in w:
            ctx.R.ok("ORI-2", f"no frame and {n} recorded error(s): {got}")
        elif got == "?" or (got == "fall" and any(isinstance(r_, ast.Raise) and isinstance(r_.exc, ast.Name) for r_ in ast.walk(h))):
            # (the exception to raise is first picked into a local: the handler does raise, what it raises is not followed here)
            ctx.R.undecided("ORI-2", f"cannot evaluate what extract_outermost raises with {n} recorded error(s)")
        else:
            ctx.R.fail("ORI-2", mod, h, f"extract_outermost with no frame and {n} recorded error(s) must {w[0]}, the handler does `{got}`", construct=f"StopIteration handler, {n} errors")
    # ORI-3 Frame construction dominated by the origin filter
    it = mod.fn("extract_iter")
    fcs = []
    for m in ctx.P.analysed_mods():
        for c in ast.walk(m.tree):
            if isinstance(c, ast.Call) and isinstance(c.func, ast.Name) and c.func.id == "Frame" and ctx.P.resolve_call(m, c).name.endswith("_types.Frame"):
                fcs.append((m, c))
    if len(fcs) != 1 or fcs[0][0] is not mod or mod.qualname_of(fcs[0][1]) != "extract_iter":
        ctx.R.fail("ORI-3", fcs[0][0] if fcs else mod, fcs[-1][1] if fcs else it, f"Frame(...) is constructed at {len(fcs)} sites; the origin filter only covers the one in extract_iter",
                   construct="Frame constructions")
    else:
        c = fcs[0][1]
        kws = {k.arg: norm(k.value) for k in c.keywords}
        st = _stmt(mod, c)
        blk = _block_of(mod, st)
        i = blk.index(st)
        prev = blk[i - 1] if i > 0 else None
        ovar = kws.get("origin")
        from ..util import resolve_expr
        # find, before the construction in the same block, an `if <test>: origin = None`
        filt = None
        for cand in blk[:i][::-1]:
            if isinstance(cand, ast.If) and ovar and len(cand.body) == 1 and norm(cand.body[0]) == f"{ovar} = None" and not cand.orelse:
                filt = cand
                break
        if not ovar:
            ctx.R.fail("ORI-3", mod, c, "Frame is constructed without its origin", construct="Frame(origin=...)")
        elif filt is None:
            ctx.R.fail("ORI-3", mod, c, "the origin given to Frame is not first reduced to a coroutine/generator/async-generator object or None (weak-referenceable, recoverable by extract_outermost)",
                       construct="origin filter before Frame(...)")
        else:
            isi = [x for x in ast.walk(filt.test) if isinstance(x, ast.Call) and norm(x.func) == "isinstance" and norm(x.args[0]) == ovar]
            if len(isi) > 1:
                # the filter proper is the test against a tuple of types; further single-type tests are extra conditions
                tup = [x for x in isi if isinstance(resolve_expr(mod, x.args[1]), ast.Tuple)]
                if len(tup) == 1:
                    isi = tup
            if len(isi) != 1:
                ctx.R.undecided("ORI-3", "origin filter does not use a single isinstance(origin, ...) test")
            else:
                tl = resolve_expr(mod, isi[0].args[1])
                names = sorted(norm(e) for e in tl.elts) if isinstance(tl, ast.Tuple) else [norm(tl)]
                atom = norm(isi[0])
                try:
                    okf, cex = equivalent(filt.test, lambda e: not e[atom], [atom])
                except AnalysisError as ex:
                    okf, cex = None, str(ex)
                if names != ["types.AsyncGeneratorType", "types.CoroutineType", "types.GeneratorType"]:
                    ctx.R.fail("ORI-3", mod, filt, f"origin must be kept exactly for coroutine / generator / async generator objects; the filter tests {names}", construct="origin filter types")
                elif okf:
                    ctx.R.ok("ORI-3", "the only Frame(...) construction is preceded by the filter reducing origin to a generator/coroutine/async generator or None")
                elif okf is False:
                    ctx.R.fail("ORI-3", mod, filt, f"origin is dropped under a different condition than 'not a coroutine/generator/async generator': counterexample {cex}: "
                               "a frame obtained by looking inside a suspended generator-like object can lose that object as its origin", construct="origin filter condition")
                else:
                    ctx.R.undecided("ORI-3", f"origin filter condition not understood: {cex}")
    # better_origin: prefers generator-like candidates, falls back if not weak-referenceable
    bo = mod.fn("better_origin")
    t = [s for s in bo.body if isinstance(s, ast.Try)]
    if len(t) == 1 and "weakref.ref(candidate)" in norm(t[0].body[0]) and t[0].handlers and norm(t[0].handlers[0].type) == "TypeError" \
            and norm(t[0].handlers[0].body[0]) == "return fallback":
        ctx.R.ok("ORI-3", "better_origin keeps the fallback when the candidate is not weak-referenceable")
    else:
        # positive evidence only: nothing in better_origin, or in the package functions it calls, looks at weak-referenceability
        texts = [norm(bo)]
        for c_ in calls_in(bo, True):
            cal_ = ctx.P.resolve_call(mod, c_)
            if cal_.kind == "pkg" and mod.has(cal_.name.split(".")[-1]):
                texts.append(norm(mod.fn(cal_.name.split(".")[-1])))
        wrong_handler = len(t) == 1 and "weakref.ref(candidate)" in norm(t[0].body[0]) and t[0].handlers and norm(t[0].handlers[0].type) == "TypeError" \
            and isinstance(t[0].handlers[0].body[0], ast.Return) and norm(t[0].handlers[0].body[0]) != "return fallback"
        if wrong_handler or not any("weakref" in t_ or "__weakref__" in t_ for t_ in texts):
            ctx.R.fail("ORI-3", mod, bo, "better_origin must fall back when the candidate cannot be weakly referenced")
        else:
            ctx.R.undecided("ORI-3", "better_origin decides weak-referenceability in a way the rule does not follow")

    # ORI-4 better_origin's preference: the candidate wins iff it is generator-like or the fallback is not; "generator-like"
    # is the same three types the Frame filter keeps (a coroutine awaited from inside an async generator must become the origin
    # of its own frames, otherwise extract_outermost(origin) recovers the generator's frame, not this one)
    FULL = {"types.AsyncGeneratorType", "types.CoroutineType", "types.GeneratorType"}
    params = [a.arg for a in bo.args.args]

    def local_resolve(e: ast.AST) -> ast.AST:
        if isinstance(e, ast.Name):
            loc = [a.value for a in walk_scope(bo) if isinstance(a, ast.Assign) and len(a.targets) == 1 and norm(a.targets[0]) == e.id]
            if len(loc) == 1:
                return loc[0]
            return resolve_expr(mod, e)
        return e

    isis = [c_ for c_ in ast.walk(bo) if isinstance(c_, ast.Call) and norm(c_.func) == "isinstance" and len(c_.args) == 2 and norm(c_.args[0]) in params]
    ev4 = _ori4_by_evaluation(mod, bo) if len(params) == 2 else None
    if ev4 is not None:
        n_ok4, bad4_ = ev4
        if bad4_ is None:
            ctx.R.ok("ORI-4", f"better_origin evaluated on {n_ok4} (candidate kind, fallback kind) pairs", "the candidate wins iff it is weak-referenceable and (generator-like or the fallback is not)")
        else:
            ck, fk, got, want = bad4_
            ctx.R.fail("ORI-4", mod, bo, f"better_origin(candidate: {ck}, fallback: {fk}) returns the {got}, the {want} is required: the candidate must win iff it can be weakly referenced and it is a "
                       "coroutine / generator / async generator or the fallback is none of these; otherwise an object reached from inside a generator-like object keeps (or loses) the wrong origin and "
                       "extract_outermost(origin) recovers a different frame", construct=f"better_origin({ck}, {fk}) -> {got}")
    elif len(params) != 2 or not isis:
        ctx.R.undecided("ORI-4", "better_origin does not choose by isinstance tests on its two parameters")
    else:
        bad4 = False
        for c_ in isis:
            tl = local_resolve(c_.args[1])
            nm = {norm(x) for x in tl.elts} if isinstance(tl, ast.Tuple) else {norm(tl)}
            if nm < FULL:
                bad4 = True
                ctx.R.fail("ORI-4", mod, c_, f"better_origin treats only {sorted(nm)} as generator-like when it looks at `{norm(c_.args[0])}`; missing {sorted(FULL - nm)}: an object of a missing type "
                           "reached from inside a generator-like object keeps that outer object as the origin of its own frames (extract_outermost(origin) then recovers a different frame)",
                           construct=f"better_origin: isinstance({norm(c_.args[0])}, ...) type list")
            elif nm != FULL:
                ctx.R.undecided("ORI-4", f"better_origin tests {sorted(nm)}")
                bad4 = True
        if not bad4:
            cand, fb = params
            ifs = [s_ for s_ in walk_scope(bo) if isinstance(s_, ast.If) and s_.body and isinstance(s_.body[0], ast.Return) and norm(s_.body[0].value) in (cand, fb)]
            a1 = [norm(c_) for c_ in isis if norm(c_.args[0]) == cand]
            a2 = [norm(c_) for c_ in isis if norm(c_.args[0]) == fb]
            if len(ifs) == 1 and len(set(a1)) == 1 and len(set(a2)) == 1:
                i_ = ifs[0]
                blk = [b_ for b_ in ast.walk(bo) if isinstance(getattr(b_, "body", None), list) and i_ in b_.body] + [b_ for b_ in ast.walk(bo) if isinstance(getattr(b_, "orelse", None), list) and i_ in b_.orelse]
                seq = blk[0].body if i_ in blk[0].body else blk[0].orelse
                nxt = i_.orelse[0] if i_.orelse else (seq[seq.index(i_) + 1] if seq.index(i_) + 1 < len(seq) else None)
                other = norm(nxt.value) if isinstance(nxt, ast.Return) and nxt.value is not None else None
                first = norm(i_.body[0].value)
                if other in (cand, fb) and other != first:
                    want = (lambda e: e[a1[0]] or not e[a2[0]]) if first == cand else (lambda e: not (e[a1[0]] or not e[a2[0]]))
                    try:
                        ok4, cex4 = equivalent(i_.test, want, [a1[0], a2[0]])
                    except AnalysisError as ex4:
                        ok4, cex4 = None, str(ex4)
                    if ok4:
                        ctx.R.ok("ORI-4", "better_origin: the candidate wins iff it is a coroutine/generator/async generator or the fallback is not", "truth table over the two isinstance tests")
                    elif ok4 is False:
                        ctx.R.fail("ORI-4", mod, i_, f"better_origin must return the candidate iff it is generator-like or the fallback is not; counterexample {cex4}", construct="better_origin preference")
                    else:
                        ctx.R.undecided("ORI-4", f"better_origin condition not understood: {cex4}")
                else:
                    ctx.R.undecided("ORI-4", "better_origin's two returns not recognised")
            else:
                ctx.R.undecided("ORI-4", "better_origin's choice is not a single if over isinstance(candidate, T) / isinstance(fallback, T)")


C05 = [cont1_2, cont3, cont4, cont5, def1, contw]
# err1 is appended below, after its definition
C10 = [eng1, eng2, eng34, yf1, cont3]
C11 = [ctx_rules, ctx5]
C13 = [opt1, opt2, opt3, opt4, opt56, opt7, ctx_rules]
C16 = [ori_rules]


def truth3(ctx: Ctx) -> None:
    """TRUTH-3 in the unwrap loop None means "this item cannot be unwrapped: keep it as it is" and an empty sequence / an iterator
    that yields nothing means "nothing here".  No value that reaches the `... is None` test of the unwrap result is produced by
    `<result> or None` (or `x if x else None`): that turns the second answer into the first, the item becomes a leaf and the
    frames after it are never elaborated.  Followed through module-level helpers the result passes through"""
    mod = _engine_mod(ctx)
    fn = mod.fn("extract_iter")
    tests = [c for c in ast.walk(fn) if isinstance(c, ast.Compare) and len(c.ops) == 1 and isinstance(c.ops[0], (ast.Is, ast.IsNot)) and isinstance(c.left, ast.Name)
             and isinstance(c.comparators[0], ast.Constant) and c.comparators[0].value is None]
    uw = [norm(s_.targets[0]) for s_ in ast.walk(fn) if isinstance(s_, ast.Assign) and len(s_.targets) == 1 and isinstance(s_.value, ast.Call) and isinstance(s_.value.func, ast.Name) and s_.value.func.id == "unwrap_stackitem"]
    names = {c.left.id for c in tests} & set(uw)
    if not names:
        ctx.R.undecided("TRUTH-3", "the `is None` test of the unwrap result was not found")
        return

    def falsy_to_none(e: ast.AST) -> bool:
        if isinstance(e, ast.BoolOp) and isinstance(e.op, ast.Or) and isinstance(e.values[-1], ast.Constant) and e.values[-1].value is None:
            return True
        if isinstance(e, ast.IfExp) and isinstance(e.orelse, ast.Constant) and e.orelse.value is None and norm(e.test) in (norm(e.body), f"len({norm(e.body)})", f"bool({norm(e.body)})"):
            return True
        if isinstance(e, ast.IfExp) and isinstance(e.body, ast.Constant) and e.body.value is None and norm(e.test) == f"not {norm(e.orelse)}":
            return True
        return False

    n = 0
    for nm in names:
        for a in ast.walk(fn):
            if isinstance(a, ast.Assign) and len(a.targets) == 1 and norm(a.targets[0]) == nm:
                n += 1
                vals = [(a.value, fn)]
                if isinstance(a.value, ast.Call) and isinstance(a.value.func, ast.Name) and mod.has(a.value.func.id) and isinstance(mod.defs.get(a.value.func.id), ast.FunctionDef) \
                        and a.value.func.id not in ("unwrap_stackitem", "elaborate_frame"):
                    h = mod.defs[a.value.func.id]
                    vals = [(r.value, h) for r in walk_scope(h) if isinstance(r, ast.Return) and r.value is not None]
                for v, where in vals:
                    if falsy_to_none(v):
                        ctx.R.fail("TRUTH-3", mod, v, f"`{norm(v)[:60]}` feeds the unwrap result `{nm}`: an empty sequence (or an iterator that yields nothing) means \"nothing here\", None means \"cannot be unwrapped\"; "
                                   "turning the former into the latter makes the item a leaf and leaves the frames that follow it un-elaborated", construct=f"empty unwrap result turned into None")
    ctx.R.ok("TRUTH-3", f"{n} assignments to the unwrap result {sorted(names)}", "none maps an empty result to None")


def eng7(ctx: Ctx) -> None:
    """ENG-7 looking at a frame's context managers never changes the frame series: a failure of contexts_active_in_frame /
    fill_context is recorded (appended to the error list) and nothing else -- in particular it does not set the frame's
    replacement to PRUNE, un-hide it or skip its elaboration -- so extract(x, with_contexts=False) and extract(x,
    with_contexts=True) list the same frames whatever the context inspection does"""
    mod = _engine_mod(ctx)
    fn = mod.fn("extract_iter")
    tries = [t for t in walk_scope(fn) if isinstance(t, ast.Try) and any(isinstance(c, ast.Call) and isinstance(c.func, ast.Name) and c.func.id in ("contexts_active_in_frame", "fill_context")
                                                                        for st in t.body for c in ast.walk(st))]
    if not tries:
        ctx.R.undecided("ENG-7", "no try around the context inspection found in extract_iter")
        return
    for t in tries:
        for h in t.handlers:
            eff = [n for st in h.body for n in ast.walk(st) if (isinstance(n, ast.Assign) and any(norm(x) in ("replacement", "frame.hide", "frame.hide_line") for x in n.targets))
                   or (isinstance(n, ast.Name) and n.id == "PRUNE") or isinstance(n, (ast.Return, ast.Break))]
            if eff:
                ctx.R.fail("ENG-7", mod, eff[0], f"a failure while inspecting a frame's context managers is handled by `{norm(_stmt(mod, eff[0]))[:60]}`: the frame series then depends on with_contexts "
                           "(everything inward of that frame is pruned / the frame is treated differently only when contexts are requested)", construct="context-inspection handler changes the frame series")
            elif not any(isinstance(n, ast.Call) and isinstance(n.func, ast.Attribute) and n.func.attr == "append" for st in h.body for n in ast.walk(st)):
                ctx.R.undecided("ENG-7", "a context-inspection handler does not append to the error list")
            else:
                ctx.R.ok("ENG-7", f"context-inspection failure at line {h.lineno}: recorded only")


def eng8(ctx: Ctx) -> None:
    """ENG-8 the `next_inner` handed to elaborate_frame is the entry at the head of the elaboration queue (or None when the queue
    is empty).  The insert-before protocol is an identity test against that value and the re-queueing below it relies on the
    queue head being exactly the object a hook hands back in `(..., next_inner)`: anything else (a list of the remaining items,
    a copy, the second entry) makes a well-formed insert look like a replacement -- the rest of the stack is dropped -- or
    leaves the head queued twice.  Decided by evaluating (engine MINI) the statements between the pop of the frame and the
    elaborate_frame call on queues of 0, 1, 2 remaining entries, frames and non-frames"""
    from types import SimpleNamespace as NS
    from ..minieval import Mini, Raised, Unsupported
    mod = _engine_mod(ctx)
    fn = mod.fn("extract_iter")
    main = _main_loop(fn)
    ecall = [c for c in calls_in(main, True) if ctx.P.resolve_call(mod, c).is_pkg("_customization", "elaborate_frame")]
    if len(ecall) != 1 or len(ecall[0].args) != 2 or ecall[0].keywords:
        ctx.R.undecided("ENG-8", "elaborate_frame is not called once with (frame, next_inner) in the main loop")
        return
    call = ecall[0]
    pops = [st for st in main.body if isinstance(st, ast.Assign) and isinstance(st.value, ast.Call) and isinstance(st.value.func, ast.Attribute) and st.value.func.attr == "popleft"
            and isinstance(st.value.func.value, ast.Name)]
    top = [st for st in main.body if any(n is call for n in ast.walk(st))]
    if len(pops) != 1 or len(top) != 1 or main.body.index(pops[0]) > main.body.index(top[0]):
        ctx.R.undecided("ENG-8", "the pop of the frame and the elaborate_frame call are not statements of the main loop in that order")
        return
    queue = pops[0].value.func.value.id
    between = main.body[main.body.index(pops[0]) + 1:main.body.index(top[0])]
    arg = call.args[1]
    want_names = {n.id for n in ast.walk(arg) if isinstance(n, ast.Name)}
    # statements between the two that take part in computing the argument (assignments / ifs / asserts); the context
    # inspection (an `if` that calls contexts_active_in_frame) only reads it
    body = []
    for st in between:
        calls_ctx = any(isinstance(c, ast.Call) and isinstance(c.func, ast.Name) and c.func.id in ("contexts_active_in_frame", "fill_context") for c in ast.walk(st))
        writes = {t.id for n in ast.walk(st) for t in ast.walk(n) if isinstance(t, ast.Name) and isinstance(t.ctx, ast.Store)}
        if calls_ctx:
            if writes & want_names:
                ctx.R.undecided("ENG-8", "the context inspection assigns the value later handed to elaborate_frame")
                return
            continue
        if isinstance(st, ast.Assert):
            continue
        body.append(st)
    FrameT = NS(tname="Frame")

    def isinst(o_, c_):
        cs = list(c_) if isinstance(c_, (tuple, list)) else [c_]
        if not all(x is FrameT for x in cs):
            raise Unsupported("isinstance against another class")
        return isinstance(o_, NS) and getattr(o_, "is_frame", False)
    helpers = {q: f for q, f in mod.defs.items() if isinstance(f, ast.FunctionDef) and "." not in q and q != "extract_iter"}
    shapes = {"empty": [], "one frame": ["F"], "one non-frame": ["X"], "frame then non-frame": ["F", "X"], "two non-frames": ["X", "X"], "two frames": ["F", "F"], "three non-frames": ["X", "X", "X"]}
    n_ok = 0
    for label, kinds in shapes.items():
        items = [NS(is_frame=(k == "F"), tag=f"{k}{i}", pyframe=NS(tag="pyframe")) for i, k in enumerate(kinds)]
        q = [(it, 3) for it in items]
        env = {queue: q, "Frame": FrameT, "frame": NS(is_frame=True, tag="popped"), "depth": 3}
        m = Mini(env, dict(helpers), {"isinstance": isinst})
        try:
            if m.run(body) is not None:
                raise Unsupported("break / continue before elaborate_frame")
            got = m.expr(arg)
        except (Unsupported, Raised) as ex:
            ctx.R.undecided("ENG-8", f"queue of {label}: {ex}")
            return
        except Exception as ex:  # evaluator limitation, never a verdict
            ctx.R.undecided("ENG-8", f"queue of {label}: {type(ex).__name__}")
            return
        want = items[0] if items else None
        if got is not want:
            what = "None" if got is None else f"the entry at index {[i for i, it in enumerate(items) if it is got][0]}" if any(it is got for it in items) else f"a new {type(got).__name__}"
            ctx.R.fail("ENG-8", mod, call, f"with {label} left in the elaboration queue, elaborate_frame receives {what} as next_inner instead of {'the queue head' if items else 'None'}: "
                       "a hook that follows the documented insert protocol `return (extra, next_inner)` is then matched against an object that is not the queued entry -- the remaining stack "
                       "is handled as replaced / queued twice instead of continuing after the inserted items", construct=f"next_inner with {label} queued")
            return
        if len(q) != len(items) or any(a[0] is not b for a, b in zip(q, items)):
            ctx.R.fail("ENG-8", mod, call, f"computing next_inner changes the elaboration queue ({label})", construct=f"next_inner computation mutates the queue ({label})")
            return
        n_ok += 1
    ctx.R.ok("ENG-8", f"_extract.extract_iter: next_inner evaluated on {n_ok} queue shapes", "always the queue head (identity) or None for an empty queue")


_MUTATORS = {"pop", "append", "extend", "insert", "remove", "clear", "reverse", "sort", "popleft", "appendleft", "extendleft", "rotate", "update", "setdefault", "popitem", "add", "discard"}


def eng9(ctx: Ctx) -> None:
    """ENG-9 the engine never changes an object a hook handed back.  A hook may return a sequence it keeps (a task group's list of
    children, a cached tuple of frames): unwrap_stackitem / elaborate_frame / unwrap_context results are read -- iterated,
    indexed, reversed() -- but not popped from, appended to, sorted, cleared or sliced-assigned; after such a change the next
    extraction of the same object finds an emptied / reordered sequence (frames and leaf vanish, no error).  Decided with
    reaching definitions on the CFG: a mutating use of a local is a violation when a definition that (transitively, through
    plain `a = b` copies) is a hook call's result reaches it"""
    mod = _engine_mod(ctx)
    hooks = ("unwrap_stackitem", "elaborate_frame", "unwrap_context", "elaborate_context")
    n_sites = n_hook = 0
    for q in ("extract_iter", "fill_context"):
        fn = mod.fn(q)
        g = ctx.cfg(fn)
        defs: Dict[str, List[ast.stmt]] = {}
        for st in walk_scope(fn):
            if isinstance(st, (ast.Assign, ast.AnnAssign, ast.AugAssign, ast.For, ast.With, ast.NamedExpr)):
                tg = st.targets if isinstance(st, ast.Assign) else [st.target] if isinstance(st, (ast.AnnAssign, ast.AugAssign, ast.For, ast.NamedExpr)) else [i.optional_vars for i in st.items if i.optional_vars is not None]
                for t in tg:
                    for nm in ast.walk(t):
                        if isinstance(nm, ast.Name) and isinstance(nm.ctx, ast.Store):
                            defs.setdefault(nm.id, []).append(_stmt(mod, st) if not isinstance(st, ast.stmt) else st)
            elif isinstance(st, ast.ExceptHandler) and st.name:
                pass
        def node(st_):
            try:
                return g.node_of(st_)
            except Exception:
                return None

        def reaching(name: str, use_st: ast.stmt) -> List[ast.stmt]:
            un = node(use_st)
            out = []
            for d in defs.get(name, []):
                dn = node(d)
                if dn is None or un is None:
                    continue
                others = {node(o).idx for o in defs.get(name, []) if o is not d and node(o) is not None} - {un.idx}
                if un.idx in g.reachable_from(dn, avoid=others) or (dn.idx == un.idx):
                    out.append(d)
            return out
        tainted: Set[int] = set()
        for name, ds in defs.items():
            for d in ds:
                v = getattr(d, "value", None)
                if isinstance(d, ast.Assign) and isinstance(v, ast.Call) and len(d.targets) == 1 and isinstance(d.targets[0], ast.Name) and ctx.P.resolve_call(mod, v).kind == "pkg" \
                        and ctx.P.resolve_call(mod, v).name.split(".")[-1] in hooks:
                    tainted.add(id(d))
                    n_hook += 1
        changed = True
        while changed:
            changed = False
            for name, ds in defs.items():
                for d in ds:
                    if id(d) in tainted or not isinstance(d, (ast.Assign, ast.AnnAssign)) or not isinstance(d.value, ast.Name):
                        continue
                    if (d.targets if isinstance(d, ast.Assign) else [d.target])[0].__class__ is not ast.Name:
                        continue
                    if any(id(r) in tainted for r in reaching(d.value.id, d)):
                        tainted.add(id(d))
                        changed = True
        for n in walk_scope(fn):
            site = None
            if isinstance(n, ast.Call) and isinstance(n.func, ast.Attribute) and n.func.attr in _MUTATORS and isinstance(n.func.value, ast.Name):
                site = (n.func.value.id, f".{n.func.attr}()")
            elif isinstance(n, ast.Delete):
                for t in n.targets:
                    if isinstance(t, ast.Subscript) and isinstance(t.value, ast.Name):
                        site = (t.value.id, "del [...]")
            elif isinstance(n, ast.Assign) and any(isinstance(t, ast.Subscript) and isinstance(t.value, ast.Name) for t in n.targets):
                t0 = [t for t in n.targets if isinstance(t, ast.Subscript) and isinstance(t.value, ast.Name)][0]
                site = (t0.value.id, "[...] = ")
            elif isinstance(n, ast.AugAssign) and isinstance(n.target, ast.Name) and isinstance(n.op, (ast.Add, ast.Mult)):
                site = (n.target.id, " += (in place for a list)")
            if site is None or site[0] not in defs:
                continue
            n_sites += 1
            st = _stmt(mod, n)
            src = [r for r in reaching(site[0], st) if id(r) in tainted and r is not st]
            if src:
                ctx.R.fail("ENG-9", mod, n, f"{q}: `{norm(n)[:60]}` changes `{site[0]}`, which here can be the very object a hook returned (`{norm(src[0])[:60]}`, line {src[0].lineno}): a hook that hands "
                           "back a sequence it keeps (its list of children, a cached tuple) finds it emptied / reordered afterwards, and the next extraction of the same object loses those frames without any error",
                           construct=f"{q}: {site[0]}{site[1]} on a hook result")
    if n_hook < 3:
        raise AnalysisError(f"ENG-9: only {n_hook} hook-result assignments found in the engine")
    ctx.R.ok("ENG-9", f"_extract: {n_sites} in-place changes of locals examined against {n_hook} hook-result definitions", "none can reach an object a hook returned")


def eng10(ctx: Ctx) -> None:
    """ENG-10 a @yields_frames iterator (every StackSlice, hence every thread / greenlet / frame-range extraction) is drained to
    its end: the loop that calls next() on it leaves only when the iterator is exhausted (StopIteration) or fails (the failure is
    recorded).  An item counter with a cap -- "probably an infinite loop?" -- cuts the innermost frames of any stack deeper than
    the cap (the frames of a thread are exactly as many as it has; sys.getrecursionlimit() is neither a bound on another
    thread's depth nor constant)"""
    mod = _engine_mod(ctx)
    fn = mod.fn("extract_iter")
    loops = []
    for w in walk_scope(fn):
        if isinstance(w, (ast.While, ast.For)):
            nx = [c for st in w.body for c in ast.walk(st) if isinstance(c, ast.Call) and isinstance(c.func, ast.Name) and c.func.id == "next" and len(c.args) == 1]
            inner = [x for st in w.body for x in ast.walk(st) if isinstance(x, (ast.While, ast.For))]
            if nx and not any(any(c is y for y in ast.walk(i)) for c in nx for i in inner):
                loops.append((w, nx))
    if not loops:
        ctx.R.undecided("ENG-10", "no loop of extract_iter calls next() on a hook's iterator (the iterator may be drained some other way)")
        return
    for w, nx in loops:
        bad = None
        own = []

        def collect(stmts, in_handler: Optional[str]):
            for st in stmts:
                if isinstance(st, (ast.While, ast.For, ast.FunctionDef, ast.AsyncFunctionDef)):
                    continue
                if isinstance(st, (ast.Break, ast.Raise, ast.Return)):
                    own.append((st, in_handler))
                if isinstance(st, ast.Try):
                    collect(st.body, in_handler)
                    for h in st.handlers:
                        collect(h.body, norm(h.type) if h.type is not None else "bare")
                    collect(st.orelse, in_handler)
                    collect(st.finalbody, in_handler)
                else:
                    for fld in ("body", "orelse"):
                        collect(getattr(st, fld, []) or [], in_handler)
        collect(w.body, None)
        extra = [(st, h) for st, h in own if h is None]
        if isinstance(w, ast.While) and not (isinstance(w.test, ast.Constant) and w.test.value is True):
            cnt = [n for n in ast.walk(w.test) if isinstance(n, ast.Compare) and any(isinstance(o, (ast.Lt, ast.LtE, ast.Gt, ast.GtE)) for o in n.ops)]
            if cnt:
                bad = (w, f"the loop condition `{norm(w.test)[:50]}`")
        if bad is None and extra:
            # an exit that is not the reaction to the iterator ending / failing: guarded by a count?
            for st, _ in extra:
                gs = [g_ for g_, _pol in _guards(mod, st, w)]
                if any(isinstance(c_, ast.Compare) and any(isinstance(o, (ast.Lt, ast.LtE, ast.Gt, ast.GtE)) for o in c_.ops) for g_ in gs for c_ in ast.walk(g_)):
                    bad = (st, f"`{norm(st)[:50]}` under `{norm(gs[-1])[:50]}`")
                    break
        if bad is not None:
            ctx.R.fail("ENG-10", mod, bad[0], f"the loop that drains a hook's frame iterator can stop because of {bad[1]}, i.e. after a number of items: every frame beyond that count is cut from the "
                       "result (a thread / greenlet / frame range deeper than the cap loses its innermost frames and gets an error instead)", construct="item cap on the FrameIterator drain loop")
        elif extra:
            ctx.R.undecided("ENG-10", f"the drain loop has an exit outside its StopIteration / Exception handlers: `{norm(extra[0][0])[:50]}`")
        else:
            ctx.R.ok("ENG-10", f"_extract.extract_iter: the loop around `{norm(nx[0])}` ends only in its handlers ({sorted({h for _, h in own if h})})")


def _guards(mod: Mod, node: ast.AST, stop: ast.AST):
    from .opcodes import guards_of
    return guards_of(mod, node, stop)


def eng5(ctx: Ctx) -> None:
    """ENG-5 a frame is handed to the consumer only after elaborate_frame has run for it: in the main loop of extract_iter the
    elaborate_frame call is on every path to `yield frame` (extract_outermost takes one frame and never resumes the generator,
    so flags set by hooks after the yield would be missing from its result)"""
    mod = _engine_mod(ctx)
    fn = mod.fn("extract_iter")
    ctx.R.saw(mod, "extract_iter")
    main = _main_loop(fn)
    ys = [s for s in ast.walk(main) if isinstance(s, ast.Expr) and isinstance(s.value, ast.Yield)]
    ecall = [c for c in calls_in(main, True) if ctx.P.resolve_call(mod, c).is_pkg("_customization", "elaborate_frame")]
    if not ys or not ecall:
        raise AnalysisError("ENG-5: `yield frame` or the elaborate_frame call not found in the main loop")
    g = ctx.cfg(fn)
    header = g.node_of(main)
    through = {g.node_of(_stmt(mod, c)).idx for c in ecall}
    for y in ys:
        yn = g.node_of(y)
        if g.all_paths_pass(header, {yn.idx}, through):
            ctx.R.ok("ENG-5", f"line {y.lineno}: `{norm(y)}` is reached only after elaborate_frame ran for the frame")
        else:
            ctx.R.fail("ENG-5", mod, y, "the frame is yielded on a path on which elaborate_frame has not run for it yet: a consumer that stops after this frame (extract_outermost) "
                       "gets it without the hide / hide_line / customisations the hooks apply", construct="yield before elaborate_frame")


def err1(ctx: Ctx) -> None:
    """ERR-1 error paths of the engine never overwrite what may already carry recorded errors: inside an except handler of the
    engine module nothing is stored into a Context / Frame / Stack with setattr(), and none of their error-carrying fields
    (inner_stack, children, contexts, error, frames) is assigned.  (A roll-back of a half-filled Context discards the inner
    Stack whose .error holds an earlier, already contained fault: that fault is then retrievable from nowhere.)"""
    mod = _engine_mod(ctx)
    carrying = {"inner_stack", "children", "contexts", "error", "frames"}
    n = 0
    for q, fn in mod.defs.items():
        if not isinstance(fn, (ast.FunctionDef, ast.AsyncFunctionDef)):
            continue
        for h in ast.walk(fn):
            if not isinstance(h, ast.ExceptHandler) or mod.enclosing_def(h) is not fn:
                continue
            n += 1
            bad = None
            for x in ast.walk(h):
                if isinstance(x, ast.Call) and isinstance(x.func, ast.Name) and x.func.id == "setattr":
                    bad = (x, f"setattr({norm(x.args[0]) if x.args else ''}, ...)")
                elif isinstance(x, (ast.Assign, ast.AugAssign)):
                    for tg in (x.targets if isinstance(x, ast.Assign) else [x.target]):
                        if isinstance(tg, ast.Attribute) and tg.attr in carrying:
                            bad = (x, norm(tg))
            if bad:
                ctx.R.fail("ERR-1", mod, bad[0], f"{q}: an except handler stores `{bad[1]}`: on an error path the engine overwrites a field that may already hold contained faults "
                           "(an inner Stack with its .error, child contexts), so an earlier recorded exception becomes unretrievable", construct=f"{q}: handler overwrites {bad[1]}")
            else:
                ctx.R.ok("ERR-1", f"{q}: handler at line {h.lineno} only records / degrades")
    if n < 6:
        raise AnalysisError(f"ERR-1: {n} except handlers found in the engine module (>= 6 confirmed by hand)")


def truth1(ctx: Ctx) -> None:
    """TRUTH-1 what a hook returns is never tested for truthiness: PRUNE is the empty tuple and an empty sequence is a
    meaningful answer of elaborate_frame / unwrap_stackitem (remove the callees / the item), None is the only "no opinion";
    so `result or default`, `if result:`, `not result` turn PRUNE / [] into "no opinion".  Checked for every call of a hook
    dispatcher and of a user-supplied hook parameter (customize(elaborate=...)) in the engine and customization modules"""
    hooks = ("elaborate_frame", "unwrap_stackitem", "unwrap_context", "unwrap_context_generator")
    n = 0
    for mn in ("_extract", "_customization"):
        mod = ctx.P.mod(mn)
        for q, fn in mod.defs.items():
            if not isinstance(fn, (ast.FunctionDef, ast.AsyncFunctionDef)):
                continue
            # user hook parameters: `elaborate` of customize and names bound from it in enclosing scopes
            user = set()
            for f_up in [fn] + [a for a in mod.ancestors(fn) if isinstance(a, ast.FunctionDef)]:
                if f_up.name == "customize":
                    user.add("elaborate")
                    for a_ in ast.walk(f_up):
                        if isinstance(a_, ast.Assign) and len(a_.targets) == 1 and isinstance(a_.targets[0], ast.Name) and isinstance(a_.value, ast.Name) and a_.value.id in user:
                            user.add(a_.targets[0].id)
            for c in calls_in(fn, scope_only=True):
                if not (isinstance(c.func, ast.Name) and (c.func.id in hooks or c.func.id in user)):
                    continue
                if c.func.id in hooks and not ctx.P.resolve_call(mod, c).kind == "pkg":
                    continue
                n += 1
                bad = _bool_use(mod, fn, c)
                if bad is not None:
                    ctx.R.fail("TRUTH-1", mod, bad, f"{q}: the result of `{norm(c)[:50]}` is tested for truthiness in `{norm(bad)[:70]}`: PRUNE (the empty tuple) and an empty sequence are falsy, "
                               "so a hook's \"remove the callees\" answer is treated like None (\"no opinion\")", construct=f"{q}: truthiness of {c.func.id}(...)")
                else:
                    ctx.R.ok("TRUTH-1", f"{mn}.{q}: {norm(c)[:50]}", "result only compared with None / PRUNE / isinstance")
    if n < 4:
        raise AnalysisError(f"TRUTH-1: {n} hook calls found in the engine / customization modules (>= 4 confirmed by hand)")


def _bool_use(mod, fn: ast.AST, c: ast.Call) -> Optional[ast.AST]:
    """the node in which the value of call c (directly, or through the local name it is assigned to) is used as a truth value"""
    def boolean_parent(x: ast.AST) -> Optional[ast.AST]:
        p = mod.parent_of(x)
        if isinstance(p, ast.BoolOp):
            # the last operand of `a or b` is returned as is; only operands that are *tested* count
            if any(v is x for v in p.values[:-1]):
                return p
            return boolean_parent(p)
        if isinstance(p, ast.UnaryOp) and isinstance(p.op, ast.Not):
            return p
        if isinstance(p, (ast.If, ast.While, ast.IfExp)) and p.test is x:
            return p
        if isinstance(p, ast.Assert) and p.test is x:
            return None
        return None
    b = boolean_parent(c)
    if b is not None:
        return b
    p = mod.parent_of(c)
    if isinstance(p, ast.Assign) and len(p.targets) == 1 and isinstance(p.targets[0], ast.Name):
        v = p.targets[0].id
        # only while v still holds the hook result: stop at other assignments to v (approximation: single other source allowed if None/PRUNE constant)
        for u in ast.walk(fn):
            if isinstance(u, ast.Name) and u.id == v and isinstance(u.ctx, ast.Load) and mod.enclosing_def(u) is fn:
                b = boolean_parent(u)
                if b is not None:
                    return b
    return None


def _boolean_parent(mod, x: ast.AST) -> Optional[ast.AST]:
    """the node in which expression x is used as a truth value (operand of not / tested operand of and/or / test of if, while, ifexp)"""
    p = mod.parent_of(x)
    if isinstance(p, ast.BoolOp):
        if any(v is x for v in p.values[:-1]):
            return p
        return _boolean_parent(mod, p)
    if isinstance(p, ast.UnaryOp) and isinstance(p.op, ast.Not):
        return p
    if isinstance(p, (ast.If, ast.While, ast.IfExp)) and p.test is x:
        return p
    if isinstance(p, ast.comprehension) and any(i is x for i in p.ifs):
        return p.iter
    return None


def truth2(ctx: Ctx) -> None:
    """TRUTH-2 the engine never asks a stack item (an element of what unwrap_stackitem / elaborate_frame returned, the item handed
    to a hook, the next inner item) for its truth value or for equality: `if item:`, `filter(None, items)`, `any(items)`, `item ==
    x` run the target program's own __bool__ / __len__ / __eq__ (a perturbation, and an exception there escapes every guard), and a
    leaf that happens to be falsy at this suspension point is dropped.  Items are compared with `is` / `is not` / isinstance only"""
    mod = ctx.P.mod("_extract")
    fn = mod.defs.get("extract_iter")
    if fn is None:
        raise AnalysisError("TRUTH-2: _extract.extract_iter not found")
    hooks = ("unwrap_stackitem", "elaborate_frame")
    containers: Set[str] = set()
    elements: Set[str] = set()
    WRAP = ("reversed", "list", "tuple", "iter", "filter", "enumerate", "collections.deque", "deque")

    def cont_expr(e: ast.AST) -> bool:
        if isinstance(e, ast.Name):
            return e.id in containers
        if isinstance(e, ast.Call):
            f = norm(e.func)
            if isinstance(e.func, ast.Name) and e.func.id in hooks:
                return True
            if f in WRAP:
                return any(cont_expr(a) for a in e.args)
            return False
        if isinstance(e, (ast.Tuple, ast.List)):
            return bool(e.elts) and all(el_expr(x) or cont_star(x) for x in e.elts)
        if isinstance(e, ast.Subscript) and isinstance(e.slice, ast.Slice):
            return cont_expr(e.value)
        if isinstance(e, ast.IfExp):
            return cont_expr(e.body) or cont_expr(e.orelse)
        if isinstance(e, (ast.ListComp, ast.GeneratorExp)) and len(e.generators) == 1 and isinstance(e.elt, ast.Name) and isinstance(e.generators[0].target, ast.Name) \
                and e.elt.id == e.generators[0].target.id:
            return cont_expr(e.generators[0].iter)
        return False

    def cont_star(e: ast.AST) -> bool:
        return isinstance(e, ast.Starred) and cont_expr(e.value)

    def el_expr(e: ast.AST) -> bool:
        if isinstance(e, ast.Name):
            return e.id in elements or e.id in containers     # a hook result that is not a sequence is itself the item
        if isinstance(e, ast.Subscript) and not isinstance(e.slice, ast.Slice):
            return cont_expr(e.value)
        if isinstance(e, ast.Call) and norm(e.func) == "next" and e.args:
            return True
        return False

    nodes = list(walk_scope(fn))
    for _ in range(4):
        for n in nodes:
            if isinstance(n, ast.Assign) and len(n.targets) == 1 and isinstance(n.targets[0], ast.Name):
                if cont_expr(n.value):
                    containers.add(n.targets[0].id)
                elif el_expr(n.value) and not isinstance(n.value, ast.Name):
                    elements.add(n.targets[0].id)
            elif isinstance(n, ast.AnnAssign) and isinstance(n.target, ast.Name) and n.value is not None and cont_expr(n.value):
                containers.add(n.target.id)
            elif isinstance(n, (ast.For, ast.comprehension)) and isinstance(n.target, ast.Name) and cont_expr(n.iter):
                elements.add(n.target.id)
            elif isinstance(n, ast.Call) and isinstance(n.func, ast.Name) and n.func.id in hooks:
                for a in n.args:
                    if isinstance(a, ast.Name):
                        elements.add(a.id)
    # the elaborated Frame is the package's own object (no __bool__/__len__/__eq__ of the target's): not an item in this sense
    own = {n.test.args[0].id for n in nodes if isinstance(n, ast.Assert) and isinstance(n.test, ast.Call) and norm(n.test.func) == "isinstance" and len(n.test.args) == 2
           and isinstance(n.test.args[0], ast.Name) and norm(n.test.args[1]) == "Frame"}
    elements -= own
    if not ({"unwrapped", "replacement"} & containers or len(containers) >= 2) or not elements:
        raise AnalysisError(f"TRUTH-2: hook results / their elements not recognised in extract_iter (containers {sorted(containers)}, elements {sorted(elements)})")
    n_use = 0
    for n in nodes:
        if isinstance(n, (ast.Name, ast.Subscript)) and isinstance(getattr(n, "ctx", None), ast.Load) and el_expr(n) and not (isinstance(n, ast.Name) and n.id in containers and n.id not in elements):
            n_use += 1
            b = _boolean_parent(mod, n)
            if b is not None:
                ctx.R.fail("TRUTH-2", mod, n, f"extract_iter: the stack item `{norm(n)}` is used as a truth value in `{norm(b)[:70]}`: this runs the target's own __bool__/__len__ (perturbation; an exception there escapes "
                           "the engine's guards) and drops an item that is falsy at this suspension point (Stack.leaf lost)", construct=f"truthiness of item {norm(n)}")
                continue
            p = mod.parent_of(n)
            if isinstance(p, ast.Compare) and any(isinstance(o, (ast.Eq, ast.NotEq, ast.In, ast.NotIn)) for o in p.ops) and not any(isinstance(x, ast.Constant) and isinstance(x.value, (int, str)) and not isinstance(x.value, bool)
                                                                                                                 for x in [p.left] + p.comparators):
                others = [x for x in [p.left] + p.comparators if x is not n]
                if isinstance(p.ops[0], (ast.In, ast.NotIn)) and p.left is not n:
                    continue
                ctx.R.fail("TRUTH-2", mod, p, f"extract_iter: the stack item `{norm(n)}` is compared by value in `{norm(p)[:70]}`: this runs the target's own __eq__/__ne__ outside every guard; items are compared by identity",
                           construct=f"value comparison of item {norm(n)}")
        elif isinstance(n, ast.Call) and isinstance(n.func, ast.Name) and n.func.id in ("filter", "any", "all") and n.args:
            a = n.args[-1]
            if cont_expr(a) and (n.func.id != "filter" or (isinstance(n.args[0], ast.Constant) and n.args[0].value is None) or norm(n.args[0]) == "bool"):
                n_use += 1
                ctx.R.fail("TRUTH-2", mod, n, f"extract_iter: `{norm(n)[:60]}` tests every stack item of a hook's result for truthiness: this runs the target's own __bool__/__len__ and drops items that are falsy at this "
                           "suspension point (Stack.leaf lost)", construct=f"truthiness of items in {norm(a)}")
    if n_use < 3:
        raise AnalysisError(f"TRUTH-2: only {n_use} uses of stack items found in extract_iter")
    ctx.R.ok("TRUTH-2", f"_extract.extract_iter: {n_use} uses of stack items {sorted(elements)} (from {sorted(containers)})", "identity / isinstance tests only; never a truth value or ==")


def _asend_by_evaluation(fn: ast.FunctionDef) -> Optional[str]:
    """evaluate the selector (engine MINI) with gc.get_referents(aw) == [own generator, payload], both having ag_frame:
    'first' / 'last' by which one is returned, None when the body is outside the evaluator's fragment"""
    from types import SimpleNamespace
    from ..minieval import Mini, Raised, Unsupported, _Return
    own, sent = SimpleNamespace(tag="own"), SimpleNamespace(tag="sent")
    params = [a.arg for a in fn.args.args]
    if len(params) != 1:
        return None
    env = {params[0]: SimpleNamespace(tag="aw"), "gc": SimpleNamespace(get_referents=lambda aw: [own, sent])}
    m = Mini(env, {}, {"hasattr": lambda o_, n_: n_ == "ag_frame" and o_ in (own, sent)})
    try:
        for st in fn.body:
            m.stmt(st)
    except _Return as r:
        return "first" if r.value is own else "last" if r.value is sent else None
    except (Unsupported, Raised):
        return None
    except Exception:
        return None
    return None


def asend1(ctx: Ctx) -> None:
    """ASEND-1 the awaitable of agen.asend(v) / agen.athrow(...) is followed to *its own* async generator.  The awaitable does
    not expose the generator, so the glue picks it from gc.get_referents(aw) by "has ag_frame".  FACTS (asend_referents): on every
    supported interpreter the referents are [the generator, the sent value], so when the value sent is itself an async generator
    only the *first* referent with ag_frame is the right one; choosing the last follows the payload instead of the chain"""
    mod = ctx.P.mod("_glue")
    cands = [(q, fn) for q, fn in mod.defs.items() if isinstance(fn, ast.FunctionDef) and any(isinstance(c, ast.Constant) and c.value == "ag_frame" for c in ast.walk(fn))
             and any(norm(c.func) == "gc.get_referents" for c in calls_in(fn, scope_only=True))]
    if not cands:
        raise AnalysisError("ASEND-1: no function selects the referent with ag_frame")
    own = {v: ctx.F["interp"][v]["asend_referents"] for v in ctx.V.all}
    if not all(o["asend_own_index"] == [0] and o["athrow_own_index"] == [0] for o in own.values()):
        raise AnalysisError(f"ASEND-1: the facts no longer say that the generator is the first referent: {own}")
    later = sorted(v for v, o in own.items() if o["asend_sent_value_index"] and o["asend_sent_value_index"][0] > 0)
    for q, fn in cands:
        ctx.R.saw(mod, q)
        ev = _asend_by_evaluation(fn)
        if ev == "first":
            ctx.R.ok("ASEND-1", f"_glue.{q}: evaluated with referents [own generator, sent async generator]: the own generator is returned", f"FACTS: own generator at index 0, sent value at index 1 on {sorted(own)}")
            continue
        if ev == "last":
            ctx.R.fail("ASEND-1", mod, fn, f"{q} follows the *last* referent that has ag_frame; gc.get_referents(agen.asend(v)) is [agen, v] on CPython {later}, so when an async generator is "
                       "sent into another one the stack continues into the payload instead of the generator being resumed (wrong frames, no error)", construct=f"{q}: last referent with ag_frame")
            continue
        test = lambda e, var: isinstance(e, ast.Call) and norm(e.func) == "hasattr" and len(e.args) == 2 and isinstance(e.args[0], ast.Name) and e.args[0].id == var \
            and isinstance(e.args[1], ast.Constant) and e.args[1].value == "ag_frame"
        verdict = None
        where: ast.AST = fn
        for n in walk_scope(fn):
            # for r in gc.get_referents(aw): if hasattr(r, 'ag_frame'): return r      -> first
            if isinstance(n, ast.For) and isinstance(n.target, ast.Name) and "gc.get_referents" in norm(n.iter):
                rev = norm(n.iter).startswith("reversed(") or "[::-1]" in norm(n.iter)
                for st in n.body:
                    if isinstance(st, ast.If) and test(st.test, n.target.id) and st.body and isinstance(st.body[0], ast.Return) and norm(st.body[0].value) == n.target.id:
                        verdict, where = ("last" if rev else "first"), n
                    elif isinstance(st, ast.If) and test(st.test, n.target.id) and st.body and isinstance(st.body[0], ast.Assign) and norm(st.body[0].value) == n.target.id \
                            and not any(isinstance(b, (ast.Break, ast.Return)) for b in st.body):
                        verdict, where = ("first" if rev else "last"), n
                    elif isinstance(st, ast.If) and test(st.test, n.target.id) and st.body and isinstance(st.body[0], ast.Assign) and norm(st.body[0].value) == n.target.id:
                        verdict, where = ("last" if rev else "first"), n
            # [r for r in gc.get_referents(aw) if hasattr(r, 'ag_frame')] ... [0] / [-1] ; next(r for ...)
            if isinstance(n, (ast.ListComp, ast.GeneratorExp)) and len(n.generators) == 1 and isinstance(n.generators[0].target, ast.Name) and "gc.get_referents" in norm(n.generators[0].iter) \
                    and len(n.generators[0].ifs) == 1 and test(n.generators[0].ifs[0], n.generators[0].target.id) and norm(n.elt) == n.generators[0].target.id:
                rev = norm(n.generators[0].iter).startswith("reversed(")
                p = mod.parent_of(n)
                if isinstance(p, ast.Call) and norm(p.func) == "next":
                    verdict, where = ("last" if rev else "first"), p
                elif isinstance(p, ast.Subscript):
                    idx = norm(p.slice)
                    verdict, where = {"0": "last" if rev else "first", "-1": "first" if rev else "last"}.get(idx, verdict), p
                elif isinstance(p, ast.Assign) and len(p.targets) == 1 and isinstance(p.targets[0], ast.Name):
                    lst = p.targets[0].id
                    for u in walk_scope(fn):
                        if isinstance(u, ast.Subscript) and norm(u.value) == lst and isinstance(u.ctx, ast.Load):
                            idx = norm(u.slice)
                            if idx in ("0", "-1"):
                                verdict, where = ("first" if (idx == "0") != rev else "last"), u
                        elif isinstance(u, ast.Call) and isinstance(u.func, ast.Attribute) and norm(u.func.value) == lst and u.func.attr == "pop":
                            idx = norm(u.args[0]) if u.args else "-1"
                            if idx in ("0", "-1"):
                                verdict, where = ("first" if (idx == "0") != rev else "last"), u
        # positive evidence of a wrong selection: the generator is looked up by id(<the awaitable>) in a container that is not
        # local to the hook (a memo that outlives the call) and that value can be returned.  The awaitable is neither kept alive
        # nor weak-referenceable, so its address is reused by a later awaitable, which is then followed to another generator.
        params = {a.arg for a in fn.args.args}
        local_names = {t.id for st_ in walk_scope(fn) if isinstance(st_, ast.Assign) for t in st_.targets if isinstance(t, ast.Name)} | params

        def id_lookup(e: ast.AST):
            for x in ast.walk(e):
                key = None
                if isinstance(x, ast.Subscript) and isinstance(x.ctx, ast.Load) and isinstance(x.value, ast.Name) and x.value.id not in local_names:
                    key = x.slice
                elif isinstance(x, ast.Call) and isinstance(x.func, ast.Attribute) and x.func.attr in ("get", "pop") and isinstance(x.func.value, ast.Name) \
                        and x.func.value.id not in local_names and x.args:
                    key = x.args[0]
                if key is not None and isinstance(key, ast.Call) and norm(key.func) == "id" and len(key.args) == 1 and isinstance(key.args[0], ast.Name) and key.args[0].id in params:
                    return x
            return None
        tainted: Dict[str, ast.AST] = {}
        changed = True
        while changed:
            changed = False
            for st_ in walk_scope(fn):
                if isinstance(st_, ast.Assign) and len(st_.targets) == 1 and isinstance(st_.targets[0], ast.Name) and st_.targets[0].id not in tainted:
                    lk = id_lookup(st_.value)
                    if lk is None:
                        for x in ast.walk(st_.value):
                            if isinstance(x, ast.Name) and x.id in tainted:
                                lk = tainted[x.id]
                                break
                    if lk is not None:
                        tainted[st_.targets[0].id] = lk
                        changed = True
        bad = None
        for st_ in walk_scope(fn):
            if isinstance(st_, ast.Return) and st_.value is not None:
                lk = id_lookup(st_.value)
                if lk is None:
                    for x in ast.walk(st_.value):
                        if isinstance(x, ast.Name) and x.id in tainted:
                            lk = tainted[x.id]
                            break
                if lk is not None:
                    bad = (st_, lk)
                    break
        if bad is not None:
            ctx.R.fail("ASEND-1", mod, bad[0], f"{q} can return a generator looked up by the awaitable's address (`{norm(bad[1])[:70]}`) in a container that outlives the call: the awaitable "
                       "is not kept alive, CPython reuses its address for a later asend()/athrow() awaitable, and that one is then followed to the remembered generator "
                       "instead of its own (frames of a different chain, no error)", construct=f"{q}: generator selected by id() of the awaitable")
        elif verdict == "first":
            ctx.R.ok("ASEND-1", f"_glue.{q}: first referent with ag_frame", f"FACTS: own generator at index 0, sent value at index 1 on {sorted(own)}")
        elif verdict == "last":
            ctx.R.fail("ASEND-1", mod, where, f"{q} follows the *last* referent that has ag_frame; gc.get_referents(agen.asend(v)) is [agen, v] on CPython {later}, so when an async generator is "
                       "sent into another one the stack continues into the payload instead of the generator being resumed (wrong frames, no error)", construct=f"{q}: last referent with ag_frame")
        else:
            ctx.R.undecided("ASEND-1", f"{q}: cannot tell which referent with ag_frame is selected")


def asend2(ctx: Ctx) -> None:
    """ASEND-2 the awaitables of an async generator are followed for every way of driving it.  FACTS (asend_referents): asend() and
    __anext__() return one type (async_generator_asend), athrow() and aclose() another (async_generator_athrow), on every supported
    interpreter.  The function that follows such an awaitable to its generator is registered with unwrap_stackitem for a type
    taken from an asend()/__anext__() probe *and* for one taken from an athrow()/aclose() probe; with only one of them a chain
    suspended inside `await agen.aclose()` / `athrow()` (resp. `asend()` / `async for`) stops at the awaitable"""
    mod = ctx.P.mod("_glue")
    kinds = {v: (ctx.F["interp"][v]["asend_referents"]["asend_type"], ctx.F["interp"][v]["asend_referents"]["athrow_type"], ctx.F["interp"][v]["asend_referents"]["aclose_type"],
                 ctx.F["interp"][v]["asend_referents"]["anext_type"]) for v in ctx.V.all}
    if not all(k[0] != k[1] and k[2] == k[1] and k[3] == k[0] for k in kinds.values()):
        raise AnalysisError(f"ASEND-2: the facts no longer say asend/anext and athrow/aclose awaitables are two types: {kinds}")
    cands = [(q, fn) for q, fn in mod.defs.items() if isinstance(fn, ast.FunctionDef) and any(isinstance(c, ast.Constant) and c.value == "ag_frame" for c in ast.walk(fn))
             and any(norm(c.func) == "gc.get_referents" for c in calls_in(fn, scope_only=True))]
    if not cands:
        raise AnalysisError("ASEND-2: no function selects the referent with ag_frame")
    for q, fn in cands:
        outer = mod.enclosing_def(fn) or mod.tree
        # names bound to type(<agen>.<method>(...)) in the enclosing scope
        probes: Dict[str, str] = {}
        METH = ("asend", "athrow", "aclose", "__anext__")
        aw_of = {a.targets[0].id: a.value.func.attr for a in ast.walk(outer) if isinstance(a, ast.Assign) and len(a.targets) == 1 and isinstance(a.targets[0], ast.Name)
                 and isinstance(a.value, ast.Call) and isinstance(a.value.func, ast.Attribute) and a.value.func.attr in METH}      # x = agen.aclose()
        for a in ast.walk(outer):
            if isinstance(a, ast.Assign) and len(a.targets) == 1 and isinstance(a.targets[0], ast.Name) and isinstance(a.value, ast.Call) and norm(a.value.func) == "type" and a.value.args:
                arg0 = a.value.args[0]
                meth = arg0.func.attr if isinstance(arg0, ast.Call) and isinstance(arg0.func, ast.Attribute) and arg0.func.attr in METH else aw_of.get(arg0.id) if isinstance(arg0, ast.Name) else None
                if meth:
                    probes[a.targets[0].id] = "send" if meth in ("asend", "__anext__") else "throw"
        regs = []
        for d in fn.decorator_list:
            if isinstance(d, ast.Call) and isinstance(d.func, ast.Attribute) and d.func.attr == "register" and norm(d.func.value) == "unwrap_stackitem" and d.args:
                regs.append(norm(d.args[0]))
        for c in ast.walk(outer):
            if isinstance(c, ast.Call) and isinstance(c.func, ast.Attribute) and c.func.attr == "register" and norm(c.func.value) == "unwrap_stackitem" and len(c.args) >= 2 and norm(c.args[-1]) == fn.name:
                for a_ in c.args[:-1]:
                    # registered in a loop over a tuple of types: every element counts
                    loops_ = [l_ for l_ in mod.ancestors(c) if isinstance(l_, ast.For) and isinstance(l_.target, ast.Name) and norm(a_) == l_.target.id and isinstance(l_.iter, (ast.Tuple, ast.List))]
                    if loops_:
                        regs.extend(norm(e_) for e_ in loops_[0].iter.elts)
                    else:
                        regs.append(norm(a_))
        got = {probes.get(r) for r in regs}
        unknown = [r for r in regs if r not in probes]
        if unknown:
            ctx.R.undecided("ASEND-2", f"{q} is registered for `{unknown[0]}`, which is not a type taken from an asend/athrow/aclose/__anext__ probe")
        elif {"send", "throw"} <= got:
            ctx.R.ok("ASEND-2", f"_glue.{q}: registered for {sorted(regs)}", "both awaitable types (FACTS: asend/__anext__ vs athrow/aclose)")
        elif got:
            missing = "athrow() / aclose()" if "throw" not in got else "asend() / __anext__() (also `async for`)"
            ctx.R.fail("ASEND-2", mod, fn, f"{q} is registered only for {sorted(regs)}: the awaitables returned by {missing} have a different type on every supported interpreter (FACTS), so a chain suspended "
                       f"inside `await agen.{'aclose()' if 'throw' not in got else 'asend(v)'}` stops at the awaitable: the generator's frames and everything inward are missing and the awaitable is reported as the leaf, "
                       "with no error", construct=f"{q}: not registered for the {'athrow' if 'throw' not in got else 'asend'} awaitable type")
        else:
            ctx.R.undecided("ASEND-2", f"no unwrap_stackitem registration of {q} found")


def sig1(ctx: Ctx) -> None:
    """SIG-1 every function registered for a hook takes the number of positional arguments the engine calls that hook with
    (unwrap_stackitem: 1; elaborate_frame / elaborate_context / unwrap_context / unwrap_context_generator: 2), and every call of
    a hook inside the package passes that many"""
    want = {"unwrap_stackitem": 1, "elaborate_frame": 2, "elaborate_context": 2, "unwrap_context": 2, "unwrap_context_generator": 2}
    n = 0
    for mod in ctx.P.analysed_mods():
        for q, fn in mod.defs.items():
            if not isinstance(fn, (ast.FunctionDef, ast.AsyncFunctionDef)):
                continue
            for d in fn.decorator_list:
                if isinstance(d, ast.Call) and isinstance(d.func, ast.Attribute) and d.func.attr == "register" and norm(d.func.value) in want:
                    hook = norm(d.func.value)
                    n += 1
                    a = fn.args
                    npos = len(a.posonlyargs) + len(a.args)
                    nreq = npos - len(a.defaults)
                    if a.vararg is None and not (nreq <= want[hook] <= npos):
                        ctx.R.fail("SIG-1", mod, fn, f"`{q}` is registered for {hook}, which the engine calls with {want[hook]} positional argument(s), but it takes {nreq}..{npos}: "
                                   "every extraction that reaches it fails with TypeError (recorded in Stack.error, the hook never runs)", construct=f"{q} registered for {hook} with {npos} parameter(s)")
                    else:
                        ctx.R.ok("SIG-1", f"{mod.name}.{q} registered for {hook}: {npos} parameter(s)")
        for c in ast.walk(mod.tree):
            if isinstance(c, ast.Call) and isinstance(c.func, ast.Name) and c.func.id in want and not c.keywords:
                cal = ctx.P.resolve_call(mod, c)
                if cal.kind == "pkg" and cal.name.endswith("_customization." + c.func.id) and not any(isinstance(x, ast.Starred) for x in c.args):
                    n += 1
                    if len(c.args) == want[c.func.id]:
                        ctx.R.ok("SIG-1", f"{mod.name}.{mod.qualname_of(c)}: {norm(c)[:60]}")
                    else:
                        ctx.R.fail("SIG-1", mod, c, f"{c.func.id} is called with {len(c.args)} argument(s); hooks registered for it take {want[c.func.id]}", construct=f"call {norm(c)[:80]}")
    if n < 25:
        raise AnalysisError(f"SIG-1: only {n} hook registrations / calls found (>= 25 confirmed by hand)")


C10 = C10 + [sig1, eng5, eng8, eng9, eng10, truth1, truth2, truth3]
C05 = C05 + [err1, truth2]
C11 = C11 + [sig1]
