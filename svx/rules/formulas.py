"""FORM-1: address / offset arithmetic of the two ctypes frame readers against the reference formulas that follow
from the C layouts (struct _frame of 3.9/3.10, _PyInterpreterFrame of 3.11/3.12).

Policy: an assignment whose expression is the reference formula up to commutativity passes; one built from the
same operands (same leaves) but with different operators / constants is a violation ("same ingredients, different
arithmetic"); anything else is undecided."""
from __future__ import annotations

import ast
from collections import Counter
from typing import List, Optional, Tuple

from ..ctx import Ctx
from ..model import AnalysisError, Mod, norm


def canon(e: ast.AST) -> str:
    """canonical text: operands of + and * sorted, parentheses normalised"""
    if isinstance(e, ast.BinOp) and isinstance(e.op, (ast.Add, ast.Mult)):
        def flat(x: ast.AST, op) -> List[ast.AST]:
            if isinstance(x, ast.BinOp) and isinstance(x.op, op):
                return flat(x.left, op) + flat(x.right, op)
            return [x]
        parts = sorted(canon(p) for p in flat(e, type(e.op)))
        sym = " + " if isinstance(e.op, ast.Add) else " * "
        return "(" + sym.join(parts) + ")"
    if isinstance(e, ast.BinOp):
        sym = {ast.Sub: "-", ast.FloorDiv: "//", ast.Div: "/", ast.LShift: "<<", ast.BitOr: "|", ast.Mod: "%"}.get(type(e.op), type(e.op).__name__)
        return f"({canon(e.left)} {sym} {canon(e.right)})"
    if isinstance(e, ast.Call) and norm(e.func) in ("cast", "typing.cast") and len(e.args) == 2:
        return canon(e.args[1])
    if isinstance(e, ast.IfExp):
        return f"({canon(e.body)} if {norm(e.test)} else {canon(e.orelse)})"
    return norm(e)


def leaves(e: ast.AST) -> Counter:
    c: Counter = Counter()
    if isinstance(e, ast.Call) and norm(e.func) in ("cast", "typing.cast") and len(e.args) == 2:
        return leaves(e.args[1])
    if isinstance(e, (ast.BinOp,)):
        return leaves(e.left) + leaves(e.right)
    if isinstance(e, ast.UnaryOp):
        return leaves(e.operand)
    if isinstance(e, ast.IfExp):
        return leaves(e.body) + leaves(e.orelse) + Counter({"?:" + norm(e.test): 1})
    if isinstance(e, ast.Constant):
        return Counter()  # constants are part of the arithmetic, not of the ingredients
    c[norm(e)] += 1
    return c


# (module, function qualname, assigned name, reference expression, which occurrence (guard text or None), meaning)
FORMULAS: List[Tuple[str, str, str, str, Optional[str], str]] = [
    ("_lowlevel_cpython_310", "inspect_frame", "stack_start_offset", "frame_raw.f_valuestack - id(frame)", None,
     "f_valuestack is an absolute pointer into the frame object; offsets are relative to the object's address"),
    ("_lowlevel_cpython_310", "inspect_frame", "localsplus_offset", "stack_start_offset - wordsize * (co.co_nlocals + len(co.co_cellvars) + len(co.co_freevars))", None,
     "3.9/3.10: f_localsplus holds co_nlocals + ncells + nfrees slots and the value stack starts right after them"),
    ("_lowlevel_cpython_310", "inspect_frame", "end_offset", "stack_start_offset + wordsize * co.co_stacksize", None,
     "the value stack has co_stacksize slots"),
    ("_lowlevel_cpython_310", "inspect_frame", "stack_top_offset", "frame_raw.f_stacktop - id(frame)", "suspended",
     "a suspended frame's f_stacktop is an absolute pointer to the first free slot"),
    ("_lowlevel_cpython_310", "inspect_frame", "blockstack_end_offset", "blockstack_offset + f_iblock.value * ctypes.sizeof(PyTryBlock)", None,
     "f_iblock entries of the block stack are in use"),
    ("_lowlevel_cpython_310", "FrameObjectStart.f_stacktop", "return", "self.f_valuestack + self.f_stackdepth * wordsize", None,
     "3.10 stores a depth instead of a pointer: top = f_valuestack + depth * sizeof(PyObject*)"),
    ("_lowlevel_cpython_311", "inspect_frame", "end_offset", "stack_start_offset + wordsize * co.co_stacksize", None,
     "the value stack has co_stacksize slots"),
    ("_lowlevel_cpython_311", "inspect_frame", "stack_top_offset", "localsplus_offset + wordsize * stacktop_copy", "suspended",
     "stacktop counts slots from localsplus"),
    ("_lowlevel_cpython_311", "inspect_frame", "stack_len", "(stack_top_offset - stack_start_offset) // wordsize", None,
     "number of live value-stack slots"),
]


def eval_on_code_vectors(ctx: Ctx, versions, expr: ast.AST, base_name: str, sign: int, prelude=()):
    """evaluate `expr` (engine MINI) for each observed code-object shape of each interpreter in `versions` (FACTS
    localsplus_vectors: co_* attributes and the number of fast-locals slots the frame really has), with `base_name` = 4096 and
    wordsize = 8; the value must be 4096 + sign * 8 * slots.  -> ("ok", n) | ("bad", (version, vector name, got, want)) | ("unsupported", why)"""
    from types import SimpleNamespace as NS
    from ..minieval import Mini, Raised, Unsupported
    n = 0
    for v in versions:
        for vec in ctx.F["interp"][v]["localsplus_vectors"]:
            co = NS(co_nlocals=vec["co_nlocals"], co_varnames=tuple(vec["co_varnames"]), co_cellvars=tuple(vec["co_cellvars"]), co_freevars=tuple(vec["co_freevars"]),
                    co_stacksize=vec["co_stacksize"], co_argcount=vec["co_argcount"], co_name=vec["name"], co_kwonlyargcount=vec.get("co_kwonlyargcount", 0),
                    co_posonlyargcount=vec.get("co_posonlyargcount", 0), co_flags=vec.get("co_flags", 0))
            env = {base_name: 4096, "wordsize": 8, "co": co, "code": co, "frame": NS(f_code=co), "inspect": NS(CO_VARARGS=4, CO_VARKEYWORDS=8, CO_GENERATOR=32, CO_COROUTINE=128)}
            try:
                m_ = Mini(env, {}, {"set": lambda x: tuple(dict.fromkeys(x)), "frozenset": lambda x: tuple(dict.fromkeys(x))})
                for st_ in prelude:
                    try:
                        m_.stmt(st_)
                    except Unsupported:
                        pass        # a local the expression may not need; if it does, its evaluation below says so
                got = m_.expr(expr)
            except (Unsupported, Raised) as ex:
                return "unsupported", str(ex)
            want = 4096 + sign * 8 * vec["slots"]
            if got != want:
                return "bad", (v, vec, got, want)
            n += 1
    return "ok", n


def form1(ctx: Ctx) -> None:
    n = 0
    for mn, q, var, ref, which, why in FORMULAS:
        mod = ctx.P.mod(mn)
        if not mod.has(q):
            ctx.R.undecided("FORM-1", f"{mn}.{q} not found")
            continue
        fn = mod.fn(q)
        ctx.R.saw(mod, q)
        refe = ast.parse(ref, mode="eval").body
        if var == "return":
            cands = [r.value for r in ast.walk(fn) if isinstance(r, ast.Return) and r.value is not None and not isinstance(r.value, ast.Constant)]
        else:
            cands = [a.value for a in ast.walk(fn) if isinstance(a, ast.Assign) and len(a.targets) == 1 and norm(a.targets[0]) == var]
        if which == "suspended":
            # the assignment that is not simply `= end_offset` / depends on the saved top
            cands = [c for c in cands if leaves(c) & leaves(refe)]
        if not cands:
            ctx.R.undecided("FORM-1", f"{mn}.{q}: no assignment of {var} found")
            continue
        n += 1
        good = [c for c in cands if canon(c) == canon(refe)]
        if good:
            ctx.R.ok("FORM-1", f"{mn}.{q}: {var} = {ref}", why)
            continue
        same = [c for c in cands if leaves(c) == leaves(refe)]
        if same:
            node = same[0]
            ctx.R.fail("FORM-1", mod, node, f"{mn}.{q}: `{var}` is computed as `{norm(node)[:90]}`; the layout requires `{ref}` ({why}): every slot address derived from it is shifted, "
                       "so a wrong PyObject* is dereferenced (crash) or the wrong managers are reported on the interpreters that use this module", construct=f"{var} = {norm(node)[:100]}")
        elif mn == "_lowlevel_cpython_310" and var == "localsplus_offset":
            # decided on the observed code-object shapes instead of by comparing ingredients
            kind, info = eval_on_code_vectors(ctx, [v_ for v_ in sorted(ctx.V.all) if v_ in ("3.9", "3.10")], cands[0], "stack_start_offset", -1)
            if kind == "ok":
                ctx.R.ok("FORM-1", f"{mn}.{q}: {var} = {norm(cands[0])[:70]}", f"agrees with the observed number of fast-locals slots on {info} code-object shapes (FACTS localsplus_vectors)")
            elif kind == "bad":
                v_, vec, got, want = info
                ctx.R.fail("FORM-1", mod, cands[0], f"{mn}.{q}: `{var}` = `{norm(cands[0])[:80]}` puts f_localsplus {(4096 - got) // 8} slots before the value stack for a function like `{vec['name']}` "
                           f"(varnames {vec['co_varnames']}, cellvars {vec['co_cellvars']}, freevars {vec['co_freevars']}) on CPython {v_}; the frame has {vec['slots']} ({why}): the block stack, f_iblock and "
                           "f_lasti are then read at shifted addresses and the frame's contexts are lost", construct=f"{var}: slot count wrong for {vec['name']}-shaped functions on {v_}")
            else:
                ctx.R.undecided("FORM-1", f"{mn}.{q}: `{var}` is computed by an expression outside the evaluator's fragment: {info}")
        else:
            ctx.R.undecided("FORM-1", f"{mn}.{q}: `{var}` is computed by an expression with other operands than the reference `{ref}`")
    if n < 7:
        raise AnalysisError(f"FORM-1: only {n} formula sites found (9 confirmed by hand)")


def form2_310_walk(ctx: Ctx) -> None:
    """FORM-2 the 3.9/3.10 block-stack walk: makes progress, records SETUP_FINALLY blocks as (b_handler * unit, b_level),
    and a running frame's stack is truncated to the deepest active block level before any slot is materialised"""
    mod = ctx.P.mod("_lowlevel_cpython_310")
    fn = mod.fn("inspect_frame")
    loops = [l for l in ast.walk(fn) if isinstance(l, ast.While) and "blockstack_offset" in norm(l.test)]
    if len(loops) != 1:
        ctx.R.undecided("FORM-2", "block-stack walk not found")
        return
    loop = loops[0]
    t = loop.test
    if isinstance(t, ast.Compare) and norm(t) == "blockstack_offset < blockstack_end_offset":
        ctx.R.ok("FORM-2", "walk condition blockstack_offset < blockstack_end_offset")
    elif isinstance(t, ast.Compare) and {norm(t.left), norm(t.comparators[0])} == {"blockstack_offset", "blockstack_end_offset"}:
        ctx.R.fail("FORM-2", mod, t, f"the block-stack walk must run while blockstack_offset < blockstack_end_offset; it tests `{norm(t)}` (one entry too many reads garbage, the inverse reads none)", construct=f"walk condition {norm(t)}")
    else:
        ctx.R.undecided("FORM-2", "walk condition not understood")
    steps = [s for s in loop.body if isinstance(s, ast.AugAssign) and norm(s.target) == "blockstack_offset"]
    sv_ = steps[0].value if len(steps) == 1 else None
    if isinstance(sv_, ast.Name):
        # a local / module-level name bound once to the size
        ds_ = [a_ for a_ in list(ast.walk(fn)) + list(mod.tree.body) if isinstance(a_, ast.Assign) and len(a_.targets) == 1 and isinstance(a_.targets[0], ast.Name) and a_.targets[0].id == sv_.id]
        if len(ds_) == 1:
            sv_ = ds_[0].value
    if len(steps) == 1 and isinstance(steps[0].op, ast.Add) and sv_ is not None and norm(sv_) in ("ctypes.sizeof(PyTryBlock)", "ctypes.sizeof(_PyTryBlock)", "sizeof(PyTryBlock)"):
        ctx.R.ok("FORM-2", "the walk advances by sizeof(PyTryBlock) per entry")
    elif len(steps) == 1 and isinstance(steps[0].op, ast.Add) and isinstance(sv_, ast.Name):
        ctx.R.undecided("FORM-2", f"the walk advances by `{norm(steps[0].value)}`, whose value is not visible")
    elif not steps:
        ctx.R.fail("FORM-2", mod, loop, "the block-stack walk never advances: inspecting any frame with an active block hangs", construct="walk step missing")
    else:
        ctx.R.fail("FORM-2", mod, steps[0], f"the walk must advance by +sizeof(PyTryBlock); it does `{norm(steps[0])}`", construct=f"walk step {norm(steps[0])}")
    fb = [c for c in ast.walk(loop) if isinstance(c, ast.Call) and norm(c.func).endswith("FinallyBlock")]
    if len(fb) == 1:
        kw = {k.arg: norm(k.value) for k in fb[0].keywords}
        if kw.get("level") == "block.b_level" and kw.get("handler") in ("block.b_handler * offset_mult", "offset_mult * block.b_handler"):
            ctx.R.ok("FORM-2", "FinallyBlock(handler=b_handler * unit, level=b_level)")
        elif set(kw) == {"handler", "level"} and ("b_level" in kw.get("handler", "") or "b_handler" in kw.get("level", "")):
            ctx.R.fail("FORM-2", mod, fb[0], "handler and level of a block are crossed", construct=f"FinallyBlock({kw})")
        elif kw.get("handler") == "block.b_handler":
            ctx.R.fail("FORM-2", mod, fb[0], "b_handler counts code units from 3.10 on: it must be scaled by offset_mult to match the byte offsets analyze_with_blocks uses", construct="handler not scaled")
        else:
            ctx.R.undecided("FORM-2", f"FinallyBlock arguments {kw} not understood")
        gs = [norm(g) for g, pol in _guards(mod, fb[0], fn) if pol]
        if any(g == "block.b_type == dis.opmap['SETUP_FINALLY']" for g in gs):
            ctx.R.ok("FORM-2", "only SETUP_FINALLY blocks are recorded (the block type with/async with push on 3.9/3.10)")
        else:
            ctx.R.undecided("FORM-2", "block type filter not recognised")
    else:
        ctx.R.fail("FORM-2", mod, loop, "the walk records no FinallyBlock: no context is ever found on 3.9/3.10", construct="FinallyBlock construction missing")
    # truncation of a running frame's stack before materialisation
    casts = [c for c in ast.walk(fn) if isinstance(c, ast.Call) and norm(c.func) == "ctypes.cast"]
    dels = [d for d in ast.walk(fn) if isinstance(d, ast.Delete) and norm(d.targets[0]).startswith("stack[")]
    if casts:
        cst = _stmt(mod, casts[0])
        blk = None
        p = mod.parent_of(cst)
        for f_ in ("body", "orelse"):
            b = getattr(p, f_, None)
            if isinstance(b, list) and any(x is cst for x in b):
                blk = b
        before = [norm(x) for x in (blk[:blk.index(cst)] if blk else [])]
        if "del stack[stack_validity_limit:]" in before:
            ctx.R.ok("FORM-2", "a running frame's stack is truncated to stack_validity_limit before addresses are turned into objects")
            lim = [a for a in ast.walk(fn) if isinstance(a, ast.Assign) and norm(a.targets[0]) == "stack_validity_limit"]
            vals = sorted(norm(a.value) for a in lim)
            if vals == ["0", "max((blk.level for blk in details.blocks))"]:
                ctx.R.ok("FORM-2", "stack_validity_limit = deepest active block level, 0 without blocks")
            elif any(isinstance(a.value, ast.Constant) and a.value.value != 0 for a in lim):
                ctx.R.fail("FORM-2", mod, lim[0], "without active blocks nothing of a running frame's stack may be trusted (limit 0)", construct=f"stack_validity_limit values {vals}")
            elif any("min(" in v for v in vals):
                ctx.R.fail("FORM-2", mod, lim[0], "the trusted extent is the level of the deepest active block (max), not the shallowest", construct=f"stack_validity_limit values {vals}")
            else:
                ctx.R.undecided("FORM-2", f"stack_validity_limit values {vals} not understood")
        elif not dels:
            ctx.R.fail("FORM-2", mod, cst, "addresses read from a running frame's whole stack area are turned into objects without truncating to the deepest active block level: slots above it hold stale pointers (crash)",
                       construct="no truncation before ctypes.cast")
        else:
            ctx.R.undecided("FORM-2", "truncation before materialisation not in the recognised place")


def _guards(mod: Mod, node: ast.AST, stop: ast.AST):
    from .opcodes import guards_of
    return guards_of(mod, node, stop)


def _stmt(mod: Mod, n: ast.AST) -> ast.AST:
    while not isinstance(n, ast.stmt):
        n = mod.parent_of(n)
    return n


RULES = [form1, form2_310_walk]
